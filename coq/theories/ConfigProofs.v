(* C20 - proofs about the Config model: the precedence contract, its consequences for a loaded
   configuration over an arbitrary key table, the agreement of the code model with the contract (and the one
   place where they differ), DbConfig.Validate against its declarative statement, and the obligations over the
   regenerated key table BHSGen.ConfigKeys. *)
From Coq Require Import String Ascii List Bool NArith Lia.
From BHS Require Import Config.
From BHSGen Require Import ConfigKeys.
Import ListNotations.
Open Scope string_scope.

(* ------------------------------------------------------------------------------------------------ *)
(* the contract *)

Theorem resolve_precedence :
  forall (K V : Type) (env file : K -> option V) (dflt : K -> V) (k : K),
    (forall v, env k = Some v -> resolve env file dflt k = v)
    /\ (forall v, env k = None -> file k = Some v -> resolve env file dflt k = v)
    /\ (env k = None -> file k = None -> resolve env file dflt k = dflt k).
Proof.
  intros K V env file dflt k. unfold resolve. repeat split.
  - intros v Henv. rewrite Henv. reflexivity.
  - intros v Henv Hfile. rewrite Henv, Hfile. reflexivity.
  - intros Henv Hfile. rewrite Henv, Hfile. reflexivity.
Qed.

(* the hypotheses of the three cases are satisfiable, with three different answers *)
Example resolve_precedence_example :
  let env := fun k : nat => if Nat.eqb k 1 then Some 10%N else None in
  let file := fun k : nat => if Nat.leb k 2 then Some 20%N else None in
  let dflt := fun _ : nat => 30%N in
  resolve env file dflt 1 = 10%N /\ resolve env file dflt 2 = 20%N /\ resolve env file dflt 3 = 30%N.
Proof. vm_compute. repeat split; reflexivity. Qed.

(* the value always comes from one of the three sources *)
Lemma resolve_cases :
  forall (K V : Type) (env file : K -> option V) (dflt : K -> V) (k : K),
    env k = Some (resolve env file dflt k)
    \/ (env k = None /\ file k = Some (resolve env file dflt k))
    \/ (env k = None /\ file k = None /\ resolve env file dflt k = dflt k).
Proof.
  intros K V env file dflt k. unfold resolve.
  destruct (env k) as [v|] eqn:Henv.
  - left. reflexivity.
  - destruct (file k) as [v|] eqn:Hfile.
    + right. left. split; reflexivity.
    + right. right. repeat split; reflexivity.
Qed.

(* ------------------------------------------------------------------------------------------------ *)
(* association lists *)

Lemma lookup_In : forall (m : assoc) k v, lookup m k = Some v -> In (k, v) m.
Proof.
  induction m as [|[k' v'] r IH]; simpl; intros k v Hl.
  - discriminate Hl.
  - destruct (String.eqb k' k) eqn:Heq.
    + apply String.eqb_eq in Heq. inversion Hl. subst. left. reflexivity.
    + right. apply IH. exact Hl.
Qed.

Lemma lookup_not_in : forall (m : assoc) k, ~ In k (map fst m) -> lookup m k = None.
Proof.
  induction m as [|[k' v'] r IH]; simpl; intros k Hn.
  - reflexivity.
  - destruct (String.eqb k' k) eqn:Heq.
    + apply String.eqb_eq in Heq. exfalso. apply Hn. left. exact Heq.
    + apply IH. intro Hin. apply Hn. right. exact Hin.
Qed.

Lemma existsb_eqb_In : forall (x : string) l, existsb (String.eqb x) l = true <-> In x l.
Proof.
  intros x l. rewrite existsb_exists. split.
  - intros [y [Hin Heq]]. apply String.eqb_eq in Heq. subst. exact Hin.
  - intro Hin. exists x. split; [exact Hin | apply String.eqb_refl].
Qed.

Lemma distinctb_NoDup : forall l, distinctb l = true -> NoDup l.
Proof.
  induction l as [|x r IH]; simpl; intro Hd.
  - constructor.
  - apply andb_prop in Hd. destruct Hd as [Hx Hr]. constructor.
    + intro Hin. apply existsb_eqb_In in Hin. rewrite Hin in Hx. discriminate Hx.
    + apply IH. exact Hr.
Qed.

(* ------------------------------------------------------------------------------------------------ *)
(* a loaded configuration holds, for every key of the table, the effective value of that key *)

Lemma sequence_lookup :
  forall (f : entry -> option string) (tbl : list entry) (cfg : assoc),
    sequence (map (fun e => option_map (fun v => (e_key e, v)) (f e)) tbl) = Some cfg ->
    NoDup (map e_key tbl) ->
    forall e, In e tbl -> lookup cfg (e_key e) = f e.
Proof.
  intros f. induction tbl as [|a r IH]; intros cfg Hseq Hnd e Hin.
  - destruct Hin.
  - simpl in Hseq. destruct (f a) as [va|] eqn:Hfa; simpl in Hseq; [|discriminate Hseq].
    destruct (sequence (map (fun e0 => option_map (fun v => (e_key e0, v)) (f e0)) r)) as [cr|] eqn:Hr;
      [|discriminate Hseq].
    inversion Hseq as [Hcfg]. clear Hseq. simpl in Hnd. inversion Hnd as [|x l Hnotin Hnd']. subst x l.
    destruct Hin as [Hea | Her].
    + subst e. simpl. rewrite String.eqb_refl. symmetry. exact Hfa.
    + simpl. destruct (String.eqb (e_key a) (e_key e)) eqn:Heq.
      * apply String.eqb_eq in Heq. exfalso. apply Hnotin. rewrite Heq. apply in_map. exact Her.
      * apply (IH cr eq_refl Hnd' e Her).
Qed.

Lemma load_with_sequence :
  forall envf tbl penv filel cfg,
    load_with envf tbl penv filel = Some cfg ->
    sequence (map (fun e => option_map (fun v => (e_key e, v)) (effective envf penv filel e)) tbl) = Some cfg.
Proof.
  intros envf tbl penv filel cfg Hl. unfold load_with in Hl.
  destruct (sequence (map (fun e => option_map (fun v => (e_key e, v)) (effective envf penv filel e)) tbl)) as [c|];
    [|discriminate Hl].
  destruct (lookup c "logging.level") as [l|].
  - destruct (valid_level l); [exact Hl | discriminate Hl].
  - exact Hl.
Qed.

Theorem load_value :
  forall envf tbl penv filel cfg e,
    NoDup (map e_key tbl) -> In e tbl ->
    load_with envf tbl penv filel = Some cfg ->
    lookup cfg (e_key e) = effective envf penv filel e.
Proof.
  intros envf tbl penv filel cfg e Hnd Hin Hl.
  apply (sequence_lookup (effective envf penv filel) tbl cfg (load_with_sequence _ _ _ _ _ Hl) Hnd e Hin).
Qed.

(* resolve is POINTWISE: the value of k depends on nothing but env k, file k and dflt k *)
Theorem resolve_pointwise :
  forall (K V : Type) (env1 env2 file1 file2 : K -> option V) (d1 d2 : K -> V) (k : K),
    env1 k = env2 k -> file1 k = file2 k -> d1 k = d2 k ->
    resolve env1 file1 d1 k = resolve env2 file2 d2 k.
Proof.
  intros K V env1 env2 file1 file2 d1 d2 k He Hf Hd. unfold resolve. rewrite He, Hf, Hd. reflexivity.
Qed.

(* ... and so is a loaded configuration: two start-ups that both succeed and agree on the variable of a key
   and on the file's entry for it hold the same value for that key, however much they differ on every OTHER
   key (log level, format, engine, switches, ...).  The only cross-key effect in the model is that Load fails
   as a whole for a log level zerolog does not know. *)
Theorem load_pointwise :
  forall envf tbl penv1 filel1 penv2 filel2 cfg1 cfg2 e,
    NoDup (map e_key tbl) -> In e tbl ->
    load_with envf tbl penv1 filel1 = Some cfg1 ->
    load_with envf tbl penv2 filel2 = Some cfg2 ->
    envf penv1 (e_key e) = envf penv2 (e_key e) ->
    lookup filel1 (e_key e) = lookup filel2 (e_key e) ->
    lookup cfg1 (e_key e) = lookup cfg2 (e_key e).
Proof.
  intros envf tbl penv1 filel1 penv2 filel2 cfg1 cfg2 e Hnd Hin Hl1 Hl2 He Hf.
  rewrite (load_value envf tbl penv1 filel1 cfg1 e Hnd Hin Hl1).
  rewrite (load_value envf tbl penv2 filel2 cfg2 e Hnd Hin Hl2).
  unfold effective. apply resolve_pointwise.
  - rewrite He. reflexivity.
  - rewrite Hf. reflexivity.
  - reflexivity.
Qed.

Example load_pointwise_example :
  forall cfg1 cfg2,
    load_model [("http.auth_token", "string", "tok"); ("logging.level", "string", "debug")]
               [("BHS_LOGGING_LEVEL", "trace")] [("http.auth_token", "s3cret")] = Some cfg1 ->
    load_model [("http.auth_token", "string", "tok"); ("logging.level", "string", "debug")]
               [] [("http.auth_token", "s3cret"); ("logging.level", "disabled")] = Some cfg2 ->
    lookup cfg1 "http.auth_token" = Some "s3cret" /\ lookup cfg2 "http.auth_token" = Some "s3cret".
Proof.
  intros cfg1 cfg2 H1 H2. vm_compute in H1, H2. inversion H1. inversion H2. split; reflexivity.
Qed.

(* precedence for the loaded value of a key, for either reading of "the variable is set" *)
Theorem load_precedence :
  forall envf tbl penv filel cfg e,
    NoDup (map e_key tbl) -> In e tbl ->
    load_with envf tbl penv filel = Some cfg ->
    (forall r, envf penv (e_key e) = Some r -> lookup cfg (e_key e) = canon (e_type e) r)
    /\ (forall r, envf penv (e_key e) = None -> lookup filel (e_key e) = Some r ->
                  lookup cfg (e_key e) = canon (e_type e) r)
    /\ (envf penv (e_key e) = None -> lookup filel (e_key e) = None ->
        lookup cfg (e_key e) = Some (e_default e)).
Proof.
  intros envf tbl penv filel cfg e Hnd Hin Hl.
  rewrite (load_value envf tbl penv filel cfg e Hnd Hin Hl). unfold effective.
  destruct (resolve_precedence string (option string)
              (fun k => option_map (canon (e_type e)) (envf penv k))
              (fun k => option_map (canon (e_type e)) (lookup filel k))
              (fun _ => Some (e_default e)) (e_key e)) as [Henv [Hfile Hdef]].
  repeat split.
  - intros r Hr. apply Henv. rewrite Hr. reflexivity.
  - intros r Hr Hf. apply Hfile.
    + rewrite Hr. reflexivity.
    + rewrite Hf. reflexivity.
  - intros Hr Hf. apply Hdef.
    + rewrite Hr. reflexivity.
    + rewrite Hf. reflexivity.
Qed.

(* (history, the code before 1a867b2) what the OLD code saw of the file: an entry was visible iff no section
   variable shadowed its key *)
Lemma lookup_visible :
  forall penv filel k,
    lookup (visible_file penv filel) k = if shadowed penv k then None else lookup filel k.
Proof.
  intros penv filel k. unfold visible_file. induction filel as [|[k' v'] r IH]; simpl.
  - destruct (shadowed penv k); reflexivity.
  - destruct (String.eqb k' k) eqn:Heq.
    + apply String.eqb_eq in Heq. subst k'. destruct (shadowed penv k) eqn:Hs; simpl.
      * rewrite IH. reflexivity.
      * rewrite String.eqb_refl. reflexivity.
    + destruct (shadowed penv k') eqn:Hs'; simpl.
      * exact IH.
      * rewrite Heq. exact IH.
Qed.

Lemma visible_file_all :
  forall penv filel, (forall k, In k (map fst filel) -> shadowed penv k = false) -> visible_file penv filel = filel.
Proof.
  intros penv filel Hall. unfold visible_file. induction filel as [|[k v] r IH]; simpl.
  - reflexivity.
  - rewrite (Hall k (or_introl eq_refl)). simpl. rewrite IH; [reflexivity|].
    intros k' Hin. apply Hall. right. exact Hin.
Qed.

(* keys that are not overridden keep their defaults: no variable of that name, no entry in the file *)
Theorem untouched_keys_keep_default :
  forall tbl penv filel cfg e,
    NoDup (map e_key tbl) -> In e tbl ->
    ~ In (env_name (e_key e)) (map fst penv) -> ~ In (e_key e) (map fst filel) ->
    (load_model tbl penv filel = Some cfg -> lookup cfg (e_key e) = Some (e_default e))
    /\ (load_spec tbl penv filel = Some cfg -> lookup cfg (e_key e) = Some (e_default e)).
Proof.
  intros tbl penv filel cfg e Hnd Hin Hne Hnf.
  pose proof (lookup_not_in penv _ Hne) as Hle. pose proof (lookup_not_in filel _ Hnf) as Hlf.
  split; intro Hl.
  - destruct (load_precedence env_of tbl penv filel cfg e Hnd Hin Hl) as [_ [_ Hd]].
    apply Hd; [unfold env_of; rewrite Hle; reflexivity | exact Hlf].
  - destruct (load_precedence (env_of_spec tbl) tbl penv filel cfg e Hnd Hin Hl) as [_ [_ Hd]].
    apply Hd; [unfold env_of_spec; rewrite Hle; reflexivity | exact Hlf].
Qed.

(* ------------------------------------------------------------------------------------------------ *)
(* the code model against the contract: they agree unless a variable is set to the empty string *)

Lemma env_of_eq_spec :
  forall tbl penv, (forall var, ~ In (var, "") penv) -> forall k, env_of penv k = env_of_spec tbl penv k.
Proof.
  intros tbl penv Hne k. unfold env_of, env_of_spec.
  destruct (lookup penv (env_name k)) as [v|] eqn:Hl; [|reflexivity].
  destruct v as [|c r]; [|reflexivity].
  exfalso. apply (Hne (env_name k)). apply lookup_In. exact Hl.
Qed.

Theorem load_model_meets_contract :
  forall tbl penv filel, (forall var, ~ In (var, "") penv) -> load_model tbl penv filel = load_spec tbl penv filel.
Proof.
  intros tbl penv filel Hne. unfold load_model, load_spec, load_with.
  assert (Hm : map (fun e => option_map (fun v => (e_key e, v)) (effective env_of penv filel e)) tbl
               = map (fun e => option_map (fun v => (e_key e, v)) (effective (env_of_spec tbl) penv filel e)) tbl).
  { apply map_ext. intro e. unfold effective, resolve. rewrite (env_of_eq_spec tbl penv Hne). reflexivity. }
  rewrite Hm. reflexivity.
Qed.

(* blank variables.  The type the contract looks up for a key of the table is that key's type. *)
Lemma type_of_In :
  forall tbl e, NoDup (map e_key tbl) -> In e tbl -> type_of tbl (e_key e) = e_type e.
Proof.
  intros tbl e. unfold type_of. induction tbl as [|a r IH]; intros Hnd Hin.
  - destruct Hin.
  - simpl. simpl in Hnd. inversion Hnd as [|x l Hnotin Hnd']. subst x l.
    destruct Hin as [Hea | Her].
    + subst a. rewrite String.eqb_refl. reflexivity.
    + destruct (String.eqb (e_key a) (e_key e)) eqn:Heq.
      * apply String.eqb_eq in Heq. exfalso. apply Hnotin. rewrite Heq. apply in_map. exact Her.
      * apply IH; assumption.
Qed.

(* a blank variable of a bool / int / uint16 / duration key provides no value, for the code and for the
   contract alike: the file's entry or the default is the effective value *)
Theorem blank_variable_non_string :
  forall tbl penv filel cfg e,
    NoDup (map e_key tbl) -> In e tbl -> stringy (e_type e) = false ->
    lookup penv (env_name (e_key e)) = Some "" ->
    (load_model tbl penv filel = Some cfg \/ load_spec tbl penv filel = Some cfg) ->
    (forall r, lookup filel (e_key e) = Some r -> lookup cfg (e_key e) = canon (e_type e) r)
    /\ (lookup filel (e_key e) = None -> lookup cfg (e_key e) = Some (e_default e)).
Proof.
  intros tbl penv filel cfg e Hnd Hin Hty Hblank [Hl | Hl].
  - destruct (load_precedence env_of tbl penv filel cfg e Hnd Hin Hl) as [_ [Hf Hd]].
    assert (He : env_of penv (e_key e) = None) by (unfold env_of; rewrite Hblank; reflexivity).
    split; [intros r Hr; apply (Hf r He Hr) | intro Hn; apply (Hd He Hn)].
  - destruct (load_precedence (env_of_spec tbl) tbl penv filel cfg e Hnd Hin Hl) as [_ [Hf Hd]].
    assert (He : env_of_spec tbl penv (e_key e) = None).
    { unfold env_of_spec. rewrite Hblank. rewrite (type_of_In tbl e Hnd Hin). rewrite Hty. reflexivity. }
    split; [intros r Hr; apply (Hf r He Hr) | intro Hn; apply (Hd He Hn)].
Qed.

(* HISTORY - the code before 1a867b2: with a non-empty variable named like a section above the key and the key's
   own variable unset, the old code kept the DEFAULT whatever the file said *)
Theorem section_variable_shadowed_file_old :
  forall tbl penv filel cfg e,
    NoDup (map e_key tbl) -> In e tbl ->
    shadowed penv (e_key e) = true -> env_of penv (e_key e) = None ->
    load_model_old tbl penv filel = Some cfg -> lookup cfg (e_key e) = Some (e_default e).
Proof.
  intros tbl penv filel cfg e Hnd Hin Hsh He Hl.
  destruct (load_precedence env_of tbl penv (visible_file penv filel) cfg e Hnd Hin Hl) as [_ [_ Hd]].
  apply Hd; [exact He|]. rewrite lookup_visible. rewrite Hsh. reflexivity.
Qed.

(* the repaired code: whatever variables are named like sections, the code model only consults the key's own
   variable (env_only_own_variable below), so the old model and the new one agree exactly when nothing is shadowed *)
Theorem load_model_old_eq :
  forall tbl penv filel, (forall k, In k (map fst filel) -> shadowed penv k = false) ->
    load_model_old tbl penv filel = load_model tbl penv filel.
Proof.
  intros tbl penv filel Hsh. unfold load_model_old, load_model. rewrite (visible_file_all penv filel Hsh). reflexivity.
Qed.

(* a variable that is not the variable of the key (blank or not, named like a section or like nothing) does
   not reach the key: only lookup penv (env_name k) enters *)
Theorem env_only_own_variable :
  forall tbl penv1 penv2 k,
    lookup penv1 (env_name k) = lookup penv2 (env_name k) ->
    env_of penv1 k = env_of penv2 k /\ env_of_spec tbl penv1 k = env_of_spec tbl penv2 k.
Proof.
  intros tbl penv1 penv2 k Heq. unfold env_of, env_of_spec. rewrite Heq. split; reflexivity.
Qed.

(* WHY Load refuses: exactly the two reasons of load_refusal *)
Lemma sequence_none :
  forall (A : Type) (l : list (option A)), sequence l = None <-> In None l.
Proof.
  intros A l. induction l as [|a r IH]; simpl.
  - split; [intro Hf; discriminate Hf | intro Hf; destruct Hf].
  - destruct a as [x|].
    + destruct (sequence r) as [r'|].
      * split; [intro Hf; discriminate Hf|].
        intros [Hf | Hin]; [discriminate Hf|]. apply IH in Hin. discriminate Hin.
      * split; [intros _; right; apply IH; reflexivity | reflexivity].
    + split; [intros _; left; reflexivity | reflexivity].
Qed.

Theorem load_refuses_iff :
  forall envf tbl penv filel,
    (load_with envf tbl penv filel = None <-> load_refusal envf tbl penv filel <> None)
    /\ (load_refusal envf tbl penv filel = Some IllTypedValue
        <-> exists e, In e tbl /\ effective envf penv filel e = None)
    /\ (load_refusal envf tbl penv filel = Some BadLogLevel
        <-> exists cfg l,
              sequence (map (fun e => option_map (fun v => (e_key e, v)) (effective envf penv filel e)) tbl) = Some cfg
              /\ lookup cfg "logging.level" = Some l /\ valid_level l = false).
Proof.
  intros envf tbl penv filel. unfold load_with, load_refusal.
  destruct (sequence (map (fun e => option_map (fun v => (e_key e, v)) (effective envf penv filel e)) tbl))
    as [cfg|] eqn:Hseq.
  - destruct (lookup cfg "logging.level") as [l|] eqn:Hl.
    + destruct (valid_level l) eqn:Hv.
      * split; [split; [intro Hf; discriminate Hf | intro Hf; exfalso; apply Hf; reflexivity]|].
        split; [split; [intro Hf; discriminate Hf|]|split; [intro Hf; discriminate Hf|]].
        -- intros [e [Hin He]]. exfalso.
           assert (Hnone : In None (map (fun e0 => option_map (fun v => (e_key e0, v)) (effective envf penv filel e0)) tbl)).
           { apply in_map_iff. exists e. split; [rewrite He; reflexivity | exact Hin]. }
           apply sequence_none in Hnone. rewrite Hnone in Hseq. discriminate Hseq.
        -- intros [c' [l' [Hc [Hl' Hv']]]]. inversion Hc. subst c'. rewrite Hl in Hl'. inversion Hl'. subst l'.
           rewrite Hv in Hv'. discriminate Hv'.
      * split; [split; [intros _ Hf; discriminate Hf | reflexivity]|].
        split; [split; [intro Hf; discriminate Hf|]|split; [|reflexivity]].
        -- intros [e [Hin He]]. exfalso.
           assert (Hnone : In None (map (fun e0 => option_map (fun v => (e_key e0, v)) (effective envf penv filel e0)) tbl)).
           { apply in_map_iff. exists e. split; [rewrite He; reflexivity | exact Hin]. }
           apply sequence_none in Hnone. rewrite Hnone in Hseq. discriminate Hseq.
        -- intros _. exists cfg, l. repeat split; assumption.
    + split; [split; [intro Hf; discriminate Hf | intro Hf; exfalso; apply Hf; reflexivity]|].
      split; [split; [intro Hf; discriminate Hf|]|split; [intro Hf; discriminate Hf|]].
      * intros [e [Hin He]]. exfalso.
        assert (Hnone : In None (map (fun e0 => option_map (fun v => (e_key e0, v)) (effective envf penv filel e0)) tbl)).
        { apply in_map_iff. exists e. split; [rewrite He; reflexivity | exact Hin]. }
        apply sequence_none in Hnone. rewrite Hnone in Hseq. discriminate Hseq.
      * intros [c' [l' [Hc [Hl' Hv']]]]. inversion Hc. subst c'. rewrite Hl in Hl'. discriminate Hl'.
  - split; [split; [intros _ Hf; discriminate Hf | reflexivity]|].
    split; [split; [|reflexivity]|split; [intro Hf; discriminate Hf|]].
    + intros _. apply sequence_none in Hseq. apply in_map_iff in Hseq. destruct Hseq as [e [He Hin]].
      exists e. split; [exact Hin|]. destruct (effective envf penv filel e); [discriminate He | reflexivity].
    + intros [c' [l' [Hc _]]]. discriminate Hc.
Qed.

Example load_refuses_example :
  load_refusal env_of [("logging.level", "string", "debug"); ("logging.format", "string", "console")]
               [("BHS_LOGGING_LEVEL", "verbose")] [("logging.format", "json")] = Some BadLogLevel
  /\ load_refusal env_of [("logging.level", "string", "debug"); ("http.port", "int", "8080")]
                  [("BHS_HTTP_PORT", "abc")] [] = Some IllTypedValue
  /\ load_refusal env_of [("logging.level", "string", "debug"); ("http.port", "int", "8080")]
                  [("BHS_HTTP_PORT", ""); ("BHS_HTTP", "")] [("logging.level", "WARN")] = None.
Proof. vm_compute. repeat split; reflexivity. Qed.

(* ------------------------------------------------------------------------------------------------ *)
(* which file is read: exactly the selected one (the model has no other file to read) *)

Theorem selected_file_is_read :
  forall envf tbl penv ext filel,
    (In ext viper_exts ->
     load_sel_with envf tbl penv (Some (false, ext, filel)) = load_with envf tbl penv filel)
    /\ (~ In ext viper_exts -> load_sel_with envf tbl penv (Some (false, ext, filel)) = None)
    /\ load_sel_with envf tbl penv (Some (true, "yaml", filel)) = load_with envf tbl penv filel
    /\ (ext <> "yaml" -> load_sel_with envf tbl penv (Some (true, ext, filel)) = load_with envf tbl penv [])
    /\ load_sel_with envf tbl penv None = load_with envf tbl penv [].
Proof.
  intros envf tbl penv ext filel. unfold load_sel_with, read_file. repeat split.
  - intro Hin. apply existsb_eqb_In in Hin. rewrite Hin. reflexivity.
  - intro Hn. destruct (existsb (String.eqb ext) viper_exts) eqn:He; [|reflexivity].
    exfalso. apply Hn. apply existsb_eqb_In. exact He.
  - intro Hne. apply String.eqb_neq in Hne. rewrite Hne. reflexivity.
Qed.

(* a file selected with the option shadows ./config.yaml completely; without the option ./config.yaml is read *)
Theorem selected_file_shadows_default :
  forall envf tbl penv ext filel d1 d2,
    load_files_with envf tbl penv (Some (ext, filel)) d1 = load_files_with envf tbl penv (Some (ext, filel)) d2
    /\ (In ext viper_exts -> load_files_with envf tbl penv (Some (ext, filel)) d1 = load_with envf tbl penv filel)
    /\ load_files_with envf tbl penv None (Some filel) = load_with envf tbl penv filel
    /\ load_files_with envf tbl penv None None = load_with envf tbl penv [].
Proof.
  intros envf tbl penv ext filel d1 d2. repeat split.
  intro Hin. unfold load_files_with.
  destruct (selected_file_is_read envf tbl penv ext filel) as [Hsel _]. apply Hsel. exact Hin.
Qed.

Example selected_file_shadows_default_example :
  load_files_model [("http.port", "int", "8080"); ("http.read_timeout", "int", "10")] []
                   (Some ("yaml", [("http.port", "9001")]))
                   (Some [("http.port", "9002"); ("http.read_timeout", "55")])
  = Some [("http.port", "9001"); ("http.read_timeout", "10")]
  /\ load_files_model [("http.port", "int", "8080"); ("http.read_timeout", "int", "10")] []
                      None (Some [("http.port", "9002"); ("http.read_timeout", "55")])
     = Some [("http.port", "9002"); ("http.read_timeout", "55")].
Proof. vm_compute. split; reflexivity. Qed.

Example selected_file_is_read_example :
  load_sel_model [("http.port", "int", "8080")] [] (Some (false, "yml", [("http.port", "9001")]))
  = Some [("http.port", "9001")]
  /\ load_sel_model [("http.port", "int", "8080")] [] (Some (false, "", [("http.port", "9001")])) = None
  /\ load_sel_model [("http.port", "int", "8080")] [] (Some (true, "yml", [("http.port", "9001")]))
     = Some [("http.port", "8080")].
Proof. vm_compute. repeat split; reflexivity. Qed.

(* ------------------------------------------------------------------------------------------------ *)
(* DbConfig.Validate *)

Lemma is_empty_true : forall s, is_empty s = true <-> s = "".
Proof. intro s. unfold is_empty. apply String.eqb_eq. Qed.

Lemma is_empty_false : forall s, is_empty s = false <-> s <> "".
Proof. intro s. unfold is_empty. apply String.eqb_neq. Qed.

Lemma negb_eqb_str : forall s t, negb (String.eqb s t) = true <-> s <> t.
Proof. intros s t. rewrite negb_true_iff. apply String.eqb_neq. Qed.

Lemma db_okb_iff : forall c st, db_okb c st = true <-> db_ok c st.
Proof.
  intros [e sp h p u d pr pp] st. unfold db_okb, db_ok, engine_ok, prepared_ok, is_empty. simpl.
  assert (HA : String.eqb e "sqlite" && negb (String.eqb sp "") = true <-> e = "sqlite" /\ sp <> "").
  { rewrite andb_true_iff, negb_eqb_str, String.eqb_eq. reflexivity. }
  assert (HB : String.eqb e "postgres" && negb (String.eqb h "") && negb (N.eqb p 0)
               && negb (String.eqb u "") && negb (String.eqb d "") = true
               <-> e = "postgres" /\ h <> "" /\ p <> 0%N /\ u <> "" /\ d <> "").
  { rewrite !andb_true_iff, !negb_eqb_str, String.eqb_eq, negb_true_iff, N.eqb_neq. tauto. }
  assert (HP : negb pr || (negb (String.eqb pp "") && stat_found st) = true
               <-> (pr = true -> pp <> "" /\ st = Found)).
  { destruct pr; simpl.
    - rewrite andb_true_iff, negb_eqb_str. split.
      + intros [H1 H2] _. split; [exact H1|]. destruct st; try discriminate H2; reflexivity.
      + intro H. destruct (H eq_refl) as [H1 H2]. subst st. split; [exact H1 | reflexivity].
    - split; [intros _ Hf; discriminate Hf | reflexivity]. }
  split.
  - intro Hb. apply andb_prop in Hb. destruct Hb as [Heng Hprep]. split.
    + apply orb_prop in Heng. destruct Heng as [Hs | Hpg].
      * left. apply HA. exact Hs.
      * right. apply HB. exact Hpg.
    + apply HP. exact Hprep.
  - intros [Heng Hprep]. apply andb_true_intro. split.
    + apply orb_true_intro. destruct Heng as [Hs | Hpg].
      * left. apply HA. exact Hs.
      * right. apply HB. exact Hpg.
    + apply HP. exact Hprep.
Qed.

Theorem db_validate_nil : forall st, db_validate None st = RejNil.
Proof. intro st. reflexivity. Qed.

Theorem db_validate_nil_refused : forall st, db_validate None st <> Accept.
Proof. intros st Hacc. discriminate Hacc. Qed.

(* every valid section is accepted, whatever os.Stat answers *)
Theorem db_validate_complete : forall c st, db_ok c st -> db_validate (Some c) st = Accept.
Proof.
  intros c st Hok. apply db_okb_iff in Hok. revert Hok.
  destruct c as [e sp h p u d pr pp]. unfold db_okb, db_validate, is_empty. simpl.
  destruct (String.eqb_spec e "sqlite") as [H1|H1]; destruct (String.eqb_spec e "postgres") as [H2|H2];
    [exfalso; rewrite H1 in H2; discriminate H2 | | | ];
    destruct (String.eqb sp ""); destruct (String.eqb h ""); destruct (N.eqb p 0); destruct (String.eqb u ""); destruct (String.eqb d "");
    destruct pr; destruct (String.eqb pp ""); destruct st; simpl; intro Hf; try discriminate Hf; reflexivity.
Qed.

(* every accepted section is valid, whatever os.Stat answers *)
Theorem db_validate_sound :
  forall c st, db_validate (Some c) st = Accept -> db_ok c st.
Proof.
  intros c st Hacc. apply db_okb_iff. revert Hacc.
  destruct c as [e sp h p u d pr pp]. unfold db_okb, db_validate, is_empty. simpl.
  destruct (String.eqb_spec e "sqlite") as [H1|H1]; destruct (String.eqb_spec e "postgres") as [H2|H2];
    [exfalso; rewrite H1 in H2; discriminate H2 | | | ];
    destruct (String.eqb sp ""); destruct (String.eqb h ""); destruct (N.eqb p 0); destruct (String.eqb u ""); destruct (String.eqb d "");
    destruct pr; destruct (String.eqb pp ""); destruct st; simpl; intro Hf; try discriminate Hf;
    reflexivity.
Qed.

Theorem db_validate_iff :
  forall c st, db_validate (Some c) st = Accept <-> db_ok c st.
Proof.
  intros c st. split.
  - apply db_validate_sound.
  - apply db_validate_complete.
Qed.

(* the hypotheses are satisfiable both ways: an accepted postgres section with an existing prepared file,
   and a refused one whose file is missing *)
Example db_validate_iff_example :
  let c := mk_dbcfg "postgres" "" "localhost" 5432 "user" "bhs" true "./data/blockheaders.csv.gz" in
  db_validate (Some c) Found = Accept /\ db_ok c Found
  /\ db_validate (Some c) NotExist = RejPreparedMissing /\ ~ db_ok c NotExist
  /\ db_validate (Some c) StatError = RejPreparedMissing /\ ~ db_ok c StatError.
Proof.
  simpl. split; [reflexivity|]. split; [apply db_okb_iff; reflexivity|]. split; [reflexivity|].
  split; [intro Hok; apply db_okb_iff in Hok; discriminate Hok|]. split; [reflexivity|].
  intro Hok. apply db_okb_iff in Hok. discriminate Hok.
Qed.

(* the order of the checks: prepared-database checks come before the engine switch *)
Theorem db_validate_order :
  forall c st,
    (prepared c = true -> prepared_path c = "" -> db_validate (Some c) st = RejPreparedPathEmpty)
    /\ (prepared c = true -> prepared_path c <> "" -> st <> Found -> db_validate (Some c) st = RejPreparedMissing)
    /\ ((prepared c = false \/ (prepared_path c <> "" /\ st = Found)) ->
        db_validate (Some c) st =
        if String.eqb (engine c) "sqlite" then (if is_empty (sqlite_path c) then RejSqliteEmpty else Accept)
        else if String.eqb (engine c) "postgres" then
          (if is_empty (pg_host c) || N.eqb (pg_port c) 0 || is_empty (pg_user c) || is_empty (pg_db c)
           then RejPostgresIncomplete else Accept)
        else RejUnsupported).
Proof.
  intros [e sp h p u d pr pp] st. unfold db_validate. simpl. repeat split.
  - intros Hpr Hpp. subst. reflexivity.
  - intros Hpr Hpp Hst. subst pr. apply is_empty_false in Hpp. rewrite Hpp.
    destruct st; [exfalso; apply Hst; reflexivity | reflexivity | reflexivity].
  - intros [Hpr | [Hpp Hst]].
    + subst. reflexivity.
    + apply is_empty_false in Hpp. rewrite Hpp. subst st. simpl. rewrite !andb_false_r. reflexivity.
Qed.

(* the verdict depends on the file system only at the prepared-database path *)
Theorem db_validate_fs_local :
  forall c fs1 fs2, fs1 (prepared_path c) = fs2 (prepared_path c) ->
    db_validate_fs (Some c) fs1 = db_validate_fs (Some c) fs2.
Proof. intros c fs1 fs2 Heq. unfold db_validate_fs. rewrite Heq. reflexivity. Qed.

Theorem db_validate_fs_iff :
  forall c fs, db_validate_fs (Some c) fs = Accept <-> db_ok c (fs (prepared_path c)).
Proof. intros c fs. unfold db_validate_fs. apply db_validate_iff. Qed.

(* ... in particular not on what exists at db.sqlite.file_path: nothing, an empty file, a directory, a
   database full of headers - the verdict is the same *)
Theorem db_validate_ignores_sqlite_path :
  forall c fs st, sqlite_path c <> prepared_path c ->
    db_validate_fs (Some c) (fs_override fs (sqlite_path c) st) = db_validate_fs (Some c) fs.
Proof.
  intros c fs st Hne. apply db_validate_fs_local. unfold fs_override.
  destruct (String.eqb_spec (prepared_path c) (sqlite_path c)) as [Heq|Hneq].
  - exfalso. apply Hne. symmetry. exact Heq.
  - reflexivity.
Qed.

Example db_validate_ignores_sqlite_path_example :
  let c := mk_dbcfg "sqlite" "./data/blockheaders.db" "" 0 "" "" true "./data/blockheaders.csv.gz" in
  let fs0 := fun _ : string => NotExist in
  db_validate_fs (Some c) fs0 = RejPreparedMissing
  /\ db_validate_fs (Some c) (fs_override fs0 "./data/blockheaders.db" Found) = RejPreparedMissing
  /\ db_validate_fs (Some c) (fs_override fs0 "./data/blockheaders.csv.gz" Found) = Accept.
Proof. vm_compute. repeat split; reflexivity. Qed.

(* ------------------------------------------------------------------------------------------------ *)
(* variable names *)

Lemma env_char_of_key_char :
  forall c, is_key_char c = true ->
    is_env_char (upper_ascii (if Ascii.eqb c "."%char then "_"%char else c)) = true.
Proof.
  intros [[] [] [] [] [] [] [] []]; vm_compute; intro Hc; try reflexivity; discriminate Hc.
Qed.

Lemma forallb_string_append :
  forall p a b, forallb_string p (a ++ b) = forallb_string p a && forallb_string p b.
Proof.
  intros p a b. induction a as [|c r IH]; simpl.
  - reflexivity.
  - rewrite IH. apply andb_assoc.
Qed.

Lemma env_chars_of_key :
  forall k, forallb_string is_key_char k = true ->
    forallb_string is_env_char (upper (replace_char "."%char "_"%char k)) = true.
Proof.
  induction k as [|c r IH]; simpl; intro Hk.
  - reflexivity.
  - apply andb_prop in Hk. destruct Hk as [Hc Hr].
    rewrite (env_char_of_key_char c Hc). simpl. apply IH. exact Hr.
Qed.

Lemma map_string_length : forall f s, String.length (map_string f s) = String.length s.
Proof. intros f s. induction s as [|c r IH]; simpl; [reflexivity | rewrite IH; reflexivity]. Qed.

(* for EVERY key written over [a-z0-9_.] (not only those of today's table) the variable name is BHS_
   followed by the key in upper case with "." replaced by "_", and is well formed *)
Theorem env_name_well_formed :
  forall k, k <> "" -> forallb_string is_key_char k = true -> wf_env_name (env_name k) = true.
Proof.
  intros k Hne Hk. unfold wf_env_name, env_name.
  apply andb_true_intro. split; [apply andb_true_intro; split|].
  - simpl. destruct (upper (replace_char "."%char "_"%char k)); reflexivity.
  - destruct k as [|c r]; [exfalso; apply Hne; reflexivity|].
    apply N.ltb_lt. simpl String.length. unfold upper, replace_char. rewrite !map_string_length.
    lia.
  - rewrite forallb_string_append. rewrite (env_chars_of_key k Hk). reflexivity.
Qed.

Example env_name_example : env_name "db.sqlite.file_path" = "BHS_DB_SQLITE_FILE_PATH".
Proof. reflexivity. Qed.

(* env_name is NOT injective on such keys ("." and "_" meet), which is why the pairwise distinctness of the
   variable names is an obligation over the table and not a theorem about env_name *)
Example env_name_not_injective : env_name "a.b_c" = env_name "a_b.c" /\ "a.b_c" <> "a_b.c".
Proof. split; [reflexivity | discriminate]. Qed.

(* ------------------------------------------------------------------------------------------------ *)
(* obligations over a key table *)

Lemma table_ok_parts :
  forall tbl, table_ok tbl = true ->
    tbl <> []
    /\ (forall e, In e tbl -> entry_ok e = true)
    /\ NoDup (map e_key tbl)
    /\ NoDup (map (fun e => env_name (e_key e)) tbl).
Proof.
  intros tbl Hok. unfold table_ok in Hok.
  apply andb_prop in Hok. destruct Hok as [Hok Henv].
  apply andb_prop in Hok. destruct Hok as [Hok Hkeys].
  apply andb_prop in Hok. destruct Hok as [Hne Hall].
  repeat split.
  - intro He. subst tbl. discriminate Hne.
  - apply forallb_forall. exact Hall.
  - apply distinctb_NoDup. exact Hkeys.
  - apply distinctb_NoDup. exact Henv.
Qed.

Lemma entry_ok_parts :
  forall e, entry_ok e = true ->
    e_key e <> "" /\ forallb_string is_key_char (e_key e) = true /\ known_type (e_type e) = true
    /\ canon (e_type e) (e_default e) = Some (e_default e)
    /\ wf_env_name (env_name (e_key e)) = true
    /\ e_default e <> "<nil>".
Proof.
  intros e Hok. unfold entry_ok in Hok.
  apply andb_prop in Hok. destruct Hok as [Hok Hnil].
  apply andb_prop in Hok. destruct Hok as [Hok Hwf].
  apply andb_prop in Hok. destruct Hok as [Hok Hcanon].
  apply andb_prop in Hok. destruct Hok as [Hok Hty].
  apply andb_prop in Hok. destruct Hok as [Hne Hchars].
  repeat split; try assumption.
  - apply is_empty_false. apply negb_true_iff. exact Hne.
  - destruct (canon (e_type e) (e_default e)) as [d|]; [|discriminate Hcanon].
    apply String.eqb_eq in Hcanon. rewrite Hcanon. reflexivity.
  - apply String.eqb_neq. apply negb_true_iff. exact Hnil.
Qed.

(* --- the regenerated table of this working tree ------------------------------------------------- *)

Lemma config_keys_ok : table_ok config_keys = true.
Proof. vm_compute. reflexivity. Qed.

Theorem config_keys_nonempty : config_keys <> [].
Proof. exact (proj1 (table_ok_parts _ config_keys_ok)). Qed.

(* every key has a default entry (a canonical value of the key's type) and a well-formed variable name *)
Theorem config_keys_entries :
  forall e, In e config_keys ->
    e_key e <> "" /\ forallb_string is_key_char (e_key e) = true /\ known_type (e_type e) = true
    /\ canon (e_type e) (e_default e) = Some (e_default e)
    /\ wf_env_name (env_name (e_key e)) = true
    /\ e_default e <> "<nil>".
Proof.
  intros e Hin. apply entry_ok_parts.
  exact (proj1 (proj2 (table_ok_parts _ config_keys_ok)) e Hin).
Qed.

Theorem config_keys_distinct : NoDup (map e_key config_keys).
Proof. exact (proj1 (proj2 (proj2 (table_ok_parts _ config_keys_ok)))). Qed.

Theorem config_env_names_distinct : NoDup (map (fun e => env_name (e_key e)) config_keys).
Proof. exact (proj2 (proj2 (proj2 (table_ok_parts _ config_keys_ok)))). Qed.

(* one variable reaches exactly one key: setting the variable of key e1 leaves every other key of the
   table at its default (needs the variable names to be pairwise distinct) *)
Lemma env_name_injective_on :
  forall l : list entry, NoDup (map (fun x => env_name (e_key x)) l) ->
    forall a b, In a l -> In b l -> env_name (e_key a) = env_name (e_key b) -> a = b.
Proof.
  induction l as [|x r IH]; intros Hn a b Ha Hb Hab.
  - destruct Ha.
  - simpl in Hn. inversion Hn as [|y l' Hnotin Hn']. subst y l'.
    destruct Ha as [Ha|Ha]; destruct Hb as [Hb|Hb].
    + subst. reflexivity.
    + subst x. exfalso. apply Hnotin. rewrite Hab.
      apply (in_map (fun x => env_name (e_key x))). exact Hb.
    + subst x. exfalso. apply Hnotin. rewrite <- Hab.
      apply (in_map (fun x => env_name (e_key x))). exact Ha.
    + apply (IH Hn' a b Ha Hb Hab).
Qed.

Theorem single_env_override_tbl :
  forall tbl, table_ok tbl = true ->
  forall e1 e v cfg,
    In e1 tbl -> In e tbl -> e_key e <> e_key e1 ->
    load_model tbl [(env_name (e_key e1), v)] [] = Some cfg ->
    lookup cfg (e_key e) = Some (e_default e)
    /\ (v <> "" -> lookup cfg (e_key e1) = canon (e_type e1) v).
Proof.
  intros tbl Hok e1 e v cfg Hin1 Hin Hneq Hl.
  assert (Hl' : load_with env_of tbl [(env_name (e_key e1), v)] [] = Some cfg) by exact Hl.
  destruct (table_ok_parts tbl Hok) as [_ [_ [Hkeys Hnames]]].
  assert (Hdiff : env_name (e_key e) <> env_name (e_key e1)).
  { intro Heq. apply Hneq. rewrite (env_name_injective_on tbl Hnames e e1 Hin Hin1 Heq). reflexivity. }
  split.
  - destruct (untouched_keys_keep_default tbl [(env_name (e_key e1), v)] [] cfg e Hkeys Hin) as [Hm _].
    + simpl. intros [Heq | Hf]; [apply Hdiff; symmetry; exact Heq | exact Hf].
    + simpl. intro Hf. exact Hf.
    + apply Hm. exact Hl.
  - intro Hv.
    destruct (load_precedence env_of tbl [(env_name (e_key e1), v)] [] cfg e1 Hkeys Hin1 Hl') as [He _].
    apply He. unfold env_of. simpl. rewrite String.eqb_refl.
    destruct v as [|c r]; [exfalso; apply Hv; reflexivity | reflexivity].
Qed.

Theorem single_env_override :
  forall e1 e v cfg,
    In e1 config_keys -> In e config_keys -> e_key e <> e_key e1 ->
    load_model config_keys [(env_name (e_key e1), v)] [] = Some cfg ->
    lookup cfg (e_key e) = Some (e_default e)
    /\ (v <> "" -> lookup cfg (e_key e1) = canon (e_type e1) v).
Proof. exact (single_env_override_tbl config_keys config_keys_ok). Qed.

(* a small fixed table for the examples (the regenerated one may change) *)
Definition example_keys : list entry :=
  [("http.port", "int", "8080"); ("http.auth_token", "string", "mQZQ6WmxURxWz5ch");
   ("db.postgres.port", "uint16", "5432"); ("p2p.ban_duration", "duration", "24h0m0s");
   ("logging.level", "string", "debug")].

Example example_keys_ok : table_ok example_keys = true.
Proof. vm_compute. reflexivity. Qed.

(* the hypotheses of single_env_override are satisfiable: BHS_HTTP_PORT=9999 changes http.port only *)
Example single_env_override_example :
  exists cfg, load_model example_keys [("BHS_HTTP_PORT", "9999")] [] = Some cfg
              /\ lookup cfg "http.port" = Some "9999"
              /\ lookup cfg "db.postgres.port" = Some "5432".
Proof. eexists. vm_compute. repeat split; reflexivity. Qed.

(* environment over file over default on one key, with decoding of the textual values *)
Example load_precedence_example :
  load_model example_keys [("BHS_P2P_BAN_DURATION", "90s")] [("p2p.ban_duration", "1h"); ("http.port", "81")]
  = Some [("http.port", "81"); ("http.auth_token", "mQZQ6WmxURxWz5ch"); ("db.postgres.port", "5432");
          ("p2p.ban_duration", "1m30s"); ("logging.level", "debug")].
Proof. vm_compute. reflexivity. Qed.

(* a variable set to the empty string: the contract says the key becomes empty, the code keeps looking
   (viper AutomaticEnv without AllowEmptyEnv) - here it keeps the well-known default token *)
Theorem env_empty_refuted :
  ~ (forall tbl penv filel, load_model tbl penv filel = load_spec tbl penv filel).
Proof.
  intro Hall. specialize (Hall example_keys [("BHS_HTTP_AUTH_TOKEN", "")] []).
  vm_compute in Hall. discriminate Hall.
Qed.

(* HISTORY (like the old ban rule of C18): the code before 1a867b2 let a variable named like a SECTION hide the
   file's entries of the whole section - for the OLD code model the agreement with the contract was false *)
Theorem section_env_shadows_file_old_refuted :
  ~ (forall tbl penv filel, (forall var, ~ In (var, "") penv) -> load_model_old tbl penv filel = load_spec tbl penv filel).
Proof.
  intro Hall. specialize (Hall example_keys [("BHS_HTTP", "x")] [("http.port", "81")]).
  assert (Hne : forall var, ~ In (var, "") [("BHS_HTTP", "x")]).
  { intros var [Hf | Hf]; [inversion Hf | destruct Hf]. }
  specialize (Hall Hne). vm_compute in Hall. discriminate Hall.
Qed.

(* ... and for the repaired code the same sources agree with the contract *)
Example section_env_no_longer_shadows :
  load_model example_keys [("BHS_HTTP", "x")] [("http.port", "81")]
  = load_spec example_keys [("BHS_HTTP", "x")] [("http.port", "81")].
Proof. vm_compute. reflexivity. Qed.

Example section_prefixes_example :
  section_prefixes "db.postgres.host" "" = ["db"; "db.postgres"]
  /\ shadowed [("BHS_DB_POSTGRES", "x")] "db.postgres.host" = true
  /\ shadowed [("BHS_DB_POSTGRES", "")] "db.postgres.host" = false
  /\ shadowed [("BHS_DB_POSTGRES", "x")] "db.engine" = false.
Proof. vm_compute. repeat split; reflexivity. Qed.
