(* Boolean spec oracles of C06 / C07, applied by the drivers to the IMPLEMENTATION's observed outputs.
   Definitions only; SyncC07Proofs / SyncC06Proofs show that the models satisfy them. *)
From Coq Require Import ZArith NArith List Bool.
From BHS Require Import Work Store Chain SyncNode.
Import ListNotations.
Open Scope Z_scope.

(* an observed row of the headers table: id, parent id, state, cumulative work *)
Record orow := { o_id : N; o_prev : N; o_st : hstate; o_cum : Z }.
Definition rows_of (s : store) : list orow := map (fun r => {| o_id := id r; o_prev := prev r; o_st := st r; o_cum := cum r |}) s.

(* C07: no forbidden hash is stored *)
Definition spec_forbidden_absent (f : list N) (rows : list orow) : bool :=
  forallb (fun r => negb (memN (o_id r) f)) rows.
(* C07: a header whose parent is forbidden is an orphan *)
Definition spec_desc_orphan (f : list N) (rows : list orow) : bool :=
  forallb (fun r => if memN (o_prev r) f then st_eqb (o_st r) Orphan else true) rows.
(* C07: ... and so is every header linked to such a header through stored rows, at any depth.  Local form: a row
   whose previous hash is forbidden, or whose parent row is stored and is an ORPHAN, is an ORPHAN.  By induction
   along the links this decides "every descendant at any depth is an ORPHAN" exactly
   (ChainForbidden.desc_orphan_all_inv: accepted on every store satisfying the invariant;
    ChainForbidden.desc_orphan_all_complete: accepted only if every descendant is an ORPHAN). *)
Definition o_by_id (rows : list orow) (i : N) : option orow := find (fun r => N.eqb (o_id r) i) rows.
Definition spec_desc_orphan_all (f : list N) (rows : list orow) : bool :=
  forallb (fun r =>
    if memN (o_prev r) f || match o_by_id rows (o_prev r) with Some p => st_eqb (o_st p) Orphan | None => false end
    then st_eqb (o_st r) Orphan else true) rows.
(* C07: the stop hash of a request made while the next checkpoint is the one at height nh (-1: none left) *)
Definition spec_stop (cps : list cp) (nh : Z) (stop : N) : bool :=
  match find (fun c => fst c =? nh) cps with
  | Some c => N.eqb stop (snd c)
  | None => N.eqb stop 0
  end.
(* C07: after the checkpoint at height h has been matched the next one is the least checkpoint above h (-1: none) *)
Definition spec_advance (cps : list cp) (h : Z) (nh_after : Z) : bool :=
  match least_above cps h with
  | Some c => fst c =? nh_after
  | None => nh_after =? -1
  end.

(* C06: cumulative work of a chain offered by a node (on top of genesis) *)
Definition chain_cum (gw : Z) (C : list src) : Z := fold_left (fun a h => a + calc_work (p_bits (s_pl h))) C gw.
Definition best_offer (gw : Z) (offers : list (list src)) : Z := fold_right (fun C m => Z.max (chain_cum gw C) m) gw offers.
(* every header of every offered chain of greatest work is stored (unless the store already had more work), and the
   reported tip is a LONGEST_CHAIN row carrying at least the greatest cumulative work on offer
   (own = cumulative work of the tip the store started with) *)
Definition spec_converged (gw own : Z) (offers : list (list src)) (rows : list orow) (tip : N) : bool :=
  let best := Z.max own (best_offer gw offers) in
  forallb (fun C => if best <=? chain_cum gw C
                    then forallb (fun h => existsb (fun r => N.eqb (o_id r) (s_id h)) rows) C
                    else true) offers &&
  match find (fun r => N.eqb (o_id r) tip) rows with
  | Some t => st_eqb (o_st t) Longest && (best <=? o_cum t)
  | None => false
  end.
