(* C14 proofs, part 5: encoded lengths.  A well-formed message never exceeds the MaxPayloadLength of
   its type, hence WriteMessage does not refuse it (write_ok) and frame_roundtrip applies to it. *)
From Coq Require Import NArith ZArith List Bool Lia ZifyBool ZifyN ZifyNat.
From BHS Require Import Sha256 WireBase WireBaseProofs WireMsg WireMsgProofs WireFrame WireSpec WireSpecProofs WireFrameProofs.
Import ListNotations.
Open Scope N_scope.

Lemma enc_varint_length : forall v, (1 <= length (enc_varint v) <= 9)%nat.
Proof.
  intros v. unfold enc_varint.
  destruct (v <? 253); [simpl; lia|].
  destruct (v <=? 65535); [cbn [length]; rewrite le_enc_length; lia|].
  destruct (v <=? 4294967295); cbn [length]; rewrite le_enc_length; lia.
Qed.

Lemma enc_varint_length_small : forall v, v <= 65535 -> (length (enc_varint v) <= 3)%nat.
Proof.
  intros v Hv. unfold enc_varint.
  destruct (v <? 253); [simpl; lia|].
  destruct (N.leb_spec v 65535); [cbn [length]; rewrite le_enc_length; lia|lia].
Qed.

Lemma ip_to16_length : forall ip, length (ip_to16 ip) = 16%nat.
Proof.
  intros ip. unfold ip_to16.
  destruct (Nat.eqb_spec (length ip) 4) as [H4|H4]; [rewrite app_length, H4; reflexivity|].
  destruct (Nat.eqb_spec (length ip) 16) as [H16|H16]; [exact H16|]. apply repeat_length.
Qed.

Lemma enc_netaddr_length : forall pver ts na,
  N.of_nat (length (enc_netaddr pver ts na)) = netaddr_size pver ts.
Proof.
  intros pver ts na. unfold enc_netaddr, netaddr_size, be_enc.
  destruct (has_ts pver ts); rewrite !app_length, ?rev_length, !le_enc_length, ip_to16_length; simpl; lia.
Qed.

Lemma flat_map_const_length : forall (A : Type) (f : A -> bytes) (ok : A -> bool) (n : nat) (l : list A),
  (forall a, ok a = true -> length (f a) = n) -> forallb ok l = true ->
  length (flat_map f l) = (n * length l)%nat.
Proof.
  intros A f ok n l Hf. induction l as [|a l IH]; intros Hall; [simpl; lia|].
  simpl in Hall. apply andb_prop in Hall. destruct Hall as [Ha Hl].
  cbn [flat_map length]. rewrite app_length, (Hf a Ha), (IH Hl). lia.
Qed.

Lemma enc_counted_length : forall (A : Type) (f : A -> bytes) (ok : A -> bool) (n : nat) (l : list A),
  (forall a, ok a = true -> length (f a) = n) -> forallb ok l = true ->
  len (enc_counted f l) <= 9 + N.of_nat n * len l.
Proof.
  intros A f ok n l Hf Hall. unfold enc_counted, len. rewrite app_length.
  rewrite (flat_map_const_length A f ok n l Hf Hall).
  pose proof (enc_varint_length (N.of_nat (length l))). lia.
Qed.

Lemma enc_blockheader_length : forall h, wf_blockheader h = true -> length (enc_header_entry h) = 81%nat.
Proof.
  intros h Hwf. unfold wf_blockheader in Hwf.
  repeat (apply andb_prop in Hwf; destruct Hwf as [Hwf ?]).
  unfold enc_header_entry, enc_blockheader. rewrite !app_length, !le_enc_length.
  rewrite (hash_ok_len (bh_prev h)) by assumption. rewrite (hash_ok_len (bh_merkle h)) by assumption.
  reflexivity.
Qed.

Lemma enc_invvect_length : forall iv, wf_invvect iv = true -> length (enc_invvect iv) = 36%nat.
Proof.
  intros iv Hwf. unfold wf_invvect in Hwf. apply andb_prop in Hwf. destruct Hwf as [_ Hh].
  unfold enc_invvect. rewrite app_length, le_enc_length, (hash_ok_len _ Hh). reflexivity.
Qed.

Lemma enc_netaddr_length' : forall pver a, wf_netaddr pver true a = true ->
  length (enc_netaddr pver true a) = N.to_nat (netaddr_size pver true).
Proof. intros pver a _. rewrite <- enc_netaddr_length with (na := a). rewrite Nat2N.id. reflexivity. Qed.

Lemma hash_id_length : forall h : bytes, hash_ok h = true -> length ((fun x : bytes => x) h) = 32%nat.
Proof. intros h Hh. apply hash_ok_len. exact Hh. Qed.

(* the encoded payload of a well-formed message fits the MaxPayloadLength of its type
   (reject excepted: its type limit is the global maximum and wf bounds the two strings separately) *)
Theorem payload_len_le_max : forall pver mmp ebs m,
  wf_msg pver mmp m = true -> kind_of m <> KReject ->
  len (enc_payload pver m) <= max_payload (kind_of m) pver ebs.
Proof.
  intros pver mmp ebs m Hwf Hnr.
  destruct m as [v| | |l|pv locs stop|pv locs stop|l|l|l|l|n|n|cmd code reason hash| |fee| |nf mrl|d| |f h t fl|k];
    cbn [wf_msg] in Hwf; cbn [kind_of enc_payload max_payload]; try discriminate Hwf;
    try (change (len (@nil N)) with 0; apply N.le_0_l).
  - (* version *)
    unfold wf_version in Hwf. repeat (apply andb_prop in Hwf; destruct Hwf as [Hwf ?]).
    match goal with H : (len (v_ua v) <=? MaxUserAgentLen) = true |- _ => apply leb_true in H; rename H into Hua end.
    unfold enc_version, enc_varstring, len in *. rewrite !app_length, !le_enc_length.
    pose proof (enc_netaddr_length pver false (v_you v)) as Hy.
    pose proof (enc_netaddr_length pver false (v_me v)) as Hm.
    unfold netaddr_size, has_ts in Hy, Hm. cbn [andb] in Hy, Hm.
    pose proof (enc_varint_length (N.of_nat (length (v_ua v)))) as Hv.
    unfold max_net_address_payload, MaxVarIntPayload, MaxUserAgentLen in *.
    destruct (BIP0037Version <=? pver); destruct (NetAddressTimeVersion <=? pver); cbn [length]; lia.
  - (* addr *)
    apply andb_prop in Hwf. destruct Hwf as [Hwf Hall].
    apply andb_prop in Hwf. destruct Hwf as [Hmax Hmulti]. apply leb_true in Hmax.
    pose proof (enc_counted_length netaddr (enc_netaddr pver true) (wf_netaddr pver true)
                  (N.to_nat (netaddr_size pver true)) l (enc_netaddr_length' pver) Hall) as Hlen.
    rewrite N2Nat.id in Hlen.
    unfold netaddr_size, has_ts, max_net_address_payload, MaxVarIntPayload, MaxAddrPerMsg, MultipleAddressVersion in *.
    cbn [andb] in *.
    destruct (N.ltb_spec pver 209) as [Hlow|Hhi].
    + apply orb_prop in Hmulti. destruct Hmulti as [Hm|Hm]; apply leb_true in Hm; [lia|].
      destruct (NetAddressTimeVersion <=? pver); nia.
    + destruct (NetAddressTimeVersion <=? pver); nia.
  - (* getblocks *)
    apply andb_prop in Hwf. destruct Hwf as [Hwf Hstop].
    apply andb_prop in Hwf. destruct Hwf as [Hwf Hlocs].
    apply andb_prop in Hwf. destruct Hwf as [Hpv Hmax]. apply leb_true in Hmax.
    pose proof (enc_counted_length bytes (fun h : bytes => h) hash_ok 32 locs hash_id_length Hlocs) as Hlen.
    unfold enc_locator, len in *. rewrite !app_length, le_enc_length, (hash_ok_len _ Hstop).
    unfold MaxVarIntPayload, MaxBlockLocatorsPerMsg, HashSize in *. lia.
  - (* getheaders *)
    apply andb_prop in Hwf. destruct Hwf as [Hwf Hstop].
    apply andb_prop in Hwf. destruct Hwf as [Hwf Hlocs].
    apply andb_prop in Hwf. destruct Hwf as [Hpv Hmax]. apply leb_true in Hmax.
    pose proof (enc_counted_length bytes (fun h : bytes => h) hash_ok 32 locs hash_id_length Hlocs) as Hlen.
    unfold enc_locator, len in *. rewrite !app_length, le_enc_length, (hash_ok_len _ Hstop).
    unfold MaxVarIntPayload, MaxBlockLocatorsPerMsg, HashSize in *. lia.
  - (* headers *)
    apply andb_prop in Hwf. destruct Hwf as [Hmax Hall]. apply leb_true in Hmax.
    pose proof (enc_counted_length blockheader enc_header_entry wf_blockheader 81 l enc_blockheader_length Hall) as Hlen.
    unfold MaxVarIntPayload, MaxBlockHeadersPerMsg, len in *. lia.
  - (* inv *)
    apply andb_prop in Hwf. destruct Hwf as [Hmax Hall]. apply leb_true in Hmax.
    pose proof (enc_counted_length invvect enc_invvect wf_invvect 36 l enc_invvect_length Hall) as Hlen.
    unfold MaxVarIntPayload, MaxInvPerMsg, len in *. lia.
  - (* getdata *)
    apply andb_prop in Hwf. destruct Hwf as [Hmax Hall]. apply leb_true in Hmax.
    pose proof (enc_counted_length invvect enc_invvect wf_invvect 36 l enc_invvect_length Hall) as Hlen.
    unfold MaxVarIntPayload, MaxInvPerMsg, len in *. lia.
  - (* notfound *)
    apply andb_prop in Hwf. destruct Hwf as [Hmax Hall]. apply leb_true in Hmax.
    pose proof (enc_counted_length invvect enc_invvect wf_invvect 36 l enc_invvect_length Hall) as Hlen.
    unfold MaxVarIntPayload, MaxInvPerMsg, len in *. lia.
  - (* ping *)
    destruct (BIP0031Version <? pver); unfold len; [rewrite le_enc_length|]; simpl; lia.
  - (* pong *)
    apply andb_prop in Hwf. destruct Hwf as [Hpv _]. rewrite Hpv. unfold len. rewrite le_enc_length. simpl. lia.
  - (* reject *) exfalso. apply Hnr. reflexivity.
  - (* feefilter *) unfold len. rewrite le_enc_length. simpl. lia.
  - (* filteradd *)
    apply andb_prop in Hwf. destruct Hwf as [_ Hd]. apply leb_true in Hd.
    unfold enc_varstring, len, MaxFilterAddDataSize in *. rewrite app_length.
    pose proof (enc_varint_length_small (N.of_nat (length d)) ltac:(lia)). lia.
  - (* filterload *)
    repeat (apply andb_prop in Hwf; destruct Hwf as [Hwf ?]).
    match goal with H : (len f <=? MaxFilterLoadFilterSize) = true |- _ => apply leb_true in H; rename H into Hf end.
    unfold enc_varstring, len, MaxFilterLoadFilterSize in *. rewrite !app_length, !le_enc_length.
    pose proof (enc_varint_length_small (N.of_nat (length f)) ltac:(lia)). lia.
Qed.

(* WriteMessage does not refuse a well-formed message when the global maximum is not below the
   limit of the message's type (true for the production limits, see write_ok_example) *)
Theorem write_ok : forall pver net ebs m,
  wf_msg pver (max_message_payload ebs) m = true -> kind_of m <> KReject ->
  max_payload (kind_of m) pver ebs <= max_message_payload ebs ->
  exists fr, write_message pver net ebs m = Ok fr.
Proof.
  intros pver net ebs m Hwf Hnr Hmax.
  pose proof (mmp_lt ebs) as Hmmp.
  assert (Hmmp64 : max_message_payload ebs < 2 ^ 64).
  { change (2 ^ 64) with 18446744073709551616. change (2 ^ 32) with 4294967296 in Hmmp. lia. }
  assert (Hrest : rest_ok pver m []) by (destruct m; simpl; auto).
  destruct (decode_encode pver _ m [] Hmmp64 Hwf Hrest) as [Hchk _].
  pose proof (payload_len_le_max pver _ ebs m Hwf Hnr) as Hlen.
  unfold write_message, enc_msg. rewrite Hchk.
  destruct (N.ltb_spec (max_message_payload ebs) (len (enc_payload pver m))); [lia|].
  rewrite N.mod_small by lia.
  destruct (N.ltb_spec (max_payload (kind_of m) pver ebs) (len (enc_payload pver m))); [lia|].
  eexists. reflexivity.
Qed.

(* with cmd/main.go's limits every modelled type limit except reject's is below the global maximum *)
Example write_ok_example :
  forallb (fun k => is_opaque k || kind_eqb k KReject ||
                    (max_payload k 70013 128000000 <=? max_message_payload 128000000)) all_kinds = true.
Proof. vm_compute. reflexivity. Qed.

(* end to end: a well-formed message survives WriteMessage followed by ReadMessage *)
Corollary frame_roundtrip_total : forall pver net ebs m rest,
  net < 2 ^ 32 -> wf_msg pver (max_message_payload ebs) m = true -> kind_of m <> KReject ->
  max_payload (kind_of m) pver ebs <= max_message_payload ebs ->
  exists fr, write_message pver net ebs m = Ok fr /\
             read_message pver net ebs (fr ++ rest) = FOk m (enc_payload pver m) rest.
Proof.
  intros pver net ebs m rest Hnet Hwf Hnr Hmax.
  destruct (write_ok pver net ebs m Hwf Hnr Hmax) as [fr Hw].
  exists fr. split; [exact Hw|]. apply frame_roundtrip; assumption.
Qed.

(* the model's own limit table accommodates every well-formed message at its longest ... *)
Theorem max_wf_le_limit : forall k pver ebs n,
  max_wf_payload_len k pver = Some n -> n <= max_payload k pver ebs.
Proof.
  intros k pver ebs n H.
  destruct k; cbn [max_wf_payload_len max_payload] in *;
    unfold netaddr_size, has_ts, max_net_address_payload, MaxVarIntPayload, MaxUserAgentLen, MaxAddrPerMsg,
      MaxBlockLocatorsPerMsg, MaxBlockHeadersPerMsg, MaxInvPerMsg, MaxFilterAddDataSize, MaxFilterLoadFilterSize in *;
    cbn [andb] in *;
    repeat match type of H with context [if ?c then _ else _] => destruct c end;
    try discriminate H; inversion H; subst; clear H;
    repeat match goal with |- context [if ?c then _ else _] => destruct c eqn:? end; lia.
Qed.

(* ... and the bound is attained: 1000 time-stamped addresses at exactly NetAddressTimeVersion *)
Example max_wf_attained_addr :
  let m := MAddr (repeat (mk_na 1 1 (repeat 0 16%nat) 1) 1000) in
  wf_msg 31402 (max_message_payload 128000000) m = true /\
  Some (len (enc_payload 31402 m)) = max_wf_payload_len KAddr 31402.
Proof. split; vm_compute; reflexivity. Qed.
