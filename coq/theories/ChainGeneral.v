(* C01 without any assumption on the work: for EVERY history the stored table is the arrival records labelled
   from the tip that the code's own rule (ChainAdd.tip_rule) produces.  With positive work that tip is the
   specification's best header (ChainMain); with zero-work headers it can differ - exactly the known finding. *)
From Coq Require Import ZArith NArith List Lia Bool.
From BHS Require Import Work Store Chain ChainSpec StoreProofs ChainInv ChainReorg ChainAdd ChainMain ChainFields.
Import ListNotations.
Open Scope Z_scope.

(* the tip after a sequence of arrivals (newest first), by the code's rule *)
Fixpoint tip_after (a : store) : N :=
  match a with
  | [] => 0%N
  | r :: a' => match a' with [] => id r | _ => tip_rule a' (tip_after a') r end
  end.

Definition rule_store (a : store) : store := map (fun r => set_st (derived a (tip_after a) r) r) a.

Lemma tip_rule_dummy s tip r : tip_rule (map dummy s) tip (dummy r) = tip_rule s tip r.
Proof.
  unfold tip_rule. cbn [orph prev id cum dummy set_st]. rewrite by_hash_dummy.
  destruct (by_hash s tip); reflexivity.
Qed.

Lemma tip_after_cons r a : a <> [] -> tip_after (r :: a) = tip_rule a (tip_after a) r.
Proof. intros H. destruct a; [contradiction| reflexivity]. Qed.

Definition K (s : store) (tip : N) := Inv s tip /\ tip = tip_after (map dummy s).

Lemma K_init gid gpl : gid <> 0%N -> K (init gid gpl) gid.
Proof. intros Hg. split; [apply (init_inv2 gid gpl Hg)| reflexivity]. Qed.

Lemma K_step f s tip h : K s tip -> s_id h <> 0%N -> exists tip', K (fst (add f s h)) tip'.
Proof.
  intros [HI Ht] Hz.
  destruct (by_hash s (s_id h)) as [x|] eqn:Hnew; [rewrite (add_duplicate f s h x Hnew); exists tip; split; assumption|].
  destruct (memN (s_id h) f) eqn:Hf; [rewrite (add_forbidden f s h Hnew Hf); exists tip; split; assumption|].
  destruct (add_inv_gen f s tip h HI Hz Hnew Hf) as (s2 & x & tip' & E & HI' & _ & Hd & Hr).
  rewrite E. cbn [fst]. exists tip'. split; [exact HI'|].
  cbn [map]. rewrite Hd, dummy_set_st, tip_after_cons.
  - rewrite <- Ht, tip_rule_dummy. exact Hr.
  - destruct HI as (Hwf & _). destruct s; [inversion Hwf| discriminate].
Qed.

Lemma K_run f hs : forall s tip, K s tip -> nonzero_ids hs -> exists tip', K (run_from f s hs) tip'.
Proof.
  induction hs as [|h hs IH]; intros s tip HK Hn; [exists tip; exact HK|].
  unfold run_from in *. cbn [fold_left].
  destruct (K_step f s tip h HK (Hn h (or_introl eq_refl))) as [tip1 HK1].
  exact (IH _ tip1 HK1 (fun x Hx => Hn x (or_intror Hx))).
Qed.

Lemma rule_store_dummy s : rule_store (map dummy s) = map (fun r => set_st (derived s (tip_after (map dummy s)) r) r) s.
Proof.
  unfold rule_store. rewrite map_map. apply map_ext. intros r.
  unfold derived, inchain. rewrite (chain_map dummy s _ same_struct_dummy), (ids_map dummy _ same_struct_dummy). reflexivity.
Qed.

(* ---- C01 for every history ---- *)
Theorem C01_general f gid gpl hs : gid <> 0%N -> nonzero_ids hs ->
  run f gid gpl hs = rule_store (spec_run_from f (map dummy (init gid gpl)) hs) /\
  option_map id (tipB (run f gid gpl hs)) = Some (tip_after (spec_run_from f (map dummy (init gid gpl)) hs)).
Proof.
  intros Hg Hn. destruct (K_run f hs (init gid gpl) gid (K_init gid gpl Hg) Hn) as (tip & HI & Ht).
  fold (run f gid gpl hs) in *.
  rewrite <- (rows_are_arrival_records f gid gpl hs Hg Hn), rule_store_dummy, <- Ht. split.
  - pose proof HI as (_ & _ & Hl). rewrite <- (map_id (run f gid gpl hs)) at 1. apply map_ext_in. intros r Hr.
    rewrite <- (Hl r Hr). symmetry. apply set_st_self.
  - rewrite (tipB_is_tip _ tip HI). destruct HI as (_ & (t & Hbt & _) & _). rewrite Hbt. cbn. f_equal.
    apply by_hash_in in Hbt. apply Hbt.
Qed.

(* with positive work the code's tip is the specification's best header *)
Corollary tip_after_is_best f gid gpl hs : gid <> 0%N -> positive_work hs -> nonzero_ids hs ->
  tip_after (spec_run_from f (map dummy (init gid gpl)) hs) = spec_tip (spec_run_from f (init gid gpl) hs).
Proof.
  intros Hg Hp Hn. destruct (C01_general f gid gpl hs Hg Hn) as [_ H1].
  pose proof (C01_tip_is_best f gid gpl hs Hg Hp Hn) as H2. congruence.
Qed.
