(* Proofs about theories/AddrBook.v (the address manager's counters, index and tables). *)
From Coq Require Import List ZArith Bool NArith Lia.
From BHS Require Import AddrBook.
Import ListNotations.
Open Scope Z_scope.

Definition b2z (b : bool) : Z := if b then 1 else 0.
Definition cntZ (P : entry -> bool) (l : list entry) : Z := Z.of_nat (length (filter P l)).

Definition ok_entry (e : entry) : Prop :=
  e_refs e = Z.of_nat (length (e_buckets e)) /\ NoDup (e_buckets e) /\
  (e_tried e = true -> e_buckets e = [] /\ exists b, e_tried_in e = Some b) /\
  (e_tried e = false -> e_buckets e <> [] /\ e_tried_in e = None).

Definition Inv (s : st) : Prop :=
  NoDup (map e_key (index s)) /\ Forall ok_entry (index s) /\
  n_new s = cntZ (fun e => negb (e_tried e)) (index s) /\ n_tried s = cntZ e_tried (index s).

Lemma cntZ_cons P e l : cntZ P (e :: l) = b2z (P e) + cntZ P l.
Proof. unfold cntZ. cbn [filter]. destruct (P e); cbn [length b2z]; lia. Qed.

Lemma keyb_true k e : keyb k e = true -> e_key e = k.
Proof. unfold keyb. apply N.eqb_eq. Qed.

Lemma find_Some k l e : find k l = Some e -> In e l /\ e_key e = k.
Proof.
  induction l as [|x r IH]; cbn [find]; [discriminate|].
  destruct (keyb k x) eqn:Hk; intros H.
  - inversion H; subst x. split; [left; reflexivity|apply keyb_true; exact Hk].
  - destruct (IH H) as [Hi Hkey]. split; [right; exact Hi|exact Hkey].
Qed.

Lemma find_None k l : find k l = None -> ~ In k (map e_key l).
Proof.
  induction l as [|x r IH]; cbn [find map]; [intros _ []|].
  destruct (keyb k x) eqn:Hk; [discriminate|]. intros H [Hx|Hr].
  - unfold keyb in Hk. rewrite Hx, N.eqb_refl in Hk. discriminate.
  - exact (IH H Hr).
Qed.

Lemma upd_keys k f l : (forall e, e_key (f e) = e_key e) -> map e_key (upd k f l) = map e_key l.
Proof.
  intros Hf. induction l as [|x r IH]; [reflexivity|]. cbn [upd]. destruct (keyb k x); cbn [map].
  - rewrite Hf. reflexivity.
  - rewrite IH. reflexivity.
Qed.

Lemma upd_Forall (P : entry -> Prop) k f l e :
  find k l = Some e -> Forall P l -> P (f e) -> Forall P (upd k f l).
Proof.
  induction l as [|x r IH]; cbn [find upd]; [discriminate|].
  intros Hf Hall Hp. inversion Hall as [|? ? Hx Hr]; subst.
  destruct (keyb k x); [inversion Hf; subst x; constructor; assumption|].
  constructor; [exact Hx|apply IH; assumption].
Qed.

Lemma upd_cnt P k f l e : find k l = Some e -> cntZ P (upd k f l) = cntZ P l - b2z (P e) + b2z (P (f e)).
Proof.
  induction l as [|x r IH]; cbn [find upd]; [discriminate|].
  destruct (keyb k x); intros H.
  - inversion H; subst x. rewrite !cntZ_cons. lia.
  - rewrite !cntZ_cons, (IH H). lia.
Qed.

Lemma del_cnt P k l e : find k l = Some e -> cntZ P (del k l) = cntZ P l - b2z (P e).
Proof.
  induction l as [|x r IH]; cbn [find del]; [discriminate|].
  destruct (keyb k x); intros H.
  - inversion H; subst x. rewrite cntZ_cons. lia.
  - rewrite !cntZ_cons, (IH H). lia.
Qed.

Lemma del_incl k l x : In x (del k l) -> In x l.
Proof.
  induction l as [|y r IH]; cbn [del]; [intros []|].
  destruct (keyb k y); [intros H; right; exact H|]. intros [H|H]; [left; exact H|right; exact (IH H)].
Qed.

Lemma del_keys_incl k l x : In x (map e_key (del k l)) -> In x (map e_key l).
Proof.
  induction l as [|y r IH]; cbn [del map]; [intros []|].
  destruct (keyb k y); cbn [map]; [intros H; right; exact H|]. intros [H|H]; [left; exact H|right; exact (IH H)].
Qed.

Lemma del_NoDup k l : NoDup (map e_key l) -> NoDup (map e_key (del k l)).
Proof.
  induction l as [|y r IH]; cbn [del map]; [intros H; exact H|].
  intros H. inversion H as [|? ? Hn Hr]; subst. destruct (keyb k y); [exact Hr|].
  cbn [map]. constructor; [intros Hc; apply Hn; exact (del_keys_incl _ _ _ Hc)|exact (IH Hr)].
Qed.

Lemma del_Forall (P : entry -> Prop) k l : Forall P l -> Forall P (del k l).
Proof. intros H. apply Forall_forall. intros x Hx. rewrite Forall_forall in H. apply H. exact (del_incl _ _ _ Hx). Qed.

Lemma del_gone k l : NoDup (map e_key l) -> ~ In k (map e_key (del k l)).
Proof.
  induction l as [|y r IH]; cbn [del map]; [intros _ []|].
  intros H. inversion H as [|? ? Hn Hr]; subst. destruct (keyb k y) eqn:Hk.
  - apply keyb_true in Hk. rewrite <- Hk. exact Hn.
  - cbn [map]. intros [Hc|Hc]; [unfold keyb in Hk; rewrite Hc, N.eqb_refl in Hk; discriminate|exact (IH Hr Hc)].
Qed.

Lemma not_in_find k l : ~ In k (map e_key l) -> find k l = None.
Proof.
  induction l as [|y r IH]; cbn [find map]; [reflexivity|]. intros H.
  destruct (keyb k y) eqn:Hk; [exfalso; apply H; left; exact (keyb_true _ _ Hk)|].
  apply IH. intros Hc. apply H. right. exact Hc.
Qed.

Lemma mem_false x l : mem x l = false -> ~ In x l.
Proof.
  unfold mem. intros H Hin. assert (existsb (N.eqb x) l = true) as Ht.
  { apply existsb_exists. exists x. split; [exact Hin|apply N.eqb_refl]. }
  rewrite H in Ht. discriminate.
Qed.

Lemma rm_new_loop_exact bs nn g :
  bs <> [] -> rm_new_loop bs (Z.of_nat (length bs)) nn g = (0, nn - 1, true).
Proof.
  revert nn g. induction bs as [|b r IH]; intros nn g Hne; [contradiction|].
  cbn [rm_new_loop length]. destruct r as [|b2 r2].
  - cbn. reflexivity.
  - replace (Z.of_nat (S (length (b2 :: r2))) - 1) with (Z.of_nat (length (b2 :: r2))) by lia.
    destruct (Z.of_nat (length (b2 :: r2)) =? 0) eqn:Hz; [apply Z.eqb_eq in Hz; cbn [length] in Hz; lia|].
    apply IH. discriminate.
Qed.

Lemma inv_init : Inv init.
Proof. repeat split; cbn; try constructor. Qed.

Lemma ok_tried_in e : ok_entry e -> forall b, e_tried_in e = Some b -> e_tried e = true.
Proof.
  intros (_ & _ & _ & Hf) b Hb. destruct (e_tried e) eqn:Ht; [reflexivity|].
  destruct (Hf eq_refl) as [_ Hn]. rewrite Hn in Hb. discriminate.
Qed.

Lemma add_inv s k b lot : Inv s -> Inv (add s k b lot).
Proof.
  intros (Hnd & Hall & Hn & Ht). unfold add.
  destruct (mem k (banned s)); [repeat split; assumption|].
  destruct (find k (index s)) as [e|] eqn:Hf.
  - destruct (e_tried e) eqn:Htr; [repeat split; assumption|].
    destruct (e_refs e =? max_refs); [repeat split; assumption|].
    destruct lot; cbn [negb]; [|repeat split; assumption].
    destruct (mem b (e_buckets e)) eqn:Hm; [repeat split; assumption|].
    destruct (find_Some _ _ _ Hf) as [Hin Hkey].
    assert (Hok : ok_entry e) by (rewrite Forall_forall in Hall; exact (Hall _ Hin)).
    destruct Hok as (Hr & Hnb & Htt & Hff). destruct (Hff Htr) as [Hne Hti].
    unfold Inv. cbn [index n_new n_tried].
    rewrite upd_keys by (intros; reflexivity).
    rewrite !(upd_cnt _ _ _ _ _ Hf). cbn [e_tried]. rewrite Htr. cbn [negb b2z].
    refine (conj Hnd (conj _ (conj _ _))); [|lia|lia].
    eapply upd_Forall; [exact Hf|exact Hall|].
    unfold ok_entry. cbn [e_refs e_buckets e_tried e_tried_in length].
    refine (conj _ (conj _ (conj _ _))).
    + rewrite Hr. lia.
    + constructor; [exact (mem_false _ _ Hm)|exact Hnb].
    + rewrite Htr. discriminate.
    + intros _. split; [discriminate|exact Hti].
  - unfold Inv. cbn [index n_new n_tried map]. rewrite !cntZ_cons. cbn [e_tried negb b2z].
    refine (conj _ (conj _ (conj _ _))); [|constructor; [|exact Hall]|lia|lia].
    + constructor; [exact (find_None _ _ Hf)|exact Hnd].
    + unfold ok_entry. cbn. refine (conj eq_refl (conj _ (conj _ _))).
      * constructor; [intros []|constructor].
      * discriminate.
      * intros _. split; [discriminate|reflexivity].
Qed.

Lemma good_inv s k tb : Inv s -> Inv (good s k tb).
Proof.
  intros (Hnd & Hall & Hn & Ht). unfold good.
  destruct (find k (index s)) as [e|] eqn:Hf; [|repeat split; assumption].
  destruct (e_tried e) eqn:Htr; [repeat split; assumption|].
  destruct (find_Some _ _ _ Hf) as [Hin Hkey].
  assert (Hok : ok_entry e) by (rewrite Forall_forall in Hall; exact (Hall _ Hin)).
  destruct Hok as (Hr & Hnb & Htt & Hff). destruct (Hff Htr) as [Hne Hti].
  destruct (e_buckets e) as [|b0 br] eqn:Hb; [contradiction|].
  unfold Inv. cbn [index n_new n_tried].
  rewrite upd_keys by (intros; reflexivity).
  rewrite !(upd_cnt _ _ _ _ _ Hf). cbn [e_tried]. rewrite Htr. cbn [negb b2z].
  refine (conj Hnd (conj _ (conj _ _))); [|lia|lia].
  eapply upd_Forall; [exact Hf|exact Hall|].
  unfold ok_entry. cbn [e_refs e_buckets e_tried e_tried_in length].
  refine (conj _ (conj _ (conj _ _))).
  - rewrite Hr. cbn [length]. lia.
  - constructor.
  - intros _. split; [reflexivity|exists tb; reflexivity].
  - discriminate.
Qed.

Lemma ban_shape s k : Inv s ->
  forall e, find k (index s) = Some e ->
  ban s k = mkS (del k (index s))
                (n_new s - b2z (negb (e_tried e))) (n_tried s - b2z (e_tried e)) (k :: banned s).
Proof.
  intros (Hnd & Hall & Hn & Ht) e Hf. unfold ban, ban_with. rewrite Hf.
  destruct (find_Some _ _ _ Hf) as [Hin Hkey].
  assert (Hok : ok_entry e) by (rewrite Forall_forall in Hall; exact (Hall _ Hin)).
  pose proof (ok_tried_in _ Hok) as Hti.
  destruct Hok as (Hr & Hnb & Htt & Hff).
  unfold rm_tried. destruct (e_tried_in e) as [tb|] eqn:Hin_t.
  - pose proof (Hti tb eq_refl) as Htr. destruct (Htt Htr) as [Hbs _].
    cbn [e_buckets e_refs]. rewrite Hbs. cbn [rm_new_loop orb]. rewrite Htr. cbn [negb b2z].
    f_equal; lia.
  - assert (Htr : e_tried e = false).
    { destruct (e_tried e) eqn:Hx; [|reflexivity]. destruct (Htt eq_refl) as [_ [b Hb]]. discriminate. }
    destruct (Hff Htr) as [Hne _].
    rewrite Hr, (rm_new_loop_exact _ _ _ Hne). cbn [orb]. rewrite Htr. cbn [negb b2z].
    f_equal; lia.
Qed.

Lemma ban_inv s k : Inv s -> Inv (ban s k).
Proof.
  intros HI. destruct (find k (index s)) as [e|] eqn:Hf.
  - rewrite (ban_shape _ _ HI _ Hf). destruct HI as (Hnd & Hall & Hn & Ht).
    unfold Inv. cbn [index n_new n_tried].
    rewrite !(del_cnt _ _ _ _ Hf).
    refine (conj (del_NoDup _ _ Hnd) (conj (del_Forall _ _ _ Hall) (conj _ _))); lia.
  - unfold ban, ban_with. rewrite Hf. destruct HI as (Hnd & Hall & Hn & Ht). repeat split; assumption.
Qed.

Lemma step_inv s o : Inv s -> Inv (step s o).
Proof. destruct o; cbn [step]; [apply add_inv|apply good_inv|apply ban_inv]. Qed.

Theorem run_inv ops : Inv (run ops).
Proof.
  unfold run. assert (H : forall s, Inv s -> Inv (fold_left step ops s)).
  { induction ops as [|o r IH]; intros s Hs; [exact Hs|]. cbn [fold_left]. apply IH. apply step_inv. exact Hs. }
  apply H. exact inv_init.
Qed.

(* ---- what the invariant means for the tables ---- *)

Lemma filter_ext_Forall (P Q : entry -> bool) l : Forall (fun e => P e = Q e) l -> filter P l = filter Q l.
Proof. induction 1 as [|x r Hx _ IH]; [reflexivity|]. cbn [filter]. rewrite Hx, IH. reflexivity. Qed.

Theorem counters_exact ops :
  let s := run ops in
  n_tried s = in_tried s /\ n_new s = in_new s /\ Z.of_nat (length (index s)) = n_new s + n_tried s.
Proof.
  cbn zeta. destruct (run_inv ops) as (Hnd & Hall & Hn & Ht). set (s := run ops) in *.
  refine (conj _ (conj _ _)).
  - rewrite Ht. unfold in_tried, cntZ. f_equal. f_equal. apply filter_ext_Forall.
    eapply Forall_impl; [|exact Hall]. intros e Hok. destruct Hok as (Hr & Hnb & Htt & Hff).
    destruct (e_tried e) eqn:Htr.
    + destruct (Htt eq_refl) as [_ [b Hb]]. rewrite Hb. reflexivity.
    + destruct (Hff eq_refl) as [_ Hb]. rewrite Hb. reflexivity.
  - rewrite Hn. unfold in_new, cntZ. f_equal. f_equal. apply filter_ext_Forall.
    eapply Forall_impl; [|exact Hall]. intros e Hok. destruct Hok as (Hr & Hnb & Htt & Hff).
    destruct (e_tried e) eqn:Htr; cbn [negb].
    + destruct (Htt eq_refl) as [Hb _]. rewrite Hb. reflexivity.
    + destruct (Hff eq_refl) as [Hb _]. destruct (e_buckets e); [contradiction|reflexivity].
  - rewrite Hn, Ht. unfold cntZ. clear. induction (index s) as [|e r IH]; [reflexivity|].
    cbn [filter length]. destruct (e_tried e); cbn [negb length]; lia.
Qed.

Lemma cnt_pos_exists P l : 0 < cntZ P l -> exists e, In e l /\ P e = true.
Proof.
  unfold cntZ. destruct (filter P l) as [|e r] eqn:Hf; [cbn; lia|]. intros _.
  assert (Hin : In e (filter P l)) by (rewrite Hf; left; reflexivity).
  apply filter_In in Hin. exists e. exact Hin.
Qed.

(* GetAddress loops "until a non-empty bucket is drawn" in the table its counter sends it to: after every history
   the table a positive counter points to does hold an address *)
Theorem get_address_has_candidate ops :
  let s := run ops in
  (0 < n_tried s -> exists e b, In e (index s) /\ e_tried_in e = Some b) /\
  (0 < n_new s -> exists e b, In e (index s) /\ In b (e_buckets e)) /\
  (n_tried s + n_new s = 0 -> index s = []).
Proof.
  cbn zeta. pose proof (counters_exact ops) as Hc. cbn zeta in Hc. destruct Hc as (_ & _ & Hlen).
  destruct (run_inv ops) as (Hnd & Hall & Hn & Ht). set (s := run ops) in *.
  rewrite Forall_forall in Hall. refine (conj _ (conj _ _)).
  - intros Hp. rewrite Ht in Hp. destruct (cnt_pos_exists _ _ Hp) as (e & Hin & Htr).
    destruct (Hall _ Hin) as (_ & _ & Htt & _). destruct (Htt Htr) as [_ [b Hb]]. exists e, b. split; assumption.
  - intros Hp. rewrite Hn in Hp. destruct (cnt_pos_exists _ _ Hp) as (e & Hin & Htr).
    apply negb_true_iff in Htr. destruct (Hall _ Hin) as (_ & _ & _ & Hff). destruct (Hff Htr) as [Hne _].
    destruct (e_buckets e) as [|b r] eqn:Hb; [contradiction|]. exists e, b. split; [exact Hin|rewrite Hb; left; reflexivity].
  - intros Hz. destruct (index s); [reflexivity|]. cbn [length] in Hlen. lia.
Qed.

(* a banned address is forgotten: not in the index (so in no table), and updateAddress ignores it while banned *)
Theorem ban_forgets ops k :
  let s := step (run ops) (OpBan k) in find k (index s) = None /\ In k (banned s).
Proof.
  cbn zeta. cbn [step]. pose proof (run_inv ops) as HI. set (s := run ops) in *.
  destruct (find k (index s)) as [e|] eqn:Hf.
  - rewrite (ban_shape _ _ HI _ Hf). cbn [index banned]. split; [|left; reflexivity].
    apply not_in_find. apply del_gone. destruct HI as [Hnd _]. exact Hnd.
  - unfold ban, ban_with. rewrite Hf. cbn [index banned]. split; [exact Hf|left; reflexivity].
Qed.

(* The code as it was before dec9d30 does NOT keep the invariant: one address added, connected to (Good) and banned
   leaves nTried = 1 with nothing in the tried table - GetAddress then looks for a non-empty tried bucket for ever -
   and the banned address is still indexed. *)
Example old_ban_of_tried_address_refuted :
  let s := run_old [OpAdd 7 3 true; OpGood 7 9; OpBan 7] in
  n_tried s = 1 /\ in_tried s = 0 /\ refs_of s 7 = -1.
Proof. vm_compute. repeat split. Qed.

(* non-vacuity: a history that exercises every operation on several addresses, with its counters *)
Example sample_history :
  let s := run [OpAdd 1 10 true; OpAdd 1 11 true; OpAdd 2 10 true; OpAdd 3 12 true; OpGood 2 5; OpAdd 1 10 true;
                OpBan 1; OpAdd 1 13 true; OpGood 3 6; OpBan 2] in
  n_new s = 0 /\ n_tried s = 1 /\ refs_of s 1 = -1 /\ refs_of s 3 = 0 /\ banned s = [2; 1]%N.
Proof. vm_compute. repeat split. Qed.
