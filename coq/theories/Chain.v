(* Model of chainService.Add (/repo/service/chain_service.go) on the store model, split as the code is:
   all reads precede all writes, so  add = exec (plan ...).  "The first k planned writes happened" is
   exactly what a kill between transactions (or a failing write) leaves behind (C05) and the step
   granularity for interleavings (C15).  Definitions only. *)
From Coq Require Import ZArith NArith List Bool.
From BHS Require Import Work Store.
Import ListNotations.
Open Scope Z_scope.

Inductive write := WUpdate (l : list N) (x : hstate) | WInsert (r : row).
Inductive outcome := Stored (x : hstate) | Duplicate | Forbidden | ErrNoTip.

(* domains.CreateHeader with the parent found by hash, or NewOrphanPreviousBlockHeader
   (height 0, state ORPHAN, cumulated work 0) when it is not stored *)
Definition create_header (s : store) (h : src) : row :=
  let p := by_hash s (s_prev h) in
  let ph := match p with Some p => height p | None => 0 end in
  let pc := match p with Some p => cum p | None => 0 end in
  let pst := match p with Some p => st p | None => Orphan end in
  let w := calc_work (p_bits (s_pl h)) in
  {| id := s_id h; prev := s_prev h; height := ph + 1; work := w; cum := pc + w;
     orph := st_eqb pst Orphan;
     st := match pst with Orphan => Orphan | Longest => Longest | Stale => Stale end;
     pl := s_pl h |}.

Definition plan (forbidden : list N) (s : store) (h : src) : outcome * list write :=
  match by_hash s (s_id h) with
  | Some _ => (Duplicate, [])
  | None =>
    if memN (s_id h) forbidden then (Forbidden, []) else
    let r0 := create_header s h in
    (* hasConcurrentHeaderFromLongestChain *)
    let conc := match st r0 with
                | Orphan => false
                | Longest => has_L_at s (height r0)
                | Stale => true
                end in
    if negb conc then (Stored (st r0), [WInsert r0])
    else match tipB s with
         | None => (ErrNoTip, [])
         | Some t =>
           if cum t <? cum r0 then
             (* switchChainsStates *)
             let stale := stale_back s (s_prev h) in
             let lh := min_height stale (height r0) in
             let concl := longest_from s lh in
             (Stored Longest, [WUpdate (ids concl) Stale; WUpdate (ids stale) Longest; WInsert (set_st Longest r0)])
           else (Stored Stale, [WInsert (set_st Stale r0)])
         end
  end.

Definition apply_write (s : store) (w : write) : store :=
  match w with
  | WUpdate l x => update_state s l x
  | WInsert r => match by_hash s (id r) with Some _ => s | None => r :: s end   (* ON CONFLICT DO NOTHING *)
  end.

(* the first k writes *)
Definition exec (s : store) (ws : list write) (k : nat) : store := fold_left apply_write (firstn k ws) s.

Definition add (f : list N) (s : store) (h : src) : store * outcome :=
  let '(o, ws) := plan f s h in (exec s ws (length ws), o).

Definition run_from (f : list N) (s : store) (hs : list src) : store :=
  fold_left (fun s h => fst (add f s h)) hs s.

Definition genesis_row (gid : N) (gpl : payload) : row :=
  let w := calc_work (p_bits gpl) in
  {| id := gid; prev := 0%N; height := 0; work := w; cum := w; orph := false; st := Longest; pl := gpl |}.
Definition init (gid : N) (gpl : payload) : store := [genesis_row gid gpl].
Definition run (f : list N) (gid : N) (gpl : payload) (hs : list src) : store := run_from f (init gid gpl) hs.

(* outcomes of a whole history *)
Fixpoint outcomes (f : list N) (s : store) (hs : list src) : list outcome :=
  match hs with
  | [] => []
  | h :: hs' => let '(s', o) := add f s h in o :: outcomes f s' hs'
  end.
