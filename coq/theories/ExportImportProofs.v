(* C17 proofs about the ExportImport model: numerals print/parse round trip, export/import round
   trip, refusal of bad files, untouched non-empty databases, the second-start defect and its repair. *)
From Coq Require Import ZArith NArith List String Ascii Bool Lia Permutation.
From BHS Require Import Work ExportImport.
Import ListNotations.
Open Scope Z_scope.

(* ------------------------------------------------------------------------------------------ *)
(* digits                                                                                      *)

Lemma N_lt16_cases : forall d : N, (d < 16)%N ->
  In d [0;1;2;3;4;5;6;7;8;9;10;11;12;13;14;15]%N.
Proof.
  intros d Hd. destruct d as [|p]; [simpl; auto|].
  destruct p as [p|p|]; [| |simpl; tauto];
  (destruct p as [p|p|]; [| |simpl; tauto]);
  (destruct p as [p|p|]; [| |simpl; tauto]);
  (destruct p as [p|p|]; [| |simpl; tauto]); try lia.
Qed.

Lemma digit_of_char : forall d, (d < 10)%N -> digit_of (digit_char d) = Some d.
Proof.
  intros d Hd. assert (Hc : In d [0;1;2;3;4;5;6;7;8;9;10;11;12;13;14;15]%N) by (apply N_lt16_cases; lia).
  simpl in Hc.
  repeat (destruct Hc as [Hc|Hc]; [subst d; try reflexivity; try lia|]); try contradiction.
Qed.

Lemma hexdigit_of_char : forall d, (d < 16)%N -> hexdigit_of (hexdigit_char d) = Some d.
Proof.
  intros d Hd. pose proof (N_lt16_cases d Hd) as Hc. simpl in Hc.
  repeat (destruct Hc as [Hc|Hc]; [subst d; reflexivity|]); contradiction.
Qed.

Lemma digit_char_not_sign : forall d, (d < 10)%N ->
  Ascii.eqb (digit_char d) "-"%char = false /\ Ascii.eqb (digit_char d) "+"%char = false.
Proof.
  intros d Hd. assert (Hc : In d [0;1;2;3;4;5;6;7;8;9;10;11;12;13;14;15]%N) by (apply N_lt16_cases; lia).
  simpl in Hc.
  repeat (destruct Hc as [Hc|Hc]; [subst d; try (split; reflexivity); try lia|]); try contradiction.
Qed.

Lemma digits_val_app : forall dig b s1 s2 acc,
  digits_val dig b acc (s1 ++ s2)%string =
  match digits_val dig b acc s1 with Some v => digits_val dig b v s2 | None => None end.
Proof.
  intros dig b s1. induction s1 as [|c s1 IH]; intros s2 acc; simpl; [reflexivity|].
  destruct (dig c) as [d|]; [apply IH|reflexivity].
Qed.

Lemma length_append : forall s1 s2, String.length (s1 ++ s2)%string = (String.length s1 + String.length s2)%nat.
Proof. induction s1 as [|c s1 IH]; intros s2; simpl; [reflexivity|now rewrite IH]. Qed.

(* ------------------------------------------------------------------------------------------ *)
(* decimal numerals                                                                            *)

Lemma div_eucl_10 : forall n q d, N.div_eucl n 10 = (q, d) -> (n = 10 * q + d /\ d < 10)%N.
Proof.
  intros n q d E.
  assert (Hq : q = (n / 10)%N) by (unfold N.div; now rewrite E).
  assert (Hd : d = (n mod 10)%N) by (unfold N.modulo; now rewrite E).
  subst q d. split; [apply N.div_mod; lia|apply N.mod_lt; lia].
Qed.

Lemma print_N_fuel_spec : forall f n, (n < 2 ^ N.of_nat (S f))%N ->
  digits_val digit_of 10 0 (print_N_fuel (S f) n) = Some n /\
  exists d r, (d < 10)%N /\ print_N_fuel (S f) n = String (digit_char d) r.
Proof.
  induction f as [|f IH]; intros n Hn.
  - assert (Hlt : (n < 10)%N) by (change (2 ^ N.of_nat 1)%N with 2%N in Hn; lia).
    simpl. apply N.ltb_lt in Hlt. rewrite Hlt. apply N.ltb_lt in Hlt. split.
    + simpl. rewrite (digit_of_char n Hlt). reflexivity.
    + exists n, EmptyString. split; [exact Hlt|reflexivity].
  - remember (S f) as f1 eqn:Ef1.
    cbn [print_N_fuel]. destruct (n <? 10)%N eqn:Hlt.
    + apply N.ltb_lt in Hlt. split.
      * simpl. rewrite (digit_of_char n Hlt). reflexivity.
      * exists n, EmptyString. split; [exact Hlt|reflexivity].
    + apply N.ltb_ge in Hlt.
      destruct (N.div_eucl n 10) as [q d] eqn:E.
      destruct (div_eucl_10 n q d E) as [Hnq Hd].
      assert (Hq : (q < 2 ^ N.of_nat f1)%N).
      { rewrite Nat2N.inj_succ, N.pow_succ_r' in Hn. lia. }
      destruct (IH q Hq) as [Hval [d0 [r0 [Hd0 Hhead]]]].
      split.
      * rewrite digits_val_app, Hval. simpl. rewrite (digit_of_char d Hd). f_equal. lia.
      * exists d0, (r0 ++ String (digit_char d) EmptyString)%string. split; [exact Hd0|].
        rewrite Hhead. reflexivity.
Qed.

Lemma print_N_spec : forall n,
  digits_val digit_of 10 0 (print_N n) = Some n /\
  exists d r, (d < 10)%N /\ print_N n = String (digit_char d) r.
Proof.
  intros n. unfold print_N. apply print_N_fuel_spec.
  rewrite Nat2N.inj_succ, N2Nat.id.
  destruct n as [|p]; [reflexivity|].
  apply N.log2_spec. reflexivity.
Qed.

Lemma parse_nat_print_N : forall n, parse_nat_str (print_N n) = Some n.
Proof.
  intros n. destruct (print_N_spec n) as [Hv [d [r [_ Hh]]]].
  unfold parse_nat_str. rewrite Hh in *. exact Hv.
Qed.

Lemma parse_int_print_Z : forall bits z,
  - Z.of_N (2 ^ (bits - 1)) <= z < Z.of_N (2 ^ (bits - 1)) ->
  parse_int bits (print_Z z) = Some z.
Proof.
  intros bits z Hz. unfold print_Z. destruct (z <? 0) eqn:Hneg.
  - apply Z.ltb_lt in Hneg. unfold parse_int.
    change (Ascii.eqb "-"%char "-"%char) with true. cbn [orb].
    rewrite parse_nat_print_N.
    assert (Hle : (Z.to_N (- z) <=? 2 ^ (bits - 1))%N = true) by (apply N.leb_le; lia).
    rewrite Hle. f_equal. lia.
  - apply Z.ltb_ge in Hneg.
    destruct (print_N_spec (Z.to_N z)) as [_ [d [r [Hd Hh]]]].
    pose proof (parse_nat_print_N (Z.to_N z)) as Hp.
    unfold parse_int. rewrite Hh in *.
    destruct (digit_char_not_sign d Hd) as [E1 E2]. rewrite E1, E2. cbn [orb].
    rewrite Hp.
    assert (Hlt : (Z.to_N z <? 2 ^ (bits - 1))%N = true) by (apply N.ltb_lt; lia).
    rewrite Hlt. f_equal. lia.
Qed.

Lemma parse_uint_print_Z : forall bits z,
  0 <= z < Z.of_N (2 ^ bits) -> parse_uint bits (print_Z z) = Some z.
Proof.
  intros bits z Hz. unfold print_Z.
  assert (Hneg : (z <? 0) = false) by (apply Z.ltb_ge; lia). rewrite Hneg.
  unfold parse_uint. rewrite parse_nat_print_N.
  assert (Hlt : (Z.to_N z <? 2 ^ bits)%N = true) by (apply N.ltb_lt; lia).
  rewrite Hlt. f_equal. lia.
Qed.

Lemma parse_big_print_Z : forall z, 0 <= z -> parse_big (print_Z z) = z.
Proof.
  intros z Hz. unfold print_Z, parse_big.
  assert (Hneg : (z <? 0) = false) by (apply Z.ltb_ge; lia). rewrite Hneg.
  rewrite parse_nat_print_N. lia.
Qed.

(* ------------------------------------------------------------------------------------------ *)
(* hexadecimal numerals                                                                        *)

Lemma print_hex_spec : forall k n,
  digits_val hexdigit_of 16 0 (print_hex k n) = Some (n mod 16 ^ N.of_nat k)%N /\
  String.length (print_hex k n) = k.
Proof.
  induction k as [|k IH]; intros n.
  - simpl. split; [now rewrite N.mod_1_r|reflexivity].
  - cbn [print_hex]. destruct (IH (N.shiftr n 4)) as [Hv Hl]. split.
    + rewrite digits_val_app, Hv. cbn [digits_val].
      assert (Hd : (N.land n 15 < 16)%N).
      { change 15%N with (N.ones 4). rewrite N.land_ones. apply N.mod_lt. discriminate. }
      rewrite (hexdigit_of_char _ Hd). f_equal.
      change 15%N with (N.ones 4). rewrite N.land_ones, N.shiftr_div_pow2.
      change (2 ^ 4)%N with 16%N.
      rewrite Nat2N.inj_succ, N.pow_succ_r'.
      rewrite (N.mod_mul_r n 16 (16 ^ N.of_nat k)); [lia|lia|].
      apply N.pow_nonzero. lia.
    + rewrite length_append, Hl. simpl. lia.
Qed.

Lemma parse_hash_print_hex : forall m, (m < 2 ^ 256)%N -> parse_hash (print_hex 64 m) = Some m.
Proof.
  intros m Hm. unfold parse_hash. destruct (print_hex_spec 64 m) as [Hv Hl].
  rewrite Hl. change (64 <? 64)%nat with false. cbn iota. rewrite Hv. f_equal.
  apply N.mod_small.
  replace (16 ^ N.of_nat 64)%N with (2 ^ 256)%N; [exact Hm|].
  change 16%N with (2 ^ 4)%N. rewrite <- N.pow_mul_r. reflexivity.
Qed.

(* ------------------------------------------------------------------------------------------ *)
(* rows                                                                                        *)

Lemma parse_export_row : forall r, fields_ok r ->
  parse_row (export_row r) = Some (x_version r, x_merkle r, x_nonce r, x_bits r, x_ts r).
Proof.
  intros r (Hv & Hn & Hb & Hm & Ht). unfold parse_row, export_row.
  rewrite (parse_int_print_Z 32 (x_version r)) by (change (Z.of_N (2 ^ (32 - 1))) with (2 ^ 31); lia).
  rewrite (parse_hash_print_hex _ Hm).
  rewrite (parse_uint_print_Z 32 (x_nonce r)) by (change (Z.of_N (2 ^ 32)) with (2 ^ 32); lia).
  rewrite (parse_uint_print_Z 32 (x_bits r)) by (change (Z.of_N (2 ^ 32)) with (2 ^ 32); lia).
  rewrite (parse_int_print_Z 64 (x_ts r)) by (change (Z.of_N (2 ^ (64 - 1))) with (2 ^ 63); lia).
  reflexivity.
Qed.

Lemma calc_work_nonneg : forall c, 0 <= calc_work c.
Proof.
  intros c. unfold calc_work. destruct (compact_to_big c <=? 0) eqn:E; [lia|].
  apply Z.leb_gt in E. apply Z.div_pos; [|lia].
  rewrite Z.shiftl_1_l. apply Z.pow_nonneg. lia.
Qed.

Section WithHash.
Variable hashf : src -> N.

Lemma fields_okb_ok : forall r, fields_okb r = true <-> fields_ok r.
Proof.
  intros r. unfold fields_okb, fields_ok. rewrite !andb_true_iff, !Z.leb_le, !Z.ltb_lt, N.ltb_lt. tauto.
Qed.

Lemma chain_fromb_ok : forall rows prev h cum,
  chain_fromb hashf prev h cum rows = true <-> chain_from hashf prev h cum rows.
Proof.
  induction rows as [|r rows IH]; intros prev h cum; simpl; [tauto|].
  rewrite !andb_true_iff, !N.eqb_eq, !Z.eqb_eq, IH. tauto.
Qed.

Lemma chain_okb_ok : forall rows, chain_okb hashf rows = true <-> chain_ok hashf rows.
Proof. intros rows. apply chain_fromb_ok. Qed.

(* ------------------------------------------------------------------------------------------ *)
(* import of an exported chain                                                                 *)

Lemma prepare_export_row : forall r st,
  fields_ok r -> x_prev r = i_prev st -> x_height r = i_idx st ->
  x_hash r = hashf (src_of r) -> x_work r = calc_work (x_bits r) ->
  x_cum r = parse_big (i_cum st) + x_work r ->
  prepare_record hashf (export_row r) st = Some r.
Proof.
  intros r st Hf Hp Hh Hhash Hw Hc. unfold prepare_record. rewrite (parse_export_row r Hf).
  destruct r as [h p ht v m t b n w c]. unfold src_of in Hhash. simpl in *. subst. reflexivity.
Qed.

Lemma import_recs_export : forall rows st prev h cum,
  chain_from hashf prev h cum rows -> Forall fields_ok rows -> 0 <= cum ->
  i_prev st = prev -> i_idx st = h -> parse_big (i_cum st) = cum ->
  exists st', import_recs hashf 5 (map export_row rows) st = Ok (rows, st').
Proof.
  induction rows as [|r rows IH]; intros st prev h cum Hch Hf Hcum Hp Hh Hc.
  - exists st. reflexivity.
  - destruct Hch as (Hprev & Hheight & Hhash & Hwork & Hcumr & Hrest).
    inversion Hf as [|r0 l0 Hfr Hfrest]; subst r0 l0.
    cbn [map import_recs]. change (List.length (export_row r)) with 5%nat. cbn [Nat.eqb negb].
    rewrite (prepare_export_row r st Hfr); try congruence.
    assert (Hw0 : 0 <= x_work r) by (rewrite Hwork; apply calc_work_nonneg).
    destruct (IH (next_ist st r) (x_hash r) (h + 1) (x_cum r)) as [st' Hst']; try assumption; try reflexivity.
    + lia.
    + simpl. lia.
    + simpl. apply parse_big_print_Z. lia.
    + exists st'. rewrite Hst'. reflexivity.
Qed.

Theorem roundtrip : forall rows,
  chain_ok hashf rows -> Forall fields_ok rows -> import hashf (export rows) = Ok rows.
Proof.
  intros rows Hch Hf. unfold import, export.
  change (List.length header_line) with 5%nat.
  destruct (import_recs_export rows ist0 0%N 0 0 Hch Hf) as [st' Hst']; try reflexivity; try lia.
  rewrite Hst'. reflexivity.
Qed.

(* ------------------------------------------------------------------------------------------ *)
(* the batch loop                                                                              *)

Lemma import_recs_length : forall ncols recs st rows st',
  import_recs hashf ncols recs st = Ok (rows, st') -> List.length rows = List.length recs.
Proof.
  induction recs as [|rec recs IH]; intros st rows st' H; simpl in H.
  - inversion H. reflexivity.
  - destruct (negb (Nat.eqb (List.length rec) ncols)); [discriminate|].
    destruct (prepare_record hashf rec st) as [r|]; [|discriminate].
    destruct (import_recs hashf ncols recs (next_ist st r)) as [[rows1 st1]|] eqn:E; [|discriminate].
    inversion H; subst. simpl. f_equal. eapply IH. exact E.
Qed.

Lemma insert_headers_good : forall ncols n recs st acc rows st',
  import_recs hashf ncols recs st = Ok (rows, st') ->
  exists stn,
    insert_headers hashf ncols n recs st acc = (true, stn, acc ++ firstn n rows, skipn n recs) /\
    import_recs hashf ncols (skipn n recs) stn = Ok (skipn n rows, st') /\
    i_idx stn = i_idx st + Z.of_nat (List.length (firstn n rows)).
Proof.
  induction n as [|n IH]; intros recs st acc rows st' H.
  - exists st. simpl. rewrite app_nil_r. repeat split; [exact H|lia].
  - destruct recs as [|rec recs].
    + simpl in H. injection H as Hr Hs. rewrite <- Hr, <- Hs. exists st. simpl. rewrite app_nil_r. repeat split. lia.
    + simpl in H. cbn [insert_headers].
      destruct (negb (Nat.eqb (List.length rec) ncols)); [discriminate|].
      destruct (prepare_record hashf rec st) as [r|]; [|discriminate].
      destruct (import_recs hashf ncols recs (next_ist st r)) as [[rows1 st1]|] eqn:E; [|discriminate].
      inversion H; subst.
      destruct (IH recs (next_ist st r) (acc ++ [r]) rows1 st' E) as [stn (H1 & H2 & H3)].
      exists stn. cbn [firstn skipn]. rewrite H1, <- app_assoc. simpl. repeat split; [exact H2|].
      rewrite H3. simpl i_idx. cbn [List.length]. lia.
Qed.

Lemma db_insert_all_app : forall t a b, db_insert_all (db_insert_all t a) b = db_insert_all t (a ++ b).
Proof. intros t a b. unfold db_insert_all. now rewrite fold_left_app. Qed.

Lemma import_loop_good : forall ncols bsz fuel recs st t rows st',
  (0 < bsz)%nat -> (List.length recs < fuel)%nat ->
  import_recs hashf ncols recs st = Ok (rows, st') ->
  import_loop hashf ncols bsz fuel recs st t =
  (Ok (i_idx st + Z.of_nat (List.length rows)), db_insert_all t rows).
Proof.
  induction fuel as [|fuel IH]; intros recs st t rows st' Hb Hf H; [lia|].
  cbn [import_loop].
  destruct (insert_headers_good ncols bsz recs st [] rows st' H) as [stn (H1 & H2 & H3)].
  rewrite H1. cbn [negb app].
  pose proof (import_recs_length _ _ _ _ _ H) as Hlen.
  destruct (i_idx stn =? i_idx st) eqn:E.
  - apply Z.eqb_eq in E.
    assert (Hz : List.length (firstn bsz rows) = 0%nat) by lia.
    destruct rows as [|r rows].
    + rewrite firstn_nil. simpl. f_equal. f_equal. lia.
    + destruct bsz; [lia|]. simpl in Hz. discriminate.
  - apply Z.eqb_neq in E.
    assert (Hnz : List.length (firstn bsz rows) <> 0%nat) by lia.
    assert (Hrec : (List.length (skipn bsz recs) < fuel)%nat).
    { rewrite skipn_length. destruct recs as [|rec0 recs0].
      - simpl in Hlen. destruct rows; [|discriminate]. rewrite firstn_nil in Hnz. simpl in Hnz. lia.
      - cbn [List.length] in Hf |- *. lia. }
    rewrite (IH (skipn bsz recs) stn _ (skipn bsz rows) st' Hb Hrec H2).
    rewrite db_insert_all_app, firstn_skipn. f_equal. f_equal. rewrite H3.
    rewrite <- (firstn_skipn bsz rows) at 3. rewrite app_length. lia.
Qed.

Lemma insert_headers_bad : forall ncols n recs st acc,
  import_recs hashf ncols recs st = Err ->
  forall ok stn batch rest, insert_headers hashf ncols n recs st acc = (ok, stn, batch, rest) ->
  ok = false \/
  (import_recs hashf ncols rest stn = Err /\ (List.length rest + n = List.length recs)%nat /\
   i_idx stn = i_idx st + Z.of_nat n).
Proof.
  induction n as [|n IH]; intros recs st acc H ok stn batch rest Hi.
  - simpl in Hi. inversion Hi; subst. right. repeat split; [exact H|lia|lia].
  - destruct recs as [|rec recs]; [simpl in H; discriminate|].
    simpl in H. cbn [insert_headers] in Hi.
    destruct (negb (Nat.eqb (List.length rec) ncols)); [inversion Hi; now left|].
    destruct (prepare_record hashf rec st) as [r|]; [|inversion Hi; now left].
    destruct (import_recs hashf ncols recs (next_ist st r)) as [[rows1 st1]|] eqn:E; [discriminate|].
    destruct (IH recs (next_ist st r) (acc ++ [r]) E ok stn batch rest Hi) as [Hl|(H1 & H2 & H3)]; [now left|].
    right. repeat split; [exact H1|simpl; lia|]. rewrite H3. simpl i_idx. lia.
Qed.

Lemma import_loop_bad : forall ncols bsz fuel recs st t,
  (0 < bsz)%nat -> (List.length recs < fuel)%nat ->
  import_recs hashf ncols recs st = Err ->
  fst (import_loop hashf ncols bsz fuel recs st t) = Err.
Proof.
  induction fuel as [|fuel IH]; intros recs st t Hb Hf H; [lia|].
  cbn [import_loop].
  destruct (insert_headers hashf ncols bsz recs st []) as [[[ok stn] batch] rest] eqn:Hi.
  destruct (insert_headers_bad ncols bsz recs st [] H ok stn batch rest Hi) as [Hl|(H1 & H2 & H3)].
  - subst ok. reflexivity.
  - destruct ok; [|reflexivity]. cbn [negb].
    assert (E : (i_idx stn =? i_idx st) = false) by (apply Z.eqb_neq; lia).
    rewrite E. apply IH; [exact Hb|lia|exact H1].
Qed.

(* what a failing import leaves behind: exactly the complete batches in front of the first bad record *)

Definition bad_at (ncols : nat) (st : ist) (rec : record) : Prop :=
  negb (Nat.eqb (List.length rec) ncols) = true \/ prepare_record hashf rec st = None.

Lemma import_recs_app : forall ncols g1 g2 st,
  import_recs hashf ncols (g1 ++ g2) st =
  match import_recs hashf ncols g1 st with
  | Ok (r1, st1) => match import_recs hashf ncols g2 st1 with
                    | Ok (r2, st2) => Ok (r1 ++ r2, st2)
                    | Err => Err
                    end
  | Err => Err
  end.
Proof.
  induction g1 as [|rec g1 IH]; intros g2 st.
  - simpl. destruct (import_recs hashf ncols g2 st) as [[r2 st2]|]; reflexivity.
  - simpl. destruct (negb (Nat.eqb (List.length rec) ncols)); [reflexivity|].
    destruct (prepare_record hashf rec st) as [r|]; [|reflexivity].
    rewrite IH. destruct (import_recs hashf ncols g1 (next_ist st r)) as [[r1 st1]|]; [|reflexivity].
    destruct (import_recs hashf ncols g2 st1) as [[r2 st2]|]; reflexivity.
Qed.

Lemma import_recs_idx : forall ncols recs st rows st',
  import_recs hashf ncols recs st = Ok (rows, st') -> i_idx st' = i_idx st + Z.of_nat (List.length rows).
Proof.
  induction recs as [|rec recs IH]; intros st rows st' H; simpl in H.
  - injection H as Hr Hs. rewrite <- Hr, <- Hs. simpl. lia.
  - destruct (negb (Nat.eqb (List.length rec) ncols)); [discriminate|].
    destruct (prepare_record hashf rec st) as [r|]; [|discriminate].
    destruct (import_recs hashf ncols recs (next_ist st r)) as [[rows1 st1]|] eqn:E; [|discriminate].
    injection H as Hr Hs. rewrite <- Hr, <- Hs. rewrite (IH _ _ _ E). simpl i_idx. cbn [List.length]. lia.
Qed.

Lemma insert_headers_prefix : forall ncols g tail st acc rows st1,
  import_recs hashf ncols g st = Ok (rows, st1) ->
  insert_headers hashf ncols (List.length g) (g ++ tail) st acc = (true, st1, acc ++ rows, tail).
Proof.
  induction g as [|rec g IH]; intros tail st acc rows st1 H; simpl in H.
  - injection H as Hr Hs. rewrite <- Hr, <- Hs. simpl. now rewrite app_nil_r.
  - destruct (negb (Nat.eqb (List.length rec) ncols)) eqn:El; [discriminate|].
    destruct (prepare_record hashf rec st) as [r|] eqn:Ep; [|discriminate].
    destruct (import_recs hashf ncols g (next_ist st r)) as [[rows1 st2]|] eqn:E; [|discriminate].
    injection H as Hr Hs. rewrite <- Hr, <- Hs.
    cbn [List.length app insert_headers]. rewrite El, Ep.
    rewrite (IH tail (next_ist st r) (acc ++ [r]) rows1 st2 E). now rewrite <- app_assoc.
Qed.

Lemma insert_headers_hits_bad : forall ncols g n bad rest st acc rows st1,
  import_recs hashf ncols g st = Ok (rows, st1) -> (List.length g < n)%nat -> bad_at ncols st1 bad ->
  fst (fst (fst (insert_headers hashf ncols n (g ++ bad :: rest) st acc))) = false.
Proof.
  induction g as [|rec g IH]; intros n bad rest st acc rows st1 H Hn Hbad; simpl in H.
  - injection H as Hr Hs. subst st1. destruct n as [|n]; [simpl in Hn; lia|].
    cbn [app insert_headers]. destruct Hbad as [Hb|Hb]; rewrite Hb; [reflexivity|].
    destruct (negb (Nat.eqb (List.length bad) ncols)); reflexivity.
  - destruct (negb (Nat.eqb (List.length rec) ncols)) eqn:El; [discriminate|].
    destruct (prepare_record hashf rec st) as [r|] eqn:Ep; [|discriminate].
    destruct (import_recs hashf ncols g (next_ist st r)) as [[rows1 st2]|] eqn:E; [|discriminate].
    injection H as Hr Hs. subst st2.
    destruct n as [|n]; [simpl in Hn; lia|].
    cbn [app insert_headers]. rewrite El, Ep.
    apply (IH n bad rest (next_ist st r) (acc ++ [r]) rows1 st1 E); [simpl in Hn; lia|exact Hbad].
Qed.

Theorem import_loop_leftovers : forall ncols bsz fuel g bad rest st t rows st1,
  (0 < bsz)%nat -> import_recs hashf ncols g st = Ok (rows, st1) -> bad_at ncols st1 bad ->
  (List.length (g ++ bad :: rest) < fuel)%nat ->
  import_loop hashf ncols bsz fuel (g ++ bad :: rest) st t =
  (Err, db_insert_all t (firstn (List.length rows / bsz * bsz) rows)).
Proof.
  induction fuel as [|fuel IH]; intros g bad rest st t rows st1 Hb H Hbad Hf; [lia|].
  pose proof (import_recs_length _ _ _ _ _ H) as Hlen.
  cbn [import_loop].
  destruct (Nat.ltb (List.length g) bsz) eqn:Hlt.
  - apply Nat.ltb_lt in Hlt.
    pose proof (insert_headers_hits_bad ncols g bsz bad rest st [] rows st1 H Hlt Hbad) as Hi.
    destruct (insert_headers hashf ncols bsz (g ++ bad :: rest) st []) as [[[ok stn] batch] rest'].
    simpl in Hi. subst ok. cbn [negb].
    rewrite Nat.div_small by lia. reflexivity.
  - apply Nat.ltb_ge in Hlt.
    rewrite <- (firstn_skipn bsz g) in H.
    rewrite import_recs_app in H.
    destruct (import_recs hashf ncols (firstn bsz g) st) as [[r1 stm]|] eqn:E1; [|discriminate].
    destruct (import_recs hashf ncols (skipn bsz g) stm) as [[r2 st2]|] eqn:E2; [|discriminate].
    injection H as Hr Hs. subst st2.
    assert (Hl1 : List.length (firstn bsz g) = bsz) by (rewrite firstn_length; lia).
    pose proof (insert_headers_prefix ncols (firstn bsz g) (skipn bsz g ++ bad :: rest) st [] r1 stm E1) as Hp.
    rewrite Hl1 in Hp. rewrite <- (firstn_skipn bsz g) at 1. rewrite <- app_assoc, Hp. cbn [negb app].
    pose proof (import_recs_idx _ _ _ _ _ E1) as Hidx.
    pose proof (import_recs_length _ _ _ _ _ E1) as Hlr1. rewrite Hl1 in Hlr1.
    assert (E : (i_idx stm =? i_idx st) = false) by (apply Z.eqb_neq; lia). rewrite E.
    assert (Hf2 : (List.length (skipn bsz g ++ bad :: rest) < fuel)%nat).
    { rewrite app_length in *. rewrite skipn_length. simpl in *. lia. }
    rewrite (IH (skipn bsz g) bad rest stm (db_insert_all t r1) r2 st1 Hb E2 Hbad Hf2).
    rewrite db_insert_all_app. f_equal. f_equal. rewrite <- Hr.
    rewrite app_length, Hlr1.
    replace (bsz + List.length r2)%nat with (1 * bsz + List.length r2)%nat by lia.
    rewrite Nat.div_add_l by lia. rewrite Nat.mul_add_distr_r, Nat.mul_1_l.
    set (k := (List.length r2 / bsz * bsz)%nat).
    replace (bsz + k)%nat with (List.length r1 + k)%nat by lia.
    symmetry. apply firstn_app_2.
Qed.

(* ------------------------------------------------------------------------------------------ *)
(* the table                                                                                   *)

Definition mk (r : xrow) : dbrow := (r, st_longest).

Lemma has_hash_app : forall t u h, has_hash (t ++ u) h = has_hash t h || has_hash u h.
Proof. intros t u h. unfold has_hash. apply existsb_app. Qed.

Lemma db_insert_all_cons : forall t r rows, db_insert_all t (r :: rows) = db_insert_all (db_insert t (mk r)) rows.
Proof. reflexivity. Qed.

Lemma db_insert_all_nodup : forall rows t,
  NoDup (map x_hash rows) -> (forall r, In r rows -> has_hash t (x_hash r) = false) ->
  db_insert_all t rows = t ++ map mk rows.
Proof.
  induction rows as [|r rows IH]; intros t Hnd Hnot.
  - simpl. now rewrite app_nil_r.
  - rewrite db_insert_all_cons. unfold db_insert. simpl fst.
    rewrite (Hnot r (or_introl eq_refl)).
    inversion Hnd as [|x l Hnin Hnd']; subst.
    rewrite IH; [now rewrite <- app_assoc|exact Hnd'|].
    intros r' Hin. rewrite has_hash_app, (Hnot r' (or_intror Hin)). simpl.
    rewrite orb_false_r. apply N.eqb_neq. intros Heq. apply Hnin. rewrite Heq. now apply in_map.
Qed.

Lemma db_insert_all_length : forall rows t,
  (List.length (db_insert_all t rows) <= List.length t + List.length rows)%nat.
Proof.
  induction rows as [|r rows IH]; intros t; [simpl; lia|].
  rewrite db_insert_all_cons. specialize (IH (db_insert t (mk r))).
  unfold db_insert in *. destruct (has_hash t (x_hash (fst (mk r)))); [simpl; lia|].
  rewrite app_length in IH. simpl in *. lia.
Qed.

(* when nothing was dropped by ON CONFLICT DO NOTHING, the table is the list of the rows *)
Lemma db_insert_all_full : forall rows t,
  List.length (db_insert_all t rows) = (List.length t + List.length rows)%nat ->
  db_insert_all t rows = t ++ map mk rows.
Proof.
  induction rows as [|r rows IH]; intros t Hlen.
  - simpl. now rewrite app_nil_r.
  - rewrite db_insert_all_cons in *. unfold db_insert in *.
    destruct (has_hash t (x_hash (fst (mk r)))).
    + pose proof (db_insert_all_length rows t). simpl in Hlen. lia.
    + rewrite IH; [now rewrite <- app_assoc|]. rewrite app_length. simpl in *. lia.
Qed.

(* heights h, h+1, h+2, ... *)
Fixpoint heights_from (h : Z) (rows : list xrow) : Prop :=
  match rows with
  | [] => True
  | r :: rest => x_height r = h /\ heights_from (h + 1) rest
  end.

Lemma chain_from_heights : forall rows prev h cum, chain_from hashf prev h cum rows -> heights_from h rows.
Proof.
  induction rows as [|r rows IH]; intros prev h cum H; simpl; [exact I|].
  destruct H as (_ & Hh & _ & _ & _ & Hr). split; [exact Hh|eapply IH; exact Hr].
Qed.

Lemma import_recs_heights : forall ncols recs st rows st',
  import_recs hashf ncols recs st = Ok (rows, st') -> heights_from (i_idx st) rows.
Proof.
  induction recs as [|rec recs IH]; intros st rows st' H; simpl in H.
  - inversion H. exact I.
  - destruct (negb (Nat.eqb (List.length rec) ncols)); [discriminate|].
    destruct (prepare_record hashf rec st) as [r|] eqn:Ep; [|discriminate].
    destruct (import_recs hashf ncols recs (next_ist st r)) as [[rows1 st1]|] eqn:E; [|discriminate].
    inversion H; subst. simpl. split.
    + unfold prepare_record in Ep. destruct (parse_row rec) as [[[[[v m] n] b] t]|]; [|discriminate].
      inversion Ep. reflexivity.
    + apply (IH _ _ _ E).
Qed.

Lemma max_height_from : forall rows h m,
  heights_from h rows -> m <= h -> rows <> [] ->
  fold_left (fun m p => Z.max m (x_height (fst p))) (map mk rows) m = h + Z.of_nat (List.length rows) - 1.
Proof.
  induction rows as [|r rows IH]; intros h m Hh Hm Hne; [congruence|].
  destruct Hh as [Hr Hrest]. simpl fold_left. rewrite Hr.
  replace (Z.max m h) with h by lia.
  destruct rows as [|r2 rows].
  - simpl. lia.
  - rewrite (IH (h + 1) h Hrest); [|lia|discriminate]. cbn [List.length]. lia.
Qed.

Lemma existsb_height_above : forall rows h h',
  heights_from h' rows -> h < h' -> existsb (fun q : xrow * N => x_height (fst q) =? h) (map mk rows) = false.
Proof.
  induction rows as [|r rows IH]; intros h h' Hh Hlt; [reflexivity|].
  destruct Hh as [Hr Hrest]. simpl. rewrite Hr.
  assert (E : (h' =? h) = false) by (apply Z.eqb_neq; lia). rewrite E. simpl.
  apply (IH h (h' + 1) Hrest). lia.
Qed.

Lemma heights_unique_from : forall rows h, heights_from h rows -> heights_unique (map mk rows) = true.
Proof.
  induction rows as [|r rows IH]; intros h Hh; [reflexivity|].
  destruct Hh as [Hr Hrest]. simpl. rewrite Hr.
  rewrite (existsb_height_above rows h (h + 1) Hrest) by lia. simpl. apply (IH (h + 1) Hrest).
Qed.

Lemma find_height_nth : forall rows h k r,
  heights_from h rows -> nth_error rows k = Some r ->
  find (fun p : xrow * N => x_height (fst p) =? h + Z.of_nat k) (map mk rows) = Some (mk r).
Proof.
  induction rows as [|r0 rows IH]; intros h k r Hh Hn; [destruct k; discriminate|].
  destruct Hh as [Hr Hrest]. destruct k as [|k].
  - simpl in Hn. injection Hn as Hn. rewrite <- Hn. simpl. rewrite Hr.
    replace (h + 0) with h by lia. now rewrite Z.eqb_refl.
  - simpl in Hn. cbn [map find]. change (fst (mk r0)) with r0. rewrite Hr.
    assert (E : (h =? h + Z.of_nat (S k)) = false) by (apply Z.eqb_neq; lia). rewrite E.
    replace (h + Z.of_nat (S k)) with (h + 1 + Z.of_nat k) by lia.
    apply (IH (h + 1) k r Hrest Hn).
Qed.

Lemma find_height_inv : forall rows h c p,
  heights_from h rows -> find (fun p : xrow * N => x_height (fst p) =? c) (map mk rows) = Some p ->
  exists k r, nth_error rows k = Some r /\ p = mk r /\ c = h + Z.of_nat k.
Proof.
  induction rows as [|r0 rows IH]; intros h c p Hh Hf; [discriminate|].
  destruct Hh as [Hr Hrest]. simpl in Hf. rewrite Hr in Hf.
  destruct (h =? c) eqn:E.
  - apply Z.eqb_eq in E. injection Hf as Hf. exists 0%nat, r0. repeat split; [now rewrite <- Hf|lia].
  - destruct (IH (h + 1) c p Hrest Hf) as [k [r (H1 & H2 & H3)]].
    exists (S k), r. repeat split; [exact H1|exact H2|lia].
Qed.

(* ------------------------------------------------------------------------------------------ *)
(* the row selection of the export: ORDER BY height of the longest-chain rows                  *)

Fixpoint ssorted (l : list xrow) : Prop :=
  match l with
  | [] => True
  | a :: t => Forall (fun b => x_height a < x_height b) t /\ ssorted t
  end.

Lemma heights_from_above : forall rows h h', heights_from h rows -> h' < h ->
  Forall (fun b => h' < x_height b) rows.
Proof.
  induction rows as [|r rows IH]; intros h h' Hh Hlt; [constructor|].
  destruct Hh as [Hr Hrest]. constructor; [lia|]. apply (IH (h + 1)); [exact Hrest|lia].
Qed.

Lemma heights_from_ssorted : forall rows h, heights_from h rows -> ssorted rows.
Proof.
  induction rows as [|r rows IH]; intros h Hh; [exact I|].
  destruct Hh as [Hr Hrest]. split; [|apply (IH _ Hrest)].
  rewrite Hr. apply (heights_from_above rows (h + 1)); [exact Hrest|lia].
Qed.

Lemma ssorted_split : forall r1 a r2, ssorted (r1 ++ a :: r2) ->
  ssorted (r1 ++ r2) /\ Forall (fun x => x_height x < x_height a) r1 /\
  Forall (fun y => x_height a < x_height y) r2.
Proof.
  induction r1 as [|x r1 IH]; intros a r2 H.
  - simpl in *. destruct H as [Hf Hs]. split; [exact Hs|split; [constructor|exact Hf]].
  - simpl in H. destruct H as [Hf Hs]. destruct (IH a r2 Hs) as (H1 & H2 & H3).
    apply Forall_app in Hf. destruct Hf as [Hf1 Hf2]. inversion Hf2 as [|y l Hxa Hf3]; subst.
    split; [|split].
    + simpl. split; [apply Forall_app; split; assumption|exact H1].
    + constructor; [exact Hxa|exact H2].
    + exact H3.
Qed.

Lemma insert_middle : forall r1 a r2,
  Forall (fun x => x_height x < x_height a) r1 -> Forall (fun y => x_height a < x_height y) r2 ->
  insert_by_height a (r1 ++ r2) = r1 ++ a :: r2.
Proof.
  induction r1 as [|x r1 IH]; intros a r2 H1 H2.
  - simpl. destruct r2 as [|y r2]; [reflexivity|]. inversion H2 as [|y0 l Hy Hr]; subst.
    simpl. assert (E : (x_height a <? x_height y) = true) by (apply Z.ltb_lt; exact Hy). now rewrite E.
  - inversion H1 as [|x0 l Hx Hr]; subst. simpl.
    assert (E : (x_height a <? x_height x) = false) by (apply Z.ltb_ge; lia). rewrite E.
    now rewrite (IH a r2 Hr H2).
Qed.

Lemma insertion_sort_perm : forall l rows, Permutation l rows -> ssorted rows ->
  fold_right insert_by_height [] l = rows.
Proof.
  induction l as [|a l IH]; intros rows Hp Hs.
  - apply Permutation_nil in Hp. now subst.
  - assert (Hin : In a rows) by (apply (Permutation_in a Hp); now left).
    destruct (in_split a rows Hin) as [r1 [r2 Hrows]]. subst rows.
    apply Permutation_cons_app_inv in Hp.
    destruct (ssorted_split r1 a r2 Hs) as (H1 & H2 & H3).
    simpl. rewrite (IH (r1 ++ r2) Hp H1). apply insert_middle; assumption.
Qed.

Theorem export_db_longest : forall (t : table) (rows : list xrow),
  Permutation (map fst (filter (fun p => N.eqb (snd p) st_longest) t)) rows ->
  heights_from 0 rows -> export_db t = export rows.
Proof.
  intros t rows Hp Hh. unfold export_db, longest_of, sort_by_height. f_equal.
  apply insertion_sort_perm; [|apply (heights_from_ssorted rows 0 Hh)].
  eapply Permutation_trans; [apply Permutation_sym, Permutation_rev|exact Hp].
Qed.

(* the exported file is a function of the table being exported, and of its longest-chain rows only:
   no other state enters (earlier exports, what is left in the temporary directory, stale/orphan rows).
   Trivial for the model by its type; the harness observes it on the implementation (xe operations). *)
Theorem export_store_only : forall t1 t2 : table,
  filter (fun p => N.eqb (snd p) st_longest) t1 = filter (fun p => N.eqb (snd p) st_longest) t2 ->
  export_db t1 = export_db t2.
Proof. intros t1 t2 H. unfold export_db, longest_of. now rewrite H. Qed.

(* ------------------------------------------------------------------------------------------ *)
(* start-up                                                                                    *)

Section Startup.
Variable bsz : nat.
Variable ck_height : Z.
Variable ck_hash : N.
Variable genesis : xrow.
Hypothesis bsz_pos : (0 < bsz)%nat.

Let start_old := startup_old hashf bsz ck_height ck_hash genesis.
Let start := startup hashf bsz ck_height ck_hash genesis.

Lemma run_import_good : forall f rows,
  import hashf f = Ok rows ->
  run_import hashf bsz [] (Some f) = (Ok (Z.of_nat (List.length rows)), db_insert_all [] rows).
Proof.
  intros f rows H. destruct f as [|hdr recs]; [discriminate|]. simpl in H.
  destruct (import_recs hashf (List.length hdr) recs ist0) as [[rows1 st1]|] eqn:E; [|discriminate].
  inversion H; subst. unfold run_import.
  rewrite (import_loop_good _ bsz _ recs ist0 [] rows st1 bsz_pos (Nat.lt_succ_diag_r _) E).
  reflexivity.
Qed.

Lemma run_import_bad : forall f, import hashf f = Err -> fst (run_import hashf bsz [] (Some f)) = Err.
Proof.
  intros f H. destruct f as [|hdr recs]; [reflexivity|]. simpl in H. unfold run_import.
  destruct (import_recs hashf (List.length hdr) recs ist0) as [[rows1 st1]|] eqn:E; [discriminate|].
  apply import_loop_bad; [exact bsz_pos|lia|exact E].
Qed.

Lemma import_heights : forall f rows, import hashf f = Ok rows -> heights_from 0 rows.
Proof.
  intros f rows H. destruct f as [|hdr recs]; [discriminate|]. simpl in H.
  destruct (import_recs hashf (List.length hdr) recs ist0) as [[rows1 st1]|] eqn:E; [|discriminate].
  inversion H; subst. apply (import_recs_heights _ _ _ _ _ E).
Qed.

(* a file that imports to [rows] with distinct hashes, at least one row and the checkpoint hash at the
   checkpoint height starts the service on exactly those rows, all on the longest chain *)
Theorem startup_accepts_old : forall f rows r,
  import hashf f = Ok rows -> NoDup (map x_hash rows) ->
  0 <= ck_height -> nth_error rows (Z.to_nat ck_height) = Some r -> x_hash r = ck_hash ->
  start_old true [] (Some f) = (true, map mk rows).
Proof.
  intros f rows r Hi Hnd Hck0 Hnth Hhash. unfold start_old, startup_old.
  rewrite (run_import_good f rows Hi).
  rewrite (db_insert_all_nodup rows [] Hnd) by (intros; reflexivity). simpl app.
  pose proof (import_heights f rows Hi) as Hh.
  assert (Hne : rows <> []) by (intros ->; destruct (Z.to_nat ck_height); discriminate).
  f_equal. unfold validate. rewrite map_length, Z.eqb_refl. unfold max_height.
  rewrite (max_height_from rows 0 0 Hh (Z.le_refl 0) Hne).
  replace (0 + Z.of_nat (List.length rows) - 1 =? Z.of_nat (List.length rows) - 1) with true
    by (symmetry; apply Z.eqb_eq; lia).
  rewrite (heights_unique_from rows 0 Hh). unfold checkpoint_ok.
  pose proof (find_height_nth rows 0 (Z.to_nat ck_height) r Hh Hnth) as Hfind.
  rewrite Z2Nat.id in Hfind by exact Hck0. simpl in Hfind. rewrite Hfind. simpl.
  rewrite Hhash. now rewrite N.eqb_refl.
Qed.

Theorem roundtrip_startup_old : forall rows r,
  chain_ok hashf rows -> Forall fields_ok rows -> NoDup (map x_hash rows) ->
  0 <= ck_height -> nth_error rows (Z.to_nat ck_height) = Some r -> x_hash r = ck_hash ->
  start_old true [] (Some (export rows)) = (true, map mk rows).
Proof.
  intros rows r Hch Hf Hnd H0 Hn Hh. eapply startup_accepts_old; eauto. now apply roundtrip.
Qed.

(* --- refusals --- *)

Lemma import_recs_bad_record : forall ncols recs st,
  Exists (fun rec => good_record ncols rec = false) recs -> import_recs hashf ncols recs st = Err.
Proof.
  induction recs as [|rec recs IH]; intros st H; [inversion H|].
  simpl. destruct (Nat.eqb (List.length rec) ncols) eqn:El; [|reflexivity]. simpl.
  destruct (prepare_record hashf rec st) as [r|] eqn:Ep; [|reflexivity].
  inversion H as [x l Hbad|x l Hrest]; subst.
  - unfold good_record in Hbad. rewrite El in Hbad. simpl in Hbad. unfold prepare_record in Ep.
    destruct (parse_row rec); [discriminate|discriminate].
  - rewrite (IH _ Hrest). reflexivity.
Qed.

Theorem refuses_unimportable_old : forall f, import hashf f = Err -> fst (start_old true [] (Some f)) = false.
Proof.
  intros f H. unfold start_old, startup_old. pose proof (run_import_bad f H) as Hb.
  destruct (run_import hashf bsz [] (Some f)) as [res t']. simpl in Hb. subst res. reflexivity.
Qed.

Theorem refuses_malformed_row_old : forall hdr recs,
  Exists (fun rec => good_record (List.length hdr) rec = false) recs ->
  fst (start_old true [] (Some (hdr :: recs))) = false.
Proof.
  intros hdr recs H. apply refuses_unimportable_old. simpl.
  now rewrite (import_recs_bad_record _ recs ist0 H).
Qed.

Theorem refuses_missing_file_old : start_old true [] None = (false, []) /\ start_old true [] (Some []) = (false, []).
Proof. split; reflexivity. Qed.

Theorem refuses_no_rows_old : forall f, import hashf f = Ok [] -> fst (start_old true [] (Some f)) = false.
Proof.
  intros f H. unfold start_old, startup_old. rewrite (run_import_good f [] H). reflexivity.
Qed.

(* the count check: some row was dropped by ON CONFLICT DO NOTHING *)
Theorem refuses_wrong_count_old : forall f rows,
  import hashf f = Ok rows -> List.length (db_insert_all [] rows) <> List.length rows ->
  fst (start_old true [] (Some f)) = false.
Proof.
  intros f rows H Hlen. unfold start_old, startup_old. rewrite (run_import_good f rows H). unfold validate. simpl.
  assert (E : (Z.of_nat (List.length (db_insert_all [] rows)) =? Z.of_nat (List.length rows)) = false)
    by (apply Z.eqb_neq; lia).
  rewrite E. reflexivity.
Qed.

(* the checkpoint check: no block at the checkpoint height, or a different hash there *)
Theorem refuses_checkpoint_old : forall f rows,
  import hashf f = Ok rows ->
  ~ (exists r, 0 <= ck_height /\ nth_error rows (Z.to_nat ck_height) = Some r /\ x_hash r = ck_hash) ->
  fst (start_old true [] (Some f)) = false.
Proof.
  intros f rows H Hno. unfold start_old, startup_old. rewrite (run_import_good f rows H). unfold validate. simpl fst.
  destruct (Z.of_nat (List.length (db_insert_all [] rows)) =? Z.of_nat (List.length rows)) eqn:Ec; [|reflexivity].
  apply Z.eqb_eq in Ec. apply Nat2Z.inj in Ec.
  rewrite (db_insert_all_full rows [] Ec) in *. simpl app.
  pose proof (import_heights f rows H) as Hh.
  unfold checkpoint_ok.
  destruct (find (fun p : xrow * N => x_height (fst p) =? ck_height) (map mk rows)) as [p|] eqn:Ef;
    [|now rewrite !andb_false_r].
  destruct (find_height_inv rows 0 ck_height p Hh Ef) as [k [r (H1 & H2 & H3)]].
  destruct (N.eqb (x_hash (fst p)) ck_hash) eqn:En; [|now rewrite !andb_false_r].
  exfalso. apply Hno. exists r. apply N.eqb_eq in En. subst p. simpl in En.
  repeat split; [lia| |exact En]. replace (Z.to_nat ck_height) with k by lia. exact H1.
Qed.

(* whatever is accepted on an empty database is a table that matches the file *)
Theorem accepted_is_import_old : forall f t,
  start_old true [] f = (true, t) ->
  exists f' rows, f = Some f' /\ import hashf f' = Ok rows /\ t = map mk rows /\ rows <> [] /\
    exists r, 0 <= ck_height /\ nth_error rows (Z.to_nat ck_height) = Some r /\ x_hash r = ck_hash.
Proof.
  intros f t H. destruct f as [f'|]; [|discriminate].
  destruct (import hashf f') as [rows|] eqn:Hi.
  - exists f', rows. split; [reflexivity|]. split; [exact Hi|].
    destruct (List.length (db_insert_all [] rows) =? List.length rows)%nat eqn:El.
    + apply Nat.eqb_eq in El. pose proof (db_insert_all_full rows [] El) as Hfull. simpl in Hfull.
      assert (Ht : t = map mk rows).
      { unfold start_old, startup_old in H. rewrite (run_import_good f' rows Hi), Hfull in H. now inversion H. }
      split; [exact Ht|].
      assert (Hne : rows <> []).
      { intros ->. pose proof (refuses_no_rows_old f' Hi) as Hr. rewrite H in Hr. discriminate. }
      split; [exact Hne|].
      destruct (Z_lt_le_dec ck_height 0) as [Hneg|Hpos].
      * exfalso. assert (Hr : fst (start_old true [] (Some f')) = false).
        { apply (refuses_checkpoint_old f' rows Hi). intros [r (Hc & _)]. lia. }
        rewrite H in Hr. discriminate.
      * destruct (nth_error rows (Z.to_nat ck_height)) as [r|] eqn:En.
        -- destruct (N.eq_dec (x_hash r) ck_hash) as [Eh|Eh]; [exists r; auto|].
           exfalso. assert (Hr : fst (start_old true [] (Some f')) = false).
           { apply (refuses_checkpoint_old f' rows Hi). intros [r' (_ & Hn' & Hh')]. congruence. }
           rewrite H in Hr. discriminate.
        -- exfalso. assert (Hr : fst (start_old true [] (Some f')) = false).
           { apply (refuses_checkpoint_old f' rows Hi). intros [r' (_ & Hn' & _)]. congruence. }
           rewrite H in Hr. discriminate.
    + apply Nat.eqb_neq in El. pose proof (refuses_wrong_count_old f' rows Hi El) as Hr.
      rewrite H in Hr. discriminate.
  - pose proof (refuses_unimportable_old f' Hi) as Hr. rewrite H in Hr. discriminate.
Qed.

(* --- a database that already holds headers is never overwritten by an import --- *)

Theorem nonempty_untouched_old : forall t f, t <> [] -> start_old true t f = (true, t).
Proof. intros t f Hne. destruct t; [congruence|reflexivity]. Qed.

(* --- the start-up of the code as it is (a refused import removes what it inserted), related to the
       old one: same verdict, same table whenever the start succeeds, nothing left otherwise --- *)

Lemma startup_agrees : forall p t f,
  fst (start p t f) = fst (start_old p t f) /\
  (fst (start_old p t f) = true -> start p t f = start_old p t f) /\
  (fst (start_old p t f) = false -> p = true -> t = [] -> snd (start p t f) = []).
Proof.
  intros p t f. unfold start_old, start, startup_old, startup.
  destruct p; [|repeat split; intros; discriminate].
  destruct t; [|repeat split; intros; discriminate].
  destruct (run_import hashf bsz [] f) as [[count|] t']; simpl.
  - destruct (validate count t' ck_height ck_hash); simpl; repeat split; intros; try discriminate; reflexivity.
  - repeat split; intros; try discriminate; reflexivity.
Qed.

Lemma start_ok_iff : forall p t f t', start p t f = (true, t') <-> start_old p t f = (true, t').
Proof.
  intros p t f t'. destruct (startup_agrees p t f) as (H1 & H2 & _). split; intros H.
  - assert (Ho : fst (start_old p t f) = true) by (rewrite <- H1, H; reflexivity).
    rewrite <- (H2 Ho). exact H.
  - assert (Ho : fst (start_old p t f) = true) by (rewrite H; reflexivity).
    rewrite (H2 Ho). exact H.
Qed.

Lemma refused_nothing_left : forall f, fst (start_old true [] f) = false -> start true [] f = (false, []).
Proof.
  intros f H. destruct (startup_agrees true [] f) as (H1 & _ & H3).
  rewrite H in H1. specialize (H3 H eq_refl eq_refl).
  destruct (start true [] f) as [b t]. simpl in *. now subst.
Qed.

Theorem startup_accepts : forall f rows r,
  import hashf f = Ok rows -> NoDup (map x_hash rows) ->
  0 <= ck_height -> nth_error rows (Z.to_nat ck_height) = Some r -> x_hash r = ck_hash ->
  start true [] (Some f) = (true, map mk rows).
Proof. intros. apply start_ok_iff. eapply startup_accepts_old; eauto. Qed.

Theorem roundtrip_startup : forall rows r,
  chain_ok hashf rows -> Forall fields_ok rows -> NoDup (map x_hash rows) ->
  0 <= ck_height -> nth_error rows (Z.to_nat ck_height) = Some r -> x_hash r = ck_hash ->
  start true [] (Some (export rows)) = (true, map mk rows).
Proof. intros. apply start_ok_iff. eapply roundtrip_startup_old; eauto. Qed.

Theorem refuses_unimportable : forall f, import hashf f = Err -> start true [] (Some f) = (false, []).
Proof. intros f H. apply refused_nothing_left, refuses_unimportable_old, H. Qed.

Theorem refuses_malformed_row : forall hdr recs,
  Exists (fun rec => good_record (List.length hdr) rec = false) recs ->
  start true [] (Some (hdr :: recs)) = (false, []).
Proof. intros hdr recs H. apply refused_nothing_left, refuses_malformed_row_old, H. Qed.

(* ... at ANY index: in particular the first row of a batch (index k * bsz), where the batch that
   fails has made no progress at all *)
Theorem refuses_bad_row_any_index : forall hdr recs i bad,
  nth_error recs i = Some bad -> good_record (List.length hdr) bad = false ->
  start true [] (Some (hdr :: recs)) = (false, []).
Proof.
  intros hdr recs i bad Hn Hb. apply refuses_malformed_row. apply Exists_exists.
  exists bad. split; [eapply nth_error_In; exact Hn|exact Hb].
Qed.

Theorem refuses_missing_file : start true [] None = (false, []) /\ start true [] (Some []) = (false, []).
Proof. split; reflexivity. Qed.

Theorem refuses_no_rows : forall f, import hashf f = Ok [] -> start true [] (Some f) = (false, []).
Proof. intros f H. apply refused_nothing_left, refuses_no_rows_old, H. Qed.

Theorem refuses_wrong_count : forall f rows,
  import hashf f = Ok rows -> List.length (db_insert_all [] rows) <> List.length rows ->
  start true [] (Some f) = (false, []).
Proof. intros f rows H Hl. apply refused_nothing_left. eapply refuses_wrong_count_old; eauto. Qed.

Theorem refuses_checkpoint : forall f rows,
  import hashf f = Ok rows ->
  ~ (exists r, 0 <= ck_height /\ nth_error rows (Z.to_nat ck_height) = Some r /\ x_hash r = ck_hash) ->
  start true [] (Some f) = (false, []).
Proof. intros f rows H Hn. apply refused_nothing_left. eapply refuses_checkpoint_old; eauto. Qed.

Theorem accepted_is_import : forall f t,
  start true [] f = (true, t) ->
  exists f' rows, f = Some f' /\ import hashf f' = Ok rows /\ t = map mk rows /\ rows <> [] /\
    exists r, 0 <= ck_height /\ nth_error rows (Z.to_nat ck_height) = Some r /\ x_hash r = ck_hash.
Proof. intros f t H. apply accepted_is_import_old. apply start_ok_iff. exact H. Qed.

Theorem nonempty_untouched : forall t f, t <> [] -> start true t f = (true, t).
Proof. intros t f Hne. destruct t; [congruence|reflexivity]. Qed.

(* a refused import leaves nothing behind ... *)
Theorem refused_leaves_nothing : forall f t, start true [] f = (false, t) -> t = [].
Proof.
  intros f t H. unfold start, startup in H.
  destruct (run_import hashf bsz [] f) as [[count|] t'].
  - destruct (validate count t' ck_height ck_hash); inversion H; reflexivity.
  - inversion H; reflexivity.
Qed.

(* ... so a later start on the same database neither skips the import nor the validation: it behaves
   exactly as a start on a fresh database with the file it is given *)
Theorem second_start_revalidates : forall f1 t1, start true [] f1 = (false, t1) ->
  forall f2, start true t1 f2 = start true [] f2.
Proof. intros f1 t1 H f2. now rewrite (refused_leaves_nothing f1 t1 H). Qed.

Theorem second_start : second_start_sound start.
Proof.
  intros f1 t1 H1 f2 t2 H2. rewrite (second_start_revalidates f1 t1 H1) in H2. exact H2.
Qed.

End Startup.
End WithHash.

Definition demo_hash (s : src) : N := (s_prev s * 1000 + Z.to_N (s_nonce s) + 1)%N.
Definition demo_genesis : xrow :=
  {| x_hash := 8; x_prev := 0; x_height := 0; x_version := 1; x_merkle := 5; x_ts := 1231006505;
     x_bits := 545259519; x_nonce := 7; x_work := 2; x_cum := 2 |}.
Definition demo_rec (nonce : string) : record :=
  ["1"; "aa"; nonce; "545259519"; "1231006505"]%string.

Definition demo_good_file : file := [header_line; demo_rec "7"; demo_rec "8"]%string.

(* ------------------------------------------------------------------------------------------ *)
(* the hypotheses are satisfiable: a concrete chain with extreme field values                  *)

Definition demo_chain : list xrow :=
  let r0 := {| x_hash := 8; x_prev := 0; x_height := 0; x_version := 1; x_merkle := 5; x_ts := 1231006505;
               x_bits := 545259519; x_nonce := 7; x_work := 2; x_cum := 2 |} in
  let r1 := {| x_hash := 8001; x_prev := 8; x_height := 1; x_version := - 2 ^ 31; x_merkle := 2 ^ 256 - 1; x_ts := 0;
               x_bits := 4294967295; x_nonce := 0; x_work := 0; x_cum := 2 |} in
  let r2 := {| x_hash := 4302968296; x_prev := 8001; x_height := 2; x_version := 2 ^ 31 - 1; x_merkle := 0; x_ts := 2 ^ 32 - 1;
               x_bits := 486604799; x_nonce := 4294967295; x_work := 4295032833; x_cum := 4295032835 |} in
  [r0; r1; r2].

Example demo_chain_ok : chain_ok demo_hash demo_chain /\ Forall fields_ok demo_chain /\
                        NoDup (map x_hash demo_chain).
Proof.
  split; [|split].
  - apply chain_okb_ok. vm_compute. reflexivity.
  - repeat constructor; apply fields_okb_ok; vm_compute; reflexivity.
  - repeat constructor; simpl; intuition discriminate.
Qed.

Example demo_roundtrip :
  startup demo_hash 2 2 4302968296%N demo_genesis true [] (Some (export demo_chain)) =
  (true, map (fun r => (r, st_longest)) demo_chain).
Proof. vm_compute. reflexivity. Qed.

(* stale and orphan rows of the source table are not exported; the order is by height *)
Example demo_export_db :
  let r := fun i => nth i demo_chain demo_genesis in
  export_db [(r 0%nat, st_longest); (demo_genesis, st_stale); (r 2%nat, st_longest); (demo_genesis, st_orphan); (r 1%nat, st_longest)]
  = export demo_chain.
Proof. vm_compute. reflexivity. Qed.

(* the count check needs a hash collision: with a constant hash function the second row is dropped *)
Example demo_wrong_count :
  startup (fun _ => 8%N) 2 0 8%N demo_genesis true [] (Some demo_good_file) = (false, []).
Proof. vm_compute. reflexivity. Qed.

(* batches of 2, the malformed record is the first one of the second batch, the checkpoint (height 0) is
   below it and matches: refused by the reader alone, nothing stays *)
Example demo_bad_first_row_of_batch :
  startup demo_hash 2 0 8%N demo_genesis true []
    (Some [header_line; demo_rec "7"; demo_rec "8"; demo_rec "x"; demo_rec "9"]%string) = (false, []) /\
  fst (startup demo_hash 2 0 8%N demo_genesis true []
    (Some [header_line; demo_rec "7"; demo_rec "8"]%string)) = true.
Proof. split; vm_compute; reflexivity. Qed.

Example demo_refused_forms :
  parse_int 32 "2147483648" = None /\ parse_int 32 "-2147483648" = Some (- 2 ^ 31) /\ parse_int 32 "+7" = Some 7 /\
  parse_int 32 "" = None /\ parse_int 32 "-" = None /\ parse_int 32 "1_0" = None /\ parse_int 32 " 1" = None /\
  parse_uint 32 "4294967296" = None /\ parse_uint 32 "4294967295" = Some (2 ^ 32 - 1) /\ parse_uint 32 "+5" = None /\
  parse_uint 32 "-1" = None /\ parse_uint 32 "007" = Some 7 /\
  parse_int 64 "9223372036854775808" = None /\ parse_int 64 "-9223372036854775808" = Some (- 2 ^ 63) /\
  parse_hash "" = Some 0%N /\ parse_hash "zz" = None /\ parse_hash "AbC" = Some 2748%N.
Proof. vm_compute. repeat split; reflexivity. Qed.
