(* Model of the experimental sync engine: one Peer of internal/transports/p2p/peer (peer.go, checkpoint.go)
   as driven by internal/transports/p2p/server.go (connectPeer: Connect, StartHeadersSync).  Definitions only.
   Mirrors the code AS IT IS:
     - latestHash is never assigned a non-nil value, so isSynced is "latestHeight == tip height";
     - syncedCheckpoints is never set: inv and getheaders are ignored (the branches behind the flag are modelled,
       no transition sets the flag);
     - there is no duplicate-request filter and no ban (TODO in the source): a rejected header only disconnects. *)
From Coq Require Import ZArith NArith List Bool.
From BHS Require Import Work Store Chain SyncNode.
Import ListNotations.
Open Scope Z_scope.

Record ecfg := { x_cps : list cp;              (* chainParams.Checkpoints *)
                 x_forb : list N }.            (* chainParams.HeadersToIgnore *)

Record estate := { e_cur : cursor;             (* checkpoint.currentIndex / currentCheckpoint *)
                   e_shm : bool;               (* sendHeadersMode *)
                   e_sc : bool;                (* syncedCheckpoints: initially false, no transition changes it *)
                   e_latest : Z;               (* latestHeight *)
                   e_conn : bool;
                   e_store : store }.

Definition e_with (st : estate) (cur : cursor) (shm : bool) (latest : Z) (conn : bool) (s : store) : estate :=
  {| e_cur := cur; e_shm := shm; e_sc := e_sc st; e_latest := latest; e_conn := conn; e_store := s |}.

(* requestHeaders / writeGetHeadersMsg *)
Definition e_request (p : N) (cur : cursor) (s : store) : list eff :=
  match cur with
  | None => [GetHeaders p (locator s) 0%N]
  | Some (_, (_, cid)) => [GetHeaders p (locator s) cid]
  end.

(* NewPeer + Connect (the version message gives latestHeight) + StartHeadersSync *)
Definition e_start (cfg : ecfg) (p : N) (lb : Z) (s : store) : estate * list eff :=
  let cur := new_cursor (x_cps cfg) (tip_height s) in
  ({| e_cur := cur; e_shm := false; e_sc := false; e_latest := lb; e_conn := true; e_store := s |}, e_request p cur s).

Inductive eres := EDoneL (s : store) (cur : cursor) (n : nat) (lasth : Z) | EStop (s : store) (cur : cursor).
Fixpoint eloop (cfg : ecfg) (s : store) (cur : cursor) (n : nat) (lasth : Z) (hs : list src) : eres :=
  match hs with
  | [] => EDoneL s cur n lasth
  | h :: r =>
    match add (x_forb cfg) s h with
    | (s', Duplicate) => eloop cfg s' cur n lasth r
    | (s', Forbidden) => EStop s' cur
    | (s', ErrNoTip) => eloop cfg s' cur n lasth r
    | (s', Stored x) =>
      let hh := height (create_header s h) in
      (* a26f54a: compared with the configured checkpoint at its height before the longest-chain test *)
      if contradicts (x_cps cfg) x hh (s_id h) then EStop s' cur else
      match x with
      | Longest =>
        match verify_advance (x_cps cfg) cur hh (s_id h) with
        | VErr => EStop s' cur
        | VOk cur' => eloop cfg s' cur' (S n) hh r
        end
      | _ => eloop cfg s' cur n lasth r
      end
    end
  end.

(* handleHeadersMsg *)
Definition e_on_headers (cfg : ecfg) (p : N) (st : estate) (hs : list src) : estate * list eff :=
  match eloop cfg (e_store st) (e_cur st) O 0 hs with
  | EStop s' cur' => (e_with st cur' (e_shm st) (e_latest st) false s', if e_conn st then [Disconnect p] else [])
  | EDoneL s' cur' n lasth =>
    match n with
    | O => (e_with st cur' (e_shm st) (e_latest st) (e_conn st) s', [])
    | S _ =>
      let latest := Z.max (e_latest st) lasth in
      if e_shm st then (e_with st cur' true latest (e_conn st) s', [])
      else if latest =? tip_height s' then (e_with st cur' true latest (e_conn st) s', [SendHdrs p])
      else (e_with st cur' false latest (e_conn st) s', e_request p cur' s')
    end
  end.

(* handleInvMsg *)
Definition e_on_inv (cfg : ecfg) (p : N) (st : estate) (l : list (bool * N)) : estate * list eff :=
  if negb (e_sc st) then (st, [])
  else match last_block l with
       | None => (st, [])
       | Some h => match by_hash (e_store st) h with
                   | Some _ => (st, [])
                   | None => (st, [GetHeaders p (locator (e_store st)) h])
                   end
       end.

(* handleGetHeadersMsg *)
Definition e_on_getheaders (cfg : ecfg) (p : N) (st : estate) : estate * list eff :=
  if negb (e_sc st) then (st, []) else (st, [Serve p]).

Inductive xevent := XHeaders (hs : list src) | XInv (l : list (bool * N)) | XGetHeaders.
Definition e_step (cfg : ecfg) (p : N) (st : estate) (e : xevent) : estate * list eff :=
  match e with
  | XHeaders hs => e_on_headers cfg p st hs
  | XInv l => e_on_inv cfg p st l
  | XGetHeaders => e_on_getheaders cfg p st
  end.
