(* C04 - GetHeaderAncestorsByHash: the recursive CTEs on height-consistent walks, and the ancestors theorem. *)
From Coq Require Import ZArith NArith List Lia Bool.
From BHS Require Import Work Store Chain ChainSpec StoreProofs ChainInv ChainAdd ChainMain Query QueryProofs.
Import ListNotations.
Open Scope Z_scope.

(* ---------------- take_while / find ---------------- *)
Lemma take_while_incl {A} (p : A -> bool) l : incl (take_while p l) l.
Proof.
  induction l as [|a l IH]; cbn; [apply incl_refl|].
  destruct (p a); [apply incl_cons; [left; reflexivity| apply incl_tl, IH]| intros x []].
Qed.

Lemma take_while_app_stop {A} (p : A -> bool) l1 r l2 :
  (forall y, In y l1 -> p y = true) -> p r = false -> take_while p (l1 ++ r :: l2) = l1.
Proof.
  induction l1 as [|a l1 IH]; intros H Hr; cbn; [rewrite Hr; reflexivity|].
  rewrite (H a (or_introl eq_refl)). f_equal. apply IH; [intros y Hy; apply H; right; exact Hy| exact Hr].
Qed.

Lemma find_take_while {A} (keep P : A -> bool) l1 r l2 :
  (forall y, In y l1 -> keep y = true /\ P y = false) -> keep r = true -> P r = true ->
  find P (take_while keep (l1 ++ r :: l2)) = Some r.
Proof.
  induction l1 as [|a l1 IH]; intros H Hk HP; cbn.
  - rewrite Hk. cbn. rewrite HP. reflexivity.
  - destruct (H a (or_introl eq_refl)) as [H1 H2]. rewrite H1. cbn. rewrite H2.
    apply IH; [intros y Hy; apply H; right; exact Hy| exact Hk| exact HP].
Qed.

(* ---------------- the shape of a regular walk ---------------- *)
Lemma walk_head s t x : by_hash s t = Some x -> exists rest, walk (fuel_of s) s t = x :: rest.
Proof. intros E. unfold fuel_of. rewrite walk_S, E. eexists; reflexivity. Qed.

Lemma walk_before s t x l1 r l2 : regular s t -> by_hash s t = Some x ->
  walk (fuel_of s) s t = l1 ++ r :: l2 -> forall y, In y l1 -> height r < height y.
Proof.
  intros HR E HW y Hy.
  assert (Hr: nth_error (walk (fuel_of s) s t) (length l1) = Some r).
  { rewrite HW, nth_error_app2 by lia. rewrite Nat.sub_diag. reflexivity. }
  destruct (In_nth_error _ _ Hy) as [i Hi].
  assert (Hlt: (i < length l1)%nat) by (apply nth_error_Some; congruence).
  assert (Hy': nth_error (walk (fuel_of s) s t) i = Some y) by (rewrite HW, nth_error_app1 by exact Hlt; exact Hi).
  rewrite (walk_nth_height s _ t x _ r HR E Hr), (walk_nth_height s _ t x _ y HR E Hy'). lia.
Qed.

(* ---------------- sqlSelectAncestorOnHeight = the ancestor of that height ---------------- *)
Lemma aoh_sound s t h r : ancestor_on_height s t h = Some r -> reach s t r /\ height r = h.
Proof.
  unfold ancestor_on_height, cte_rows. intros H. apply find_some in H. destruct H as [Hin Hh].
  apply Z.eqb_eq in Hh. split; [|exact Hh].
  apply (walk_reach s (fuel_of s)).
  destruct (walk (fuel_of s) s t) as [|x rest]; [inversion Hin|].
  destruct Hin as [<-|Hin]; [left; reflexivity| right; apply (take_while_incl _ _ _ Hin)].
Qed.

Lemma aoh_complete s t h r : regular s t -> reach s t r -> height r = h -> ancestor_on_height s t h = Some r.
Proof.
  intros HR Hr Hh. pose proof (proj1 (reach_iff_walk s t r HR) Hr) as Hin.
  unfold ancestor_on_height, cte_rows.
  destruct (walk (fuel_of s) s t) as [|x rest] eqn:EW; [inversion Hin|].
  assert (E: by_hash s t = Some x).
  { unfold fuel_of in EW. rewrite walk_S in EW. destruct (by_hash s t); [inversion EW; reflexivity| discriminate]. }
  cbn [find]. destruct (Z.eqb_spec (height x) h) as [Hx|Hx].
  - f_equal. apply (reach_height_inj s t x r HR); [apply reach_here; exact E| exact Hr| lia].
  - destruct Hin as [->|Hin]; [lia|].
    destruct (in_split _ _ Hin) as (l1 & l2 & El). rewrite El. apply find_take_while.
    + intros y Hy.
      assert (Hlt: height r < height y).
      { apply (walk_before s t x (x :: l1) r l2 HR E); [rewrite EW, El; reflexivity| right; exact Hy]. }
      split; [apply Z.leb_le; lia| apply Z.eqb_neq; lia].
    + apply Z.leb_le. lia.
    + apply Z.eqb_eq. exact Hh.
Qed.

Lemma aoh_iff s t h r : regular s t -> (ancestor_on_height s t h = Some r <-> reach s t r /\ height r = h).
Proof. intros HR. split; [apply aoh_sound| intros [H1 H2]; apply aoh_complete; assumption]. Qed.

(* ---------------- paths ---------------- *)
Lemma walk_path s f : forall a pre y post, walk f s a = pre ++ y :: post -> path s a (id y) (pre ++ [y]).
Proof.
  induction f as [|f IH]; intros a pre y post H; [destruct pre; discriminate|].
  rewrite walk_S in H. destruct (by_hash s a) as [x|] eqn:E; [|destruct pre; discriminate].
  destruct pre as [|x' pre]; cbn in H; inversion H; subst.
  - cbn. destruct (by_hash_in _ _ _ E) as [_ Hid]. rewrite Hid. apply path_end. exact E.
  - cbn. eapply path_cons; [exact E| apply (IH (prev x') pre y post H2)].
Qed.

Lemma path_reach s a0 b0 p0 : path s a0 b0 p0 -> exists rb, by_hash s b0 = Some rb /\ reach s a0 rb /\ last p0 rb = rb /\ p0 <> [].
Proof.
  induction 1 as [a x E | a b x p E _ (rb & Hb & Hr & Hl & Hne)].
  - exists x. repeat split; [exact E| apply reach_here; exact E| discriminate].
  - exists rb. repeat split; [exact Hb| eapply reach_next; eassumption| | discriminate].
    destruct p as [|y p]; [contradiction| exact Hl].
Qed.

Lemma path_heights s a0 b0 p0 : path s a0 b0 p0 -> regular s a0 -> forall x rb, by_hash s a0 = Some x -> by_hash s b0 = Some rb ->
  height rb = height x - Z.of_nat (length p0) + 1.
Proof.
  induction 1 as [a x E | a b x p E Hp IH]; intros HR x0 rb Ex Eb.
  - assert (x0 = x) by congruence. assert (rb = x) by congruence. subst. cbn. lia.
  - assert (x0 = x) by congruence. subst x0.
    destruct (path_reach _ _ _ _ Hp) as (rb' & Hb' & _). assert (rb' = rb) by congruence. subst rb'.
    inversion Hp as [a' y Ey | a' b' y p' Ey _]; subst.
    + rewrite (IH (regular_next s a x HR E) y rb Ey Eb). rewrite (HR x y (reach_here _ _ _ E) Ey).
      cbn [length]. lia.
    + rewrite (IH (regular_next s a x HR E) y rb Ey Eb). rewrite (HR x y (reach_here _ _ _ E) Ey).
      cbn [length]. lia.
Qed.

(* on a regular walk the path between two headers is unique *)
Lemma path_self_len s a0 p0 : path s a0 a0 p0 -> regular s a0 -> length p0 = 1%nat.
Proof.
  intros Hp HR. destruct (path_reach _ _ _ _ Hp) as (rb & Eb & _).
  pose proof (path_heights s a0 a0 p0 Hp HR rb rb Eb Eb). lia.
Qed.

Lemma path_nonempty s a0 b0 p0 : path s a0 b0 p0 -> p0 <> [].
Proof. intros Hp. destruct (path_reach _ _ _ _ Hp) as (_ & _ & _ & _ & H). exact H. Qed.

Lemma path_head s a0 b0 p0 : path s a0 b0 p0 -> exists x p', p0 = x :: p' /\ by_hash s a0 = Some x /\ (p' = [] \/ path s (prev x) b0 p').
Proof.
  intros Hp. inversion Hp as [a' y Ey | a' b' y q' Ey Hq']; subst.
  - exists y, []. auto.
  - exists y, q'. auto.
Qed.

Lemma path_unique s a0 b0 p0 : path s a0 b0 p0 -> regular s a0 -> forall q, path s a0 b0 q -> p0 = q.
Proof.
  induction 1 as [a x E | a b x p E Hp IH]; intros HR q Hq.
  - pose proof (path_self_len s a q Hq HR) as Hl.
    destruct (path_head _ _ _ _ Hq) as (y & q' & -> & Ey & _). assert (y = x) by congruence. subst y.
    destruct q'; [reflexivity| cbn in Hl; lia].
  - destruct (path_head _ _ _ _ Hq) as (y & q' & -> & Ey & Hq'). assert (y = x) by congruence. subst y. f_equal.
    destruct Hq' as [->|Hq'].
    + (* q = [x]: then b = a and the first path has length 1 *)
      exfalso. assert (Hba: b = a).
      { inversion Hq as [a' y Ey' | a' b' y q'' Ey' Hq'']; [reflexivity|].
        exfalso. apply (path_nonempty _ _ _ _ Hq''). reflexivity. }
      rewrite Hba in Hp.
      pose proof (path_self_len s a (x :: p) (path_cons s a a x p E Hp) HR) as Hl.
      pose proof (path_nonempty _ _ _ _ Hp). destruct p; [contradiction| cbn in Hl; lia].
    + apply IH; [apply (regular_next s a x HR E)| exact Hq'].
Qed.

(* ---------------- sqlChainBetweenTwoHashes on a regular walk = the path ---------------- *)
Lemma chain_between_path s a b ra rb : NoDup (ids s) -> regular s a ->
  by_hash s a = Some ra -> by_hash s b = Some rb -> reach s a rb -> height rb < height ra ->
  path s a b (chain_between s b a) /\ chain_between s b a <> [].
Proof.
  intros Hnd HR Ea Eb Hr Hlt.
  pose proof (proj1 (reach_iff_walk s a rb HR) Hr) as Hin.
  destruct (walk_head s a ra Ea) as [rest EW]. rewrite EW in Hin.
  destruct Hin as [->|Hin]; [lia|].
  destruct (in_split _ _ Hin) as (l1 & l2 & El).
  destruct (by_hash_in _ _ _ Eb) as [Hrbin Hrbid].
  assert (Htw: take_while (fun p => negb (N.eqb (id p) b)) rest = l1).
  { rewrite El. apply take_while_app_stop.
    - intros y Hy. apply negb_true_iff, N.eqb_neq. intro Eid.
      assert (Hyin: In y s).
      { apply (reach_in s a). apply (walk_reach s (fuel_of s)). rewrite EW, El. right. apply in_or_app. left. exact Hy. }
      assert (y = rb) by (apply (nodup_ids_in s Hnd); auto; congruence). subst y.
      pose proof (walk_before s a ra (ra :: l1) rb l2 HR Ea ltac:(rewrite EW, El; reflexivity) rb (or_intror Hy)). lia.
    - apply negb_false_iff, N.eqb_eq. exact Hrbid. }
  unfold chain_between, cte_rows. rewrite EW, Htw, Eb. split; [|discriminate].
  change ((ra :: l1) ++ [rb]) with ((ra :: l1) ++ [rb]).
  rewrite <- Hrbid. apply (walk_path s (fuel_of s) a (ra :: l1) rb l2). rewrite EW, El. reflexivity.
Qed.

(* ================================================================== the ancestors theorem *)
(* what an answer of GetHeaderAncestorsByHash must be, for stored trees and a height-consistent [a]:
   - [AOk p]: b is a itself (then p = [], the convention pinned by the repository's own unit test) or a proper
     ancestor of a, and p is THE parent-linked path from a down to b;
   - ErrHeaderWithGivenHashes: one of the hashes is not stored;
   - ErrAncestorHashHigher / ErrHeadersNotPartOfTheSameChain: both stored and b is NOT an ancestor-or-self of a;
   - ErrHeadersForGivenRangeNotFound: never. *)
Definition ancestors_answer_ok (s : store) (a b : N) (res : ares) : Prop :=
  match res with
  | AOk p => (a = b /\ p = [] /\ exists ra, by_hash s a = Some ra) \/ (a <> b /\ path s a b p)
  | AErr ENotFound => by_hash s a = None \/ by_hash s b = None
  | AErr ERange => False
  | AErr _ => exists ra rb, by_hash s a = Some ra /\ by_hash s b = Some rb /\ ~ reach s a rb
  end.

Theorem ancestors_spec_wf s a b : wf s -> regular s a -> ancestors_answer_ok s a b (ancestors s a b).
Proof.
  intros Hwf0 HR. pose proof (wf_nodup s Hwf0) as Hnd.
  unfold ancestors, ancestors_gen.
  destruct (by_hash s a) as [ra|] eqn:Ea; [|cbn; left; exact Ea].
  destruct (by_hash s b) as [rb|] eqn:Eb; [|cbn; right; exact Eb].
  destruct (by_hash_in _ _ _ Ea) as [Hrain Hraid]. destruct (by_hash_in _ _ _ Eb) as [Hrbin Hrbid].
  destruct (Z.ltb_spec (height ra) (height rb)) as [Hhi|Hhi].
  - cbn. exists ra, rb. repeat split; try assumption. intro Hr.
    pose proof (reach_height_le s a ra rb HR Ea Hr). lia.
  - destruct (Z.eqb_spec (height rb) (height ra)) as [Heq|Hne].
    + cbn [andb]. destruct (N.eqb_spec (id rb) (id ra)) as [Eid|Eid]; cbn.
      * left. repeat split; [congruence| exists ra; exact Ea].
      * exists ra, rb. repeat split; try assumption. intro Hr.
        apply Eid. f_equal. apply (reach_height_inj s a rb ra HR Hr); [apply reach_here; exact Ea| exact Heq].
    + rewrite Hraid.
      destruct (ancestor_on_height s a (height rb)) as [x|] eqn:EA.
      * destruct (N.eqb_spec (id x) (id rb)) as [Eid|Eid].
        -- destruct (aoh_sound s a _ x EA) as [Hxr Hxh].
           assert (x = rb) by (apply (nodup_ids_in s Hnd); auto; apply (reach_in s a); exact Hxr). subst x.
           destruct (chain_between_path s a b ra rb Hnd HR Ea Eb Hxr ltac:(lia)) as [Hp Hne'].
           destruct (chain_between s b a) as [|y l] eqn:EC; [contradiction|].
           cbn. right. split; [|exact Hp]. intro E. subst b. assert (ra = rb) by congruence. subst. lia.
        -- cbn. exists ra, rb. repeat split; try assumption. intro Hr.
           rewrite (aoh_complete s a (height rb) rb HR Hr eq_refl) in EA. inversion EA; subst. contradiction.
      * cbn. exists ra, rb. repeat split; try assumption. intro Hr.
        rewrite (aoh_complete s a (height rb) rb HR Hr eq_refl) in EA. discriminate.
Qed.

(* the iff of the design: Ok exactly when b is an ancestor-or-self of a *)
Theorem ancestors_spec s a b : Valid s -> regular s a -> ancestors_answer_ok s a b (ancestors s a b).
Proof. intros HV. apply ancestors_spec_wf, valid_wf, HV. Qed.

Corollary ancestors_iff_wf s a b : wf s -> regular s a ->
  ((exists p, ancestors s a b = AOk p) <-> exists rb, by_hash s b = Some rb /\ reach s a rb).
Proof.
  intros HV HR. pose proof (ancestors_spec_wf s a b HV HR) as H. split.
  - intros [p Hp]. rewrite Hp in H. cbn in H. destruct H as [(-> & _ & ra & Ea)|(_ & Hpath)].
    + exists ra. split; [exact Ea| apply reach_here; exact Ea].
    + destruct (path_reach _ _ _ _ Hpath) as (rb & Eb & Hr & _). exists rb. auto.
  - intros (rb & Eb & Hr). destruct (ancestors s a b) as [p|e]; [exists p; reflexivity|].
    exfalso. destruct e; cbn in H.
    + destruct H as [H|H]; [|congruence]. inversion Hr; congruence.
    + destruct H as (ra & rb' & _ & Eb' & Hn). apply Hn. congruence.
    + destruct H as (ra & rb' & _ & Eb' & Hn). apply Hn. congruence.
    + exact H.
Qed.

Corollary ancestors_iff s a b : Valid s -> regular s a ->
  ((exists p, ancestors s a b = AOk p) <-> exists rb, by_hash s b = Some rb /\ reach s a rb).
Proof. intros HV. apply ancestors_iff_wf, valid_wf, HV. Qed.

(* History: before the fix ed2f6a2 of /repo the equal-height branch returned [] without comparing the hashes
   (Query.ancestors_before_fix); that model satisfied this statement only for arguments other than two different
   headers of equal height (formerly ancestors_spec_partial) and was refuted on ex_store, a = 2, b = 3
   (formerly ancestors_equal_height_refuted; finding C04-ancestors-equal-height-empty, now "fixed"). *)
Lemma ancestors_before_fix_differs s a b :
  ancestors_before_fix s a b = ancestors s a b \/
  (exists ra rb, by_hash s a = Some ra /\ by_hash s b = Some rb /\ height ra = height rb /\ a <> b /\
                 ancestors_before_fix s a b = AOk [] /\ ancestors s a b = AErr ENotSame).
Proof.
  unfold ancestors, ancestors_before_fix, ancestors_gen.
  destruct (by_hash s a) as [ra|] eqn:Ea; [|left; reflexivity].
  destruct (by_hash s b) as [rb|] eqn:Eb; [|left; reflexivity].
  destruct (height ra <? height rb); [left; reflexivity|].
  destruct (Z.eqb_spec (height rb) (height ra)) as [Heq|Hne]; [|left; reflexivity].
  cbn [andb]. destruct (N.eqb_spec (id rb) (id ra)) as [Eid|Eid]; [left; reflexivity|].
  right. exists ra, rb. repeat split; auto.
  intro E. subst b. apply Eid. congruence.
Qed.
