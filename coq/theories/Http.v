(* C16 - model of the HTTP API handlers of block-headers-service (transports/http/endpoints/api),
   of the error mapping of bhserrors/http_response.go and of the read services they call, AS THE CODE IS.

   The chain store is abstract: the model receives an [env] with the answers of the repository calls the
   handlers make (GetHeaderByHash, GetPreviousHeader, GetAncestorOnHeight ...).  Every theorem quantifies
   over all [env]s; [mkenv] builds a concrete one from a table of rows for the correspondence check.

   A request is a route plus argument CLASSES (the Go harness concretises each class into many HTTP requests
   and classifies every concrete request back).  [respond_gen fx] is parameterised by the set of repaired
   call sites [fx]:  [respond] = nothing repaired (the tree as it was found), [respond_fixed] = everything
   repaired (build/proposed-fixes/C16-*.diff), [respond_current] = what the driver uses for the tree at HEAD.

   Definitions only; proofs are in HttpProofs.v. *)
From Coq Require Import ZArith List Bool.
Import ListNotations.
Open Scope Z_scope.

(* ------------------------------------------------------------------------------------------------ *)
(* the abstract store                                                                                 *)

Inductive hstate := Longest | Stale | Orphan.

Record hinfo := { hi_height : Z; hi_state : hstate }.

Record env := {
  e_hdr     : nat -> option hinfo;     (* Headers.GetHeaderByHash of the hash with reference i *)
  e_prev    : nat -> option nat;       (* Headers.GetPreviousHeader *)
  e_anc     : nat -> Z -> option nat;  (* Headers.GetAncestorOnHeight *)
  e_between : nat -> nat -> bool;      (* Headers.GetChainBetweenTwoHashes low high finds at least one row *)
  e_tip     : bool;                    (* there is a LONGEST_CHAIN row (GetTip / MAX(height) succeed) *)
  e_mroot   : nat -> option hstate     (* state of the (first) row whose merkle root has reference i *)
}.

(* ------------------------------------------------------------------------------------------------ *)
(* requests: route x argument classes                                                                 *)

Inductive href := HK (i : nat) | HUnk | HMal.       (* a hash string: known row i / well-formed unknown / malformed *)
Inductive iparam := IMissing | IEmpty | INum (z : Z) | IJunk.  (* a query argument handed to strconv.Atoi *)
Inductive badkind := BadSyntax | BadType | BadEmpty | BadRange | BadForm | BadProto.
Inductive sbody := SList (l : list href) | SNull | SBad (k : badkind).       (* body bound to []string *)
Inductive vbody := VList (n : nat) | VNull | VBad (k : badkind).             (* body bound to []MerkleRootConfirmationRequestItem *)
Inductive uref := UEmpty | UNew | UActive | UInactive.                         (* a webhook url: empty / not registered / registered *)
Inductive wbody := WOk (u : uref) | WPartial (u : uref) | WBad (k : badkind). (* body bound to webhook.Request *)
Inductive mref := MNone | MK (i : nat) | MUnk.                                 (* lastEvaluatedKey *)
Inductive tref := TKnown | TOther.                                             (* token path argument *)

(* server started with auth disabled, or enabled and the class of the Authorization header *)
Inductive auth := AuthOff | AuthNone | AuthBadFmt | AuthUnk | AuthUser | AuthAdmin.

Inductive call :=
| CHeader (h : href)                       (* GET    /chain/header/:hash *)
| CState (h : href)                        (* GET    /chain/header/state/:hash *)
| CByHeight (height count : iparam)        (* GET    /chain/header/byHeight *)
| CAncestors (h a : href)                  (* GET    /chain/header/:hash/:ancestorHash/ancestor *)
| CCommon (b : sbody)                      (* POST   /chain/header/commonAncestor *)
| CTips                                    (* GET    /chain/tip *)
| CTipLongest                              (* GET    /chain/tip/longest *)
| CPeers                                   (* GET    /network/peer *)
| CPeerCount                               (* GET    /network/peer/count *)
| CMerkleRoots (batch : iparam) (last : mref)  (* GET /chain/merkleroot *)
| CVerify (b : vbody)                      (* POST   /chain/merkleroot/verify *)
| CWhPost (b : wbody)                      (* POST   /webhook *)
| CWhGet (u : uref)                        (* GET    /webhook *)
| CWhDel (u : uref)                        (* DELETE /webhook *)
| CAccGet                                  (* GET    /access *)
| CAccPost                                 (* POST   /access *)
| CAccDel (t : tref).                      (* DELETE /access/:token *)

Record request := { q_auth : auth; q_call : call }.

(* ------------------------------------------------------------------------------------------------ *)
(* responses                                                                                          *)

Inductive errcode :=
| ErrUnknown                       (* "error-unknown": the error is not an ExtendedError -> 500 *)
| ErrBindBody | ErrMissingAuthHeader | ErrInvalidAuthHeader | ErrInvalidAccessToken | ErrUnauthorized
| ErrAdminTokenNotFound | ErrMerkleRootNotFound | ErrMerkleRootNotInLongestChain | ErrInvalidBatchSize
| ErrGetChainTipHeight | ErrVerifyMerklerootsBadBody | ErrTokenNotFound | ErrAncestorHashHigher | ErrAncestorNotFound
| ErrHeadersNotPartOfTheSameChain | ErrHeaderWithGivenHashes | ErrHeaderNotFound | ErrHeadersForGivenRangeNotFound
| ErrURLBodyRequired | ErrURLParamRequired | ErrWebhookNotFound | ErrRefreshWebhook
| ErrInvalidHeightParam.           (* introduced by proposed fix C16-1 *)

(* bhserrors/definitions.go *)
Definition status_of (c : errcode) : Z :=
  match c with
  | ErrUnknown => 500
  | ErrBindBody => 400
  | ErrMissingAuthHeader | ErrInvalidAuthHeader | ErrInvalidAccessToken | ErrUnauthorized | ErrAdminTokenNotFound => 401
  | ErrMerkleRootNotFound => 404
  | ErrMerkleRootNotInLongestChain => 409
  | ErrInvalidBatchSize | ErrGetChainTipHeight | ErrVerifyMerklerootsBadBody => 400
  | ErrTokenNotFound => 404
  | ErrAncestorHashHigher | ErrAncestorNotFound | ErrHeadersNotPartOfTheSameChain | ErrHeaderWithGivenHashes => 400
  | ErrHeaderNotFound | ErrHeadersForGivenRangeNotFound => 404
  | ErrURLBodyRequired | ErrURLParamRequired => 400
  | ErrWebhookNotFound => 404
  | ErrRefreshWebhook => 400
  | ErrInvalidHeightParam => 400
  end.

(* one JSON document of a response body *)
Inductive doc :=
| DErr (c : errcode)   (* an object with a code and a message *)
| DStr                 (* a bare JSON string *)
| DVal.                (* any other JSON value (the success payloads) *)

(* which tables a request changed *)
Inductive effect := EffNone | EffTokens | EffWebhooks | EffHeaders.

Record response := { r_status : Z; r_body : list doc; r_eff : effect }.

(* gin's response writer: the status of the FIRST write goes on the wire, every c.JSON appends a document;
   (s, None) is a header-only write (c.AbortWithError / c.Status / the recovery middleware). *)
Definition write := (Z * option doc)%type.

Definition errw (c : errcode) : write := (status_of c, Some (DErr c)).
Definition okw (d : doc) : write := (200, Some d).
Definition panicw : list write := [(500, None)].   (* a panic in the handler, answered by gin.Recovery *)

Fixpoint docs_of (ws : list write) : list doc :=
  match ws with
  | [] => []
  | (_, Some d) :: t => d :: docs_of t
  | (_, None) :: t => docs_of t
  end.

Definition finish (ws : list write) (eff : effect) : response :=
  {| r_status := match ws with (s, _) :: _ => s | [] => 200 end; r_body := docs_of ws; r_eff := eff |}.

(* ------------------------------------------------------------------------------------------------ *)
(* argument handling                                                                                  *)

(* strconv.Atoi on a 64-bit platform *)
Definition atoi (p : iparam) : option Z :=
  match p with
  | INum z => if (- 2^63 <=? z) && (z <? 2^63) then Some z else None
  | _ => None
  end.

Definition lookup (e : env) (h : href) : option (nat * hinfo) :=
  match h with
  | HK i => match e_hdr e i with Some x => Some (i, x) | None => None end
  | _ => None
  end.

(* ------------------------------------------------------------------------------------------------ *)
(* service/header_service.go GetCommonAncestor                                                        *)

Inductive ca_result := CAHeader (i : nat) | CANil | CAErr (c : errcode) | CAPanic.

(* runs [step] at most p times, stopping at the first [inr] (a loop with an early return) *)
Fixpoint iter_until {A B : Type} (p : positive) (step : A -> A + B) (a : A) : A + B :=
  match p with
  | xH => step a
  | xO p' => match iter_until p' step a with
             | inl a' => iter_until p' step a'
             | inr b => inr b
             end
  | xI p' => match step a with
             | inl a' => match iter_until p' step a' with
                         | inl a'' => iter_until p' step a''
                         | inr b => inr b
                         end
             | inr b => inr b
             end
  end.

Definition max_int32 : Z := 2147483647.

(* first loop: fetch every header, keep the minimum height *)
Fixpoint ca_fetch (e : env) (l : list href) (min : Z) : (list nat * Z) + errcode :=
  match l with
  | [] => inl ([], min)
  | h :: t =>
    match lookup e h with
    | None => inr ErrHeaderNotFound
    | Some (i, x) =>
      match ca_fetch e t (if hi_height x <? min then hi_height x else min) with
      | inl (is, m) => inl (i :: is, m)
      | inr c => inr c
      end
    end
  end.

Fixpoint map_opt {A B : Type} (f : A -> option B) (l : list A) : option (list B) :=
  match l with
  | [] => Some []
  | x :: t => match f x, map_opt f t with
              | Some y, Some ys => Some (y :: ys)
              | _, _ => None
              end
  end.

(* areAllElementsEqual: every element equals the first one *)
Definition all_equal (l : list nat) : bool :=
  match l with
  | [] => true
  | x :: _ => forallb (Nat.eqb x) l
  end.

Definition ca_step (e : env) (hs : list nat) : list nat + ca_result :=
  if all_equal hs then
    inr (match hs with [] => CAPanic (* headers[0] on an empty slice *) | x :: _ => CAHeader x end)
  else match map_opt (e_prev e) hs with
       | None => inr (CAErr ErrHeaderNotFound)
       | Some hs' => inl hs'
       end.

Definition get_common_ancestor (e : env) (l : list href) : ca_result :=
  match ca_fetch e l max_int32 with
  | inr c => CAErr c
  | inl (hs, height) =>
    if height <? 1 then CANil
    else
      let height := height - 1 in
      match map_opt (fun i => e_anc e i height) hs with
      | None => CAErr ErrAncestorNotFound
      | Some hs' =>
        (* for height >= 0 { ...; height-- } : at most height+1 rounds *)
        match iter_until (Z.to_pos (height + 1)) (ca_step e) hs' with
        | inr r => r
        | inl _ => CANil
        end
      end
  end.

(* ------------------------------------------------------------------------------------------------ *)
(* repaired call sites                                                                                *)

Inductive site :=
| SByHeight      (* getHeaderByHeight: height missing / not an int -> the strconv error is answered as 500 *)
| SCommonEmpty   (* getCommonAncestor: [] or null -> index out of range -> 500 with an empty body *)
| SCommonNil     (* getCommonAncestor: the service returns (nil, nil) (a header of height < 1) -> nil dereference -> 500 *)
| SWebhookBind   (* registerWebhook: no return after the bind error -> a second document (and a webhook may be stored) *)
| SVerifyBind    (* verify: bind error answered with a bare string *)
| SAccessGet.    (* getToken with auth disabled: 400 without a body *)

Record fixes := {
  fx_byheight : bool; fx_common_empty : bool; fx_common_nil : bool;
  fx_webhook : bool; fx_verify : bool; fx_accget : bool
}.

Definition fix_on (fx : fixes) (s : site) : bool :=
  match s with
  | SByHeight => fx_byheight fx
  | SCommonEmpty => fx_common_empty fx
  | SCommonNil => fx_common_nil fx
  | SWebhookBind => fx_webhook fx
  | SVerifyBind => fx_verify fx
  | SAccessGet => fx_accget fx
  end.

Definition no_fixes : fixes := {| fx_byheight := false; fx_common_empty := false; fx_common_nil := false;
                                  fx_webhook := false; fx_verify := false; fx_accget := false |}.
Definition all_fixes : fixes := {| fx_byheight := true; fx_common_empty := true; fx_common_nil := true;
                                   fx_webhook := true; fx_verify := true; fx_accget := true |}.

(* THE SWITCH: which call sites are repaired in /repo at HEAD.  Flip a field to [true] when the corresponding
   build/proposed-fixes/C16-<n>.diff has been applied as a fix: commit (and move the finding to status fixed). *)
Definition current_fixes : fixes := {| fx_byheight := true;      (* C16-1 *)
                                       fx_common_empty := true;  (* C16-2 *)
                                       fx_common_nil := true;    (* C16-3 *)
                                       fx_webhook := true;       (* C16-4 *)
                                       fx_verify := true;        (* C16-5 *)
                                       fx_accget := true |}.     (* C16-6 *)

(* ------------------------------------------------------------------------------------------------ *)
(* middleware: transports/http/auth                                                                   *)

(* TokenMiddleware.ApplyToAPI *)
Definition auth_gate (a : auth) : option errcode :=
  match a with
  | AuthOff => None
  | AuthNone => Some ErrMissingAuthHeader
  | AuthBadFmt => Some ErrInvalidAuthHeader
  | AuthUnk => Some ErrInvalidAccessToken
  | AuthUser | AuthAdmin => None
  end.

(* auth.RequireAdmin (the wrapper is not installed when auth is disabled) *)
Definition admin_gate (a : auth) : option errcode :=
  match a with
  | AuthOff | AuthAdmin => None
  | AuthUser => Some ErrUnauthorized
  | _ => Some ErrAdminTokenNotFound
  end.

(* ------------------------------------------------------------------------------------------------ *)
(* the handlers                                                                                       *)

Definition bind_error : list write := [(400, None)].   (* gin's c.Bind*: AbortWithError(400, err) *)

Definition wbody_bound (b : wbody) : bool * uref :=    (* (bind error?, URL field after binding) *)
  match b with
  | WOk u => (false, u)
  | WPartial u => (true, u)
  | WBad _ => (true, UEmpty)
  end.

Definition handle (fx : fixes) (e : env) (au : auth) (c : call) : list write * effect :=
  match c with
  | CHeader h | CState h =>
    (match lookup e h with Some _ => [okw DVal] | None => [errw ErrHeaderNotFound] end, EffNone)
  | CByHeight height _ =>
    (match atoi height with
     | Some _ => [okw DVal]     (* a missing / unparsable count silently becomes 1 *)
     | None => if fx_byheight fx then [errw ErrInvalidHeightParam] else [errw ErrUnknown]
     end, EffNone)
  | CAncestors h a =>
    (match lookup e h, lookup e a with
     | Some (i, hi), Some (j, ai) =>
       if hi_height ai >? hi_height hi then [errw ErrAncestorHashHigher]
       else if hi_height ai =? hi_height hi then
         (* after fix ed2f6a2: two different headers of equal height are not on the same chain *)
         (if Nat.eqb i j then [okw DVal] else [errw ErrHeadersNotPartOfTheSameChain])
       else match e_anc e i (hi_height ai) with
            | None => [errw ErrHeadersNotPartOfTheSameChain]
            | Some k => if negb (Nat.eqb k j) then [errw ErrHeadersNotPartOfTheSameChain]
                        else if e_between e j i then [okw DVal] else [errw ErrHeadersForGivenRangeNotFound]
            end
     | _, _ => [errw ErrHeaderWithGivenHashes]
     end, EffNone)
  | CCommon b =>
    (match b with
     | SBad _ => bind_error ++ [errw ErrBindBody]
     | SList _ | SNull =>
       let l := match b with SList l => l | _ => [] end in
       if fx_common_empty fx && match l with [] => true | _ => false end then [errw ErrBindBody]
       else match get_common_ancestor e l with
            | CAHeader _ => [okw DVal]
            | CANil => if fx_common_nil fx then [errw ErrAncestorNotFound] else panicw
            | CAErr c => [errw c]
            | CAPanic => panicw
            end
     end, EffNone)
  | CTips => ([okw DVal], EffNone)
  | CTipLongest => (if e_tip e then [okw DVal] else panicw, EffNone)
  | CPeers | CPeerCount => ([okw DVal], EffNone)
  | CMerkleRoots batch last =>
    (match (match batch with IMissing => Some 2000 | _ => atoi batch end) with
     | None => [errw ErrInvalidBatchSize]
     | Some n =>
       if n <? 0 then [errw ErrInvalidBatchSize]
       else
         let page := if e_tip e then [okw DVal] else [errw ErrUnknown] in
         match last with
         | MNone => page
         | MUnk => [errw ErrMerkleRootNotFound]
         | MK i => match e_mroot e i with
                   | None => [errw ErrMerkleRootNotFound]
                   | Some Longest => page
                   | Some _ => [errw ErrMerkleRootNotInLongestChain]
                   end
         end
     end, EffNone)
  | CVerify b =>
    (match b with
     | VBad _ => bind_error ++ (if fx_verify fx then [errw ErrBindBody] else [(400, Some DStr)])
     | VNull | VList O => [errw ErrVerifyMerklerootsBadBody]
     | VList (S _) => if e_tip e then [okw DVal] else [errw ErrGetChainTipHeight]
     end, EffNone)
  | CWhPost b =>
    let '(err, u) := wbody_bound b in
    let w1 := if err then bind_error ++ [errw ErrBindBody] else [] in
    if err && fx_webhook fx then (w1, EffNone)
    else match u with
         | UEmpty => (w1 ++ [errw ErrURLBodyRequired], EffNone)
         | UNew => (w1 ++ [okw DVal], EffWebhooks)              (* inserted *)
         | UActive => (w1 ++ [errw ErrRefreshWebhook], EffNone)
         | UInactive => (w1 ++ [okw DVal], EffWebhooks)         (* re-activated *)
         end
  | CWhGet u =>
    (match u with
     | UEmpty => [errw ErrURLParamRequired]
     | UNew => [errw ErrWebhookNotFound]
     | _ => [okw DVal]
     end, EffNone)
  | CWhDel u =>
    match u with
    | UEmpty => ([errw ErrURLParamRequired], EffNone)
    | UNew => ([errw ErrWebhookNotFound], EffNone)
    | _ => ([okw DStr], EffWebhooks)
    end
  | CAccGet =>
    (match au with
     | AuthOff => if fx_accget fx then [errw ErrTokenNotFound] else [(400, None)]   (* no token in the context *)
     | _ => [okw DVal]
     end, EffNone)
  | CAccPost =>
    match admin_gate au with
    | Some c => ([errw c], EffNone)
    | None => ([okw DVal], EffTokens)
    end
  | CAccDel t =>
    match admin_gate au with
    | Some c => ([errw c], EffNone)
    | None => ([okw DStr], match t with TKnown => EffTokens | TOther => EffNone end)
    end
  end.

Definition respond_gen (fx : fixes) (e : env) (q : request) : response :=
  match auth_gate (q_auth q) with
  | Some c => finish [errw c] EffNone
  | None => let '(ws, eff) := handle fx e (q_auth q) (q_call q) in finish ws eff
  end.

Definition respond : env -> request -> response := respond_gen no_fixes.
Definition respond_fixed : env -> request -> response := respond_gen all_fixes.
Definition respond_current : env -> request -> response := respond_gen current_fixes.

(* ------------------------------------------------------------------------------------------------ *)
(* the property                                                                                       *)

(* calls whose purpose is to change the tokens / webhooks tables *)
Definition mutating (c : call) : bool :=
  match c with
  | CWhPost _ | CWhDel _ | CAccPost | CAccDel _ => true
  | _ => false
  end.

Definition ok_status (s : Z) : Prop := s = 200 \/ s = 201 \/ s = 204 \/ 400 <= s < 500.

Definition c16_ok (q : request) (r : response) : Prop :=
  ok_status (r_status r)                                             (* never a 5xx (nor anything exotic) *)
  /\ (exists d, r_body r = [d])                                      (* exactly one JSON document *)
  /\ (400 <= r_status r -> exists c, r_body r = [DErr c])            (* errors carry a code and a message *)
  /\ r_eff r <> EffHeaders                                           (* the header store is untouched *)
  /\ (r_eff r <> EffNone -> r_status r < 300 /\ mutating (q_call q) = true).  (* nothing is stored by a refused or read-only request *)

(* executable spec oracle: the first violated clause *)
Inductive violation := V5xx | VBadStatus | VNotOneDoc | VUnstructured | VHeadersChanged | VChangedOnError | VChangedByReader.

Definition check (q : request) (r : response) : option violation :=
  let s := r_status r in
  if 500 <=? s then Some V5xx
  else if negb ((s =? 200) || (s =? 201) || (s =? 204) || ((400 <=? s) && (s <? 500))) then Some VBadStatus
  else match r_eff r with
       | EffHeaders => Some VHeadersChanged
       | eff =>
         let changed := match eff with EffNone => false | _ => true end in
         if changed && (300 <=? s) then Some VChangedOnError
         else if changed && negb (mutating (q_call q)) then Some VChangedByReader
         else match r_body r with
              | [d] => if 400 <=? s then match d with DErr _ => None | _ => Some VUnstructured end else None
              | _ => Some VNotOneDoc
              end
       end.

(* the requests on which the code as found violates the property, by call site *)
Definition defect_site (e : env) (q : request) : option site :=
  match auth_gate (q_auth q) with
  | Some _ => None
  | None =>
    match q_call q with
    | CByHeight height _ => match atoi height with None => Some SByHeight | Some _ => None end
    | CCommon (SList []) | CCommon SNull => Some SCommonEmpty
    | CCommon (SList l) => match get_common_ancestor e l with CANil => Some SCommonNil | _ => None end
    | CWhPost b => if fst (wbody_bound b) then Some SWebhookBind else None
    | CVerify (VBad _) => Some SVerifyBind
    | CAccGet => match q_auth q with AuthOff => Some SAccessGet | _ => None end
    | _ => None
    end
  end.

(* ------------------------------------------------------------------------------------------------ *)
(* a concrete env from a table of rows (used by the driver of the correspondence check and by Examples) *)

Record row := { rw_parent : option nat; rw_height : Z; rw_state : hstate }.

Fixpoint anc_walk (rows : list row) (fuel : nat) (i : nat) (h : Z) : option nat :=
  match fuel with
  | O => None
  | S f =>
    match nth_error rows i with
    | None => None
    | Some r =>
      if rw_height r =? h then Some i
      else match rw_parent r with
           | None => None
           | Some p => match nth_error rows p with
                       | Some pr => if h <=? rw_height pr then anc_walk rows f p h else None
                       | None => None
                       end
           end
    end
  end.

Definition is_longest (s : hstate) : bool := match s with Longest => true | _ => false end.

Definition mkenv (rows : list row) : env :=
  {| e_hdr := fun i => match nth_error rows i with
                       | Some r => Some {| hi_height := rw_height r; hi_state := rw_state r |}
                       | None => None
                       end;
     e_prev := fun i => match nth_error rows i with
                        | Some r => match rw_parent r with
                                    | Some p => match nth_error rows p with Some _ => Some p | None => None end
                                    | None => None
                                    end
                        | None => None
                        end;
     e_anc := fun i h => anc_walk rows (S (length rows)) i h;
     e_between := fun lo hi => match nth_error rows lo, nth_error rows hi with None, None => false | _, _ => true end;
     e_tip := existsb (fun r => is_longest (rw_state r)) rows;
     e_mroot := fun i => match nth_error rows i with Some r => Some (rw_state r) | None => None end |}.
