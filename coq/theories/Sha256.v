(* SHA-256 (FIPS 180-4) on byte lists, executable in Gallina.  Definitions only.
   Interface:  sha256 : list N -> list N   (bytes -> 32 bytes),   sha256d = sha256 o sha256.
   32-bit words are N; every addition is masked with N.land (not mod: four times faster once
   extracted).  Known-answer vectors are checked by vm_compute in WireFrameProofs.v. *)
From Coq Require Import NArith List.
Import ListNotations.
Open Scope N_scope.

Definition m32 := 4294967295.
Definition add32 (a b : N) := N.land (a + b) m32.
Definition rotr (x n : N) := N.lor (N.shiftr x n) (N.land (N.shiftl x (32 - n)) m32).
Definition shr (x n : N) := N.shiftr x n.
Definition not32 (x : N) := N.lxor x m32.
Definition ch x y z := N.lxor (N.land x y) (N.land (not32 x) z).
Definition maj x y z := N.lxor (N.lxor (N.land x y) (N.land x z)) (N.land y z).
Definition bsig0 x := N.lxor (N.lxor (rotr x 2) (rotr x 13)) (rotr x 22).
Definition bsig1 x := N.lxor (N.lxor (rotr x 6) (rotr x 11)) (rotr x 25).
Definition ssig0 x := N.lxor (N.lxor (rotr x 7) (rotr x 18)) (shr x 3).
Definition ssig1 x := N.lxor (N.lxor (rotr x 17) (rotr x 19)) (shr x 10).

Definition K : list N := [
 0x428a2f98;0x71374491;0xb5c0fbcf;0xe9b5dba5;0x3956c25b;0x59f111f1;0x923f82a4;0xab1c5ed5;
 0xd807aa98;0x12835b01;0x243185be;0x550c7dc3;0x72be5d74;0x80deb1fe;0x9bdc06a7;0xc19bf174;
 0xe49b69c1;0xefbe4786;0x0fc19dc6;0x240ca1cc;0x2de92c6f;0x4a7484aa;0x5cb0a9dc;0x76f988da;
 0x983e5152;0xa831c66d;0xb00327c8;0xbf597fc7;0xc6e00bf3;0xd5a79147;0x06ca6351;0x14292967;
 0x27b70a85;0x2e1b2138;0x4d2c6dfc;0x53380d13;0x650a7354;0x766a0abb;0x81c2c92e;0x92722c85;
 0xa2bfe8a1;0xa81a664b;0xc24b8b70;0xc76c51a3;0xd192e819;0xd6990624;0xf40e3585;0x106aa070;
 0x19a4c116;0x1e376c08;0x2748774c;0x34b0bcb5;0x391c0cb3;0x4ed8aa4a;0x5b9cca4f;0x682e6ff3;
 0x748f82ee;0x78a5636f;0x84c87814;0x8cc70208;0x90befffa;0xa4506ceb;0xbef9a3f7;0xc67178f2].

Definition H0 : list N :=
 [0x6a09e667;0xbb67ae85;0x3c6ef372;0xa54ff53a;0x510e527f;0x9b05688c;0x1f83d9ab;0x5be0cd19].

(* big-endian 32-bit words of a block *)
Fixpoint words (bs : list N) : list N :=
  match bs with
  | a :: b :: c :: d :: r => (a * 16777216 + b * 65536 + c * 256 + d) :: words r
  | _ => []
  end.

(* message schedule; w = the last 16 words, newest first *)
Fixpoint sched (n : nat) (w : list N) (acc : list N) : list N :=
  match n with
  | O => rev acc
  | S n' =>
    let nw := add32 (add32 (ssig1 (nth 1 w 0)) (nth 6 w 0)) (add32 (ssig0 (nth 14 w 0)) (nth 15 w 0)) in
    sched n' (nw :: firstn 15 w) (nw :: acc)
  end.

Definition schedule (blockw : list N) : list N := blockw ++ sched 48 (rev blockw) [].

Definition round (st : list N) (kw : N * N) : list N :=
  match st with
  | [a;b;c;d;e;f;g;h] =>
    let t1 := add32 (add32 (add32 h (bsig1 e)) (add32 (ch e f g) (fst kw))) (snd kw) in
    let t2 := add32 (bsig0 a) (maj a b c) in
    [add32 t1 t2; a; b; c; add32 d t1; e; f; g]
  | _ => st
  end.

Definition compress (h : list N) (blockw : list N) : list N :=
  let st := fold_left round (combine K (schedule blockw)) h in
  map (fun p => add32 (fst p) (snd p)) (combine h st).

Fixpoint chunks (n : nat) (fuel : nat) (l : list N) : list (list N) :=
  match fuel with
  | O => []
  | S f => match l with [] => [] | _ => firstn n l :: chunks n f (skipn n l) end
  end.

Definition be64 (n : N) : list N :=
  map (fun i => N.land (N.shiftr n (8 * i)) 255) [7;6;5;4;3;2;1;0].

Definition pad (bs : list N) : list N :=
  let l := N.of_nat (length bs) in
  let k := Nat.modulo (64 - Nat.modulo (length bs + 9) 64) 64 in
  bs ++ [128] ++ repeat 0 k ++ be64 (8 * l).

Definition word_bytes (w : N) : list N :=
  map (fun i => N.land (N.shiftr w (8 * i)) 255) [3;2;1;0].

Definition sha256 (bs : list N) : list N :=
  let p := pad bs in
  let blocks := chunks 64 (length p) p in
  flat_map word_bytes (fold_left (fun h b => compress h (words b)) blocks H0).

Definition sha256d (bs : list N) : list N := sha256 (sha256 bs).
