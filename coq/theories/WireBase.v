(* C14 model, part 1: wire primitives of /repo/internal/wire (common.go, netaddress.go,
   invvect.go, blockheader.go).  Definitions only.

   bytes = list N (every element < 256 on the wire; decoders never need that, the
   re-encoding theorems assume it).  A decoder has type  bytes -> res (A * bytes): it returns
   the value and the unread remainder, or the error class the Go code returns.
   io.ReadFull semantics: asking for n > 0 bytes from an exhausted reader is io.EOF, from a
   reader holding 1..n-1 bytes io.ErrUnexpectedEOF; asking for 0 bytes always succeeds. *)
From Coq Require Import NArith ZArith List Bool.
Import ListNotations.
Open Scope N_scope.

Definition bytes := list N.

(* error classes (a small enum; the harness maps Go errors onto the same names) *)
Inductive err : Set :=
| EEOF            (* io.EOF *)
| EUEOF           (* io.ErrUnexpectedEOF *)
| ENonCanon       (* ReadVarInt: non-canonical varint *)
| EStrTooLong     (* ReadVarString: count above maxMessagePayload *)
| EBytesTooLong   (* ReadVarBytes: count above the caller's maxAllowed *)
| ETooMany        (* per-message count limit exceeded ("too many ...") *)
| EDataTooLarge   (* MsgFilterAdd / MsgFilterLoad BsvEncode: data above the type's size limit *)
| EHasTx          (* MsgHeaders: header followed by a non-zero tx count *)
| EUALong         (* MsgVersion: user agent longer than MaxUserAgentLen *)
| EPverLow        (* message invalid for the protocol version *)
| EOversize       (* Read/WriteMessage: above maxMessagePayload *)
| EWrongNet       (* ReadMessage: magic of another network *)
| EBadCmd         (* ReadMessage: command is not valid UTF-8 *)
| EUnknownCmd     (* ReadMessage: unhandled command *)
| ETypeMax        (* Read/WriteMessage: above the type's MaxPayloadLength *)
| EChecksum.      (* ReadMessage: payload checksum failed *)

Inductive res (A : Type) : Type :=
| Ok (a : A)
| Err (e : err).
Arguments Ok {A} a.
Arguments Err {A} e.

Definition bind {A B : Type} (r : res A) (f : A -> res B) : res B :=
  match r with Ok a => f a | Err e => Err e end.

Notation "' pat <- c1 ;; c2" :=
  (bind c1 (fun x => match x with pat => c2 end))
  (at level 61, pat pattern, c1 at next level, right associativity).

(* ---------- raw reads ---------- *)

(* first n bytes and the rest; tail recursive (payloads can be megabytes) *)
Fixpoint take_acc (n : nat) (bs acc : bytes) : option (bytes * bytes) :=
  match n with
  | O => Some (rev_append acc [], bs)
  | S n' => match bs with [] => None | b :: r => take_acc n' r (b :: acc) end
  end.
Definition take (n : nat) (bs : bytes) : option (bytes * bytes) := take_acc n bs [].

(* io.ReadFull of a fixed n *)
Definition read_n (n : nat) (bs : bytes) : res (bytes * bytes) :=
  match n with
  | O => Ok ([], bs)
  | S _ =>
    match bs with
    | [] => Err EEOF
    | _ :: _ => match take n bs with Some p => Ok p | None => Err EUEOF end
    end
  end.

(* io.ReadFull of a count that came from the wire (never converted to nat unless it fits) *)
Definition read_N (n : N) (bs : bytes) : res (bytes * bytes) :=
  if n =? 0 then Ok ([], bs)
  else match bs with
       | [] => Err EEOF
       | _ :: _ =>
         if N.of_nat (length bs) <? n then Err EUEOF
         else match take (N.to_nat n) bs with Some p => Ok p | None => Err EUEOF end
       end.

(* ---------- fixed-width integers ---------- *)

Fixpoint le_enc (k : nat) (v : N) : bytes :=
  match k with
  | O => []
  | S k' => (v mod 256) :: le_enc k' (v / 256)
  end.

Fixpoint le_dec (bs : bytes) : N :=
  match bs with
  | [] => 0
  | b :: r => b + 256 * le_dec r
  end.

Definition be_enc (k : nat) (v : N) : bytes := rev (le_enc k v).
Definition be_dec (bs : bytes) : N := le_dec (rev bs).

Definition read_le (k : nat) (bs : bytes) : res (N * bytes) :=
  '(a, r) <- read_n k bs ;; Ok (le_dec a, r).
Definition read_be (k : nat) (bs : bytes) : res (N * bytes) :=
  '(a, r) <- read_n k bs ;; Ok (be_dec a, r).

(* two's complement views of Go's int32 / int64 / time.Unix seconds *)
Definition to_signed (bits : N) (n : N) : Z :=
  if n <? 2 ^ (bits - 1) then Z.of_N n else (Z.of_N n - Z.of_N (2 ^ bits))%Z.
Definition of_signed (bits : N) (z : Z) : N := Z.to_N (z mod Z.of_N (2 ^ bits)).

(* ---------- varint, varstring ---------- *)

Definition enc_varint (v : N) : bytes :=
  if v <? 0xfd then [v]
  else if v <=? 0xffff then 0xfd :: le_enc 2 v
  else if v <=? 0xffffffff then 0xfe :: le_enc 4 v
  else 0xff :: le_enc 8 v.

Definition dec_varint (bs : bytes) : res (N * bytes) :=
  '(d, r) <- read_le 1 bs ;;
  if d =? 0xff then
    '(v, r') <- read_le 8 r ;; if v <? 0x100000000 then Err ENonCanon else Ok (v, r')
  else if d =? 0xfe then
    '(v, r') <- read_le 4 r ;; if v <? 0x10000 then Err ENonCanon else Ok (v, r')
  else if d =? 0xfd then
    '(v, r') <- read_le 2 r ;; if v <? 0xfd then Err ENonCanon else Ok (v, r')
  else Ok (d, r).

Definition enc_varstring (s : bytes) : bytes := enc_varint (N.of_nat (length s)) ++ s.

(* ReadVarString: the only guard before make([]byte, count) is count <= maxMessagePayload *)
Definition dec_varstring (mmp : N) (bs : bytes) : res (bytes * bytes) :=
  '(c, r) <- dec_varint bs ;;
  if mmp <? c then Err EStrTooLong else read_N c r.

(* ReadVarBytes: count <= maxAllowed is checked before make([]byte, count) *)
Definition dec_varbytes (max : N) (bs : bytes) : res (bytes * bytes) :=
  '(c, r) <- dec_varint bs ;;
  if max <? c then Err EBytesTooLong else read_N c r.

(* ---------- lists of elements ---------- *)

Fixpoint dec_list {A : Type} (dec : bytes -> res (A * bytes)) (n : nat) (bs : bytes)
  : res (list A * bytes) :=
  match n with
  | O => Ok ([], bs)
  | S n' =>
    '(a, r) <- dec bs ;;
    '(l, r') <- dec_list dec n' r ;;
    Ok (a :: l, r')
  end.

(* count varint, limit check, then make([]T, count) and the element loop *)
Definition dec_counted {A : Type} (max : N) (dec : bytes -> res (A * bytes)) (bs : bytes)
  : res (list A * bytes) :=
  '(c, r) <- dec_varint bs ;;
  if max <? c then Err ETooMany else dec_list dec (N.to_nat c) r.

Definition enc_counted {A : Type} (enc : A -> bytes) (l : list A) : bytes :=
  enc_varint (N.of_nat (length l)) ++ flat_map enc l.

(* ---------- hash, net address, inventory vector, block header ---------- *)

Definition HashSize : nat := 32.
Definition dec_hash (bs : bytes) : res (bytes * bytes) := read_n HashSize bs.
Definition zero_hash : bytes := repeat 0 HashSize.

Definition NetAddressTimeVersion : N := 31402.
Definition MultipleAddressVersion : N := 209.

(* Unix() of Go's zero time.Time *)
Definition zero_time : Z := (-62135596800)%Z.

Record netaddr : Type := mk_na { na_ts : Z; na_svc : N; na_ip : bytes; na_port : N }.
Definition empty_na : netaddr := mk_na zero_time 0 [] 0.

Definition v4_prefix : bytes := [0;0;0;0;0;0;0;0;0;0;255;255].
(* net.IP.To16 followed by copy into a zeroed [16]byte *)
Definition ip_to16 (ip : bytes) : bytes :=
  if Nat.eqb (length ip) 4 then v4_prefix ++ ip
  else if Nat.eqb (length ip) 16 then ip
  else repeat 0 16%nat.

Definition has_ts (pver : N) (ts : bool) : bool := ts && (NetAddressTimeVersion <=? pver).

Definition enc_netaddr (pver : N) (ts : bool) (na : netaddr) : bytes :=
  (if has_ts pver ts then le_enc 4 (of_signed 32 (na_ts na)) else []) ++
  le_enc 8 (na_svc na) ++ ip_to16 (na_ip na) ++ be_enc 2 (na_port na).

(* prev_ts: the Timestamp already in the receiving struct (kept when ts is not on the wire) *)
Definition dec_netaddr (pver : N) (ts : bool) (prev_ts : Z) (bs : bytes) : res (netaddr * bytes) :=
  '(t, r0) <- (if has_ts pver ts
               then '(v, r) <- read_le 4 bs ;; Ok (Z.of_N v, r)
               else Ok (prev_ts, bs)) ;;
  '(svc, r1) <- read_le 8 r0 ;;
  '(ip, r2) <- read_n 16 r1 ;;
  '(port, r3) <- read_be 2 r2 ;;
  Ok (mk_na t svc ip port, r3).

Definition netaddr_size (pver : N) (ts : bool) : N := if has_ts pver ts then 30 else 26.

Record invvect : Type := mk_iv { iv_type : N; iv_hash : bytes }.
Definition enc_invvect (iv : invvect) : bytes := le_enc 4 (iv_type iv) ++ iv_hash iv.
Definition dec_invvect (bs : bytes) : res (invvect * bytes) :=
  '(t, r) <- read_le 4 bs ;;
  '(h, r') <- dec_hash r ;;
  Ok (mk_iv t h, r').

Record blockheader : Type :=
  mk_bh { bh_ver : Z; bh_prev : bytes; bh_merkle : bytes; bh_ts : Z; bh_bits : N; bh_nonce : N }.

Definition enc_blockheader (h : blockheader) : bytes :=
  le_enc 4 (of_signed 32 (bh_ver h)) ++ bh_prev h ++ bh_merkle h ++
  le_enc 4 (of_signed 32 (bh_ts h)) ++ le_enc 4 (bh_bits h) ++ le_enc 4 (bh_nonce h).

Definition dec_blockheader (bs : bytes) : res (blockheader * bytes) :=
  '(v, r) <- read_le 4 bs ;;
  '(p, r) <- dec_hash r ;;
  '(m, r) <- dec_hash r ;;
  '(t, r) <- read_le 4 r ;;
  '(b, r) <- read_le 4 r ;;
  '(n, r) <- read_le 4 r ;;
  Ok (mk_bh (to_signed 32 v) p m (Z.of_N t) b n, r).

(* ---------- boolean well-formedness of the primitives ---------- *)

Definition byte_ok (b : N) : bool := b <? 256.
Definition bytes_ok (bs : bytes) : bool := forallb byte_ok bs.
Definition fits (bits : N) (v : N) : bool := v <? 2 ^ bits.
Definition sfits (bits : N) (z : Z) : bool :=
  ((- Z.of_N (2 ^ (bits - 1)) <=? z) && (z <? Z.of_N (2 ^ (bits - 1))))%Z.
Definition ufits_z (bits : N) (z : Z) : bool := ((0 <=? z) && (z <? Z.of_N (2 ^ bits)))%Z.
Definition hash_ok (h : bytes) : bool := Nat.eqb (length h) HashSize.

(* ts_present: whether the timestamp travels (otherwise it must be the zero time the decoder leaves) *)
Definition wf_netaddr (pver : N) (ts : bool) (na : netaddr) : bool :=
  (if has_ts pver ts then ufits_z 32 (na_ts na) else (na_ts na =? zero_time)%Z) &&
  fits 64 (na_svc na) && Nat.eqb (length (na_ip na)) 16 && fits 16 (na_port na).

Definition wf_invvect (iv : invvect) : bool := fits 32 (iv_type iv) && hash_ok (iv_hash iv).

Definition wf_blockheader (h : blockheader) : bool :=
  sfits 32 (bh_ver h) && hash_ok (bh_prev h) && hash_ok (bh_merkle h) &&
  ufits_z 32 (bh_ts h) && fits 32 (bh_bits h) && fits 32 (bh_nonce h).
