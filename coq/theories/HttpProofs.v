(* C16 - proofs about the Http model. *)
From Coq Require Import ZArith List Bool Lia ZifyBool.
From BHS Require Import Http.
Import ListNotations.
Open Scope Z_scope.

(* ------------------------------------------------------------------------------------------------ *)
(* the executable oracle decides the declarative property                                             *)

Ltac fin_ok :=
  first [ assumption | lia | discriminate | (eexists; reflexivity)
        | (intros; eexists; reflexivity)
        | (intros Hne; exfalso; apply Hne; reflexivity) ].

Lemma check_iff : forall q r, check q r = None <-> c16_ok q r.
Proof.
  intros q r. unfold check, c16_ok, ok_status.
  destruct r as [s body eff]; cbn [r_status r_body r_eff].
  destruct (500 <=? s) eqn:H5.
  { split; [discriminate|]. intros [Hs _]. lia. }
  destruct (negb ((s =? 200) || (s =? 201) || (s =? 204) || ((400 <=? s) && (s <? 500)))) eqn:Hst.
  { split; [discriminate|]. intros [Hs _]. lia. }
  assert (Hok : s = 200 \/ s = 201 \/ s = 204 \/ 400 <= s < 500) by lia.
  destruct eff.
  - (* EffNone *)
    cbn [andb].
    destruct body as [|d [|d' t]].
    + split; [discriminate|]. intros (_ & [d Hd] & _). discriminate.
    + destruct (400 <=? s) eqn:H4.
      * destruct d as [c| |].
        -- split; [intros _|reflexivity].
           refine (conj _ (conj _ (conj _ (conj _ _)))); fin_ok.
        -- split; [discriminate|]. intros (_ & _ & He & _). destruct He as [c Hc]; [lia|discriminate].
        -- split; [discriminate|]. intros (_ & _ & He & _). destruct He as [c Hc]; [lia|discriminate].
      * split; [intros _|reflexivity].
        refine (conj _ (conj _ (conj _ (conj _ _)))); fin_ok.
    + split; [discriminate|]. intros (_ & [d0 Hd] & _). discriminate.
  - (* EffTokens *)
    cbn [andb].
    destruct (300 <=? s) eqn:H3.
    { split; [discriminate|]. intros (_ & _ & _ & _ & Hm). destruct Hm as [Hlt _]; [discriminate|lia]. }
    destruct (negb (mutating (q_call q))) eqn:Hm.
    { split; [discriminate|]. intros (_ & _ & _ & _ & Hm'). destruct Hm' as [_ Hmu]; [discriminate|].
      rewrite Hmu in Hm. discriminate. }
    destruct body as [|d [|d' t]].
    + split; [discriminate|]. intros (_ & [d Hd] & _). discriminate.
    + assert (H4 : (400 <=? s) = false) by lia. rewrite H4.
      split; [intros _|reflexivity].
      refine (conj _ (conj _ (conj _ (conj _ _)))); fin_ok.
    + split; [discriminate|]. intros (_ & [d0 Hd] & _). discriminate.
  - (* EffWebhooks *)
    cbn [andb].
    destruct (300 <=? s) eqn:H3.
    { split; [discriminate|]. intros (_ & _ & _ & _ & Hm). destruct Hm as [Hlt _]; [discriminate|lia]. }
    destruct (negb (mutating (q_call q))) eqn:Hm.
    { split; [discriminate|]. intros (_ & _ & _ & _ & Hm'). destruct Hm' as [_ Hmu]; [discriminate|].
      rewrite Hmu in Hm. discriminate. }
    destruct body as [|d [|d' t]].
    + split; [discriminate|]. intros (_ & [d Hd] & _). discriminate.
    + assert (H4 : (400 <=? s) = false) by lia. rewrite H4.
      split; [intros _|reflexivity].
      refine (conj _ (conj _ (conj _ (conj _ _)))); fin_ok.
    + split; [discriminate|]. intros (_ & [d0 Hd] & _). discriminate.
  - (* EffHeaders *)
    split; [discriminate|]. intros (_ & _ & _ & Hne & _). exfalso. apply Hne. reflexivity.
Qed.

(* ------------------------------------------------------------------------------------------------ *)
(* GetCommonAncestor: which results are possible                                                      *)

Lemma iter_until_inv {A B : Type} (P : A -> Prop) (Q : B -> Prop) (step : A -> A + B) :
  (forall a, P a -> match step a with inl a' => P a' | inr b => Q b end) ->
  forall p a, P a -> match iter_until p step a with inl a' => P a' | inr b => Q b end.
Proof.
  intros Hstep p. induction p as [p IH|p IH|]; intros a Pa; cbn [iter_until].
  - pose proof (Hstep a Pa) as H1. destruct (step a) as [a1|b1]; [|exact H1].
    pose proof (IH a1 H1) as H2. destruct (iter_until p step a1) as [a2|b2]; [|exact H2].
    exact (IH a2 H2).
  - pose proof (IH a Pa) as H1. destruct (iter_until p step a) as [a1|b1]; [|exact H1].
    exact (IH a1 H1).
  - exact (Hstep a Pa).
Qed.

Lemma map_opt_length {A B : Type} (f : A -> option B) : forall l l', map_opt f l = Some l' -> length l' = length l.
Proof.
  induction l as [|x t IH]; intros l' H; cbn in H.
  - injection H as <-. reflexivity.
  - destruct (f x) as [y|]; [|discriminate]. destruct (map_opt f t) as [ys|] eqn:Ht; [|discriminate].
    injection H as <-. cbn. f_equal. apply IH. reflexivity.
Qed.

Lemma ca_fetch_length : forall e l m hs m', ca_fetch e l m = inl (hs, m') -> length hs = length l.
Proof.
  intros e. induction l as [|h t IH]; intros m hs m' H; cbn in H.
  - injection H as <- _. reflexivity.
  - destruct (lookup e h) as [[i x]|]; [|discriminate].
    destruct (ca_fetch e t (if hi_height x <? m then hi_height x else m)) as [[is m2]|c] eqn:Ht; [|discriminate].
    injection H as <- _. cbn. f_equal. eapply IH. exact Ht.
Qed.

Lemma ca_fetch_err : forall e l m c, ca_fetch e l m = inr c -> c = ErrHeaderNotFound.
Proof.
  intros e. induction l as [|h t IH]; intros m c H; cbn in H.
  - discriminate.
  - destruct (lookup e h) as [[i x]|]; [|injection H as <-; reflexivity].
    destruct (ca_fetch e t (if hi_height x <? m then hi_height x else m)) as [[is m2]|c'] eqn:Ht; [discriminate|].
    injection H as <-. eapply IH. exact Ht.
Qed.

Definition ca_regular (r : ca_result) : Prop :=
  (exists i, r = CAHeader i) \/ r = CAErr ErrHeaderNotFound.

Lemma ca_step_nonempty : forall e hs, hs <> [] ->
  match ca_step e hs with inl hs' => hs' <> [] | inr r => ca_regular r end.
Proof.
  intros e hs Hne. unfold ca_step.
  destruct (all_equal hs).
  - destruct hs as [|x t]; [contradiction|]. left. eexists. reflexivity.
  - destruct (map_opt (e_prev e) hs) as [hs'|] eqn:Hm.
    + apply map_opt_length in Hm. destruct hs' as [|y t']; [|discriminate].
      destruct hs; [contradiction|discriminate].
    + right. reflexivity.
Qed.

(* a non-empty list never reaches headers[0] on an empty slice, and the only errors are the two listed *)
Lemma ca_nonempty : forall e l, l <> [] ->
  match get_common_ancestor e l with
  | CAHeader _ | CANil => True
  | CAErr c => c = ErrHeaderNotFound \/ c = ErrAncestorNotFound
  | CAPanic => False
  end.
Proof.
  intros e l Hne. unfold get_common_ancestor.
  destruct (ca_fetch e l max_int32) as [[hs m]|c] eqn:Hf.
  2:{ left. eapply ca_fetch_err. exact Hf. }
  apply ca_fetch_length in Hf.
  destruct (m <? 1); [exact I|].
  destruct (map_opt (fun i => e_anc e i (m - 1)) hs) as [hs'|] eqn:Hm; [|right; reflexivity].
  apply map_opt_length in Hm.
  assert (Hne' : hs' <> []).
  { destruct hs' as [|y t]; [|discriminate]. destruct hs as [|z t']; [|discriminate].
    destruct l; [contradiction|discriminate]. }
  pose proof (iter_until_inv (fun hs => hs <> []) ca_regular (ca_step e) (ca_step_nonempty e)
                             (Z.to_pos (m - 1 + 1)) hs' Hne') as Hit.
  destruct (iter_until (Z.to_pos (m - 1 + 1)) (ca_step e) hs') as [hs2|r]; [exact I|].
  destruct Hit as [[i ->]| ->]; [exact I|]. left. reflexivity.
Qed.

Lemma ca_empty : forall e, get_common_ancestor e [] = CAPanic.
Proof. intros e. reflexivity. Qed.

(* ------------------------------------------------------------------------------------------------ *)
(* the main case analysis                                                                             *)

Lemma status_4xx : forall c, c <> ErrUnknown -> 400 <= status_of c < 500.
Proof. intros c H. destruct c; cbn; try lia. contradiction. Qed.

Lemma check_err : forall q c, c <> ErrUnknown -> check q (finish [errw c] EffNone) = None.
Proof. intros q c H. destruct c; try reflexivity. contradiction. Qed.

Ltac use_fix Hfix fx s :=
  let Hf := fresh "Hf" in
  assert (Hf : fix_on fx s = true) by
    (apply Hfix; repeat match goal with H : ?x = _ |- context [?x] => rewrite H end; reflexivity);
  cbn [fix_on] in Hf; rewrite Hf.

Ltac ok_by_compute := first [reflexivity | apply check_err; discriminate].

Theorem general_check : forall fx e q,
  e_tip e = true ->
  (forall s, defect_site e q = Some s -> fix_on fx s = true) ->
  check q (respond_gen fx e q) = None.
Proof.
  intros fx e [a c] Htip Hfix. unfold respond_gen, defect_site in *. cbn [q_auth q_call] in *.
  destruct (auth_gate a) as [ce|] eqn:Hgate.
  { destruct a; cbn in Hgate; try discriminate; injection Hgate as <-; reflexivity. }
  destruct c; cbn [handle].
  - (* CHeader *) destruct (lookup e h); ok_by_compute.
  - (* CState *) destruct (lookup e h); ok_by_compute.
  - (* CByHeight *)
    destruct (atoi height) eqn:Hat; [reflexivity|].
    use_fix Hfix fx SByHeight. reflexivity.
  - (* CAncestors *)
    destruct (lookup e h) as [[i hi]|]; [|reflexivity].
    destruct (lookup e a0) as [[j ai]|]; [|reflexivity].
    destruct (hi_height ai >? hi_height hi); [reflexivity|].
    destruct (hi_height ai =? hi_height hi); [destruct (Nat.eqb i j); reflexivity|].
    destruct (e_anc e i (hi_height ai)) as [k|]; [|reflexivity].
    destruct (negb (Nat.eqb k j)); [reflexivity|].
    destruct (e_between e j i); reflexivity.
  - (* CCommon *)
    destruct b as [l| |k].
    + destruct l as [|h t].
      * use_fix Hfix fx SCommonEmpty. reflexivity.
      * rewrite andb_false_r.
        pose proof (ca_nonempty e (h :: t)) as Hca.
        destruct (get_common_ancestor e (h :: t)) as [i| |ce|] eqn:Hg.
        -- reflexivity.
        -- use_fix Hfix fx SCommonNil. reflexivity.
        -- destruct Hca as [-> | ->]; [discriminate|reflexivity|reflexivity].
        -- exfalso. apply Hca. discriminate.
    + use_fix Hfix fx SCommonEmpty. reflexivity.
    + reflexivity.
  - reflexivity.
  - rewrite Htip. reflexivity.
  - reflexivity.
  - reflexivity.
  - (* CMerkleRoots *)
    rewrite Htip.
    destruct (match batch with IMissing => Some 2000 | _ => atoi batch end) as [n|]; [|reflexivity].
    destruct (n <? 0); [reflexivity|].
    destruct last as [|i|]; [reflexivity| |reflexivity].
    destruct (e_mroot e i) as [[| |]|]; reflexivity.
  - (* CVerify *)
    destruct b as [[|n]| |k]; try reflexivity.
    + rewrite Htip. reflexivity.
    + use_fix Hfix fx SVerifyBind. reflexivity.
  - (* CWhPost *)
    destruct b as [u|u|k]; cbn [wbody_bound fst] in *.
    + destruct u; reflexivity.
    + use_fix Hfix fx SWebhookBind. reflexivity.
    + use_fix Hfix fx SWebhookBind. reflexivity.
  - destruct u; reflexivity.
  - destruct u; reflexivity.
  - (* CAccGet *)
    destruct a; cbn in Hgate; try discriminate; try reflexivity.
    use_fix Hfix fx SAccessGet. reflexivity.
  - destruct a; cbn in Hgate; try discriminate; reflexivity.
  - destruct a; cbn in Hgate; try discriminate; destruct t; reflexivity.
Qed.

Theorem general_ok : forall fx e q,
  e_tip e = true ->
  (forall s, defect_site e q = Some s -> fix_on fx s = true) ->
  c16_ok q (respond_gen fx e q).
Proof. intros fx e q Ht Hf. apply check_iff. apply general_check; assumption. Qed.

Theorem fixed_ok : forall e q, e_tip e = true -> c16_ok q (respond_fixed e q).
Proof.
  intros e q Ht. apply general_ok; [exact Ht|]. intros s _. destruct s; reflexivity.
Qed.

(* the code as found: every request inside a listed call-site class violates the property ... *)
Theorem site_fails : forall e q s, defect_site e q = Some s -> check q (respond e q) <> None.
Proof.
  intros e [a c] s Hs. unfold respond, respond_gen, defect_site in *. cbn [q_auth q_call] in *.
  destruct (auth_gate a) as [ce|] eqn:Hgate; [discriminate|].
  destruct c; try discriminate Hs; cbn [handle no_fixes fx_byheight fx_common_empty fx_common_nil fx_webhook fx_verify fx_accget].
  - destruct (atoi height) eqn:Hat; [discriminate Hs|]. cbn. discriminate.
  - destruct b as [l| |k]; try discriminate Hs.
    + destruct l as [|h t].
      * cbn. discriminate.
      * cbn [andb]. destruct (get_common_ancestor e (h :: t)) eqn:Hg; try discriminate Hs. cbn. discriminate.
    + cbn. discriminate.
  - destruct b as [n| |k]; try discriminate Hs. cbn. discriminate.
  - destruct b as [u|u|k]; cbn [wbody_bound fst] in *; try discriminate Hs.
    + destruct u; cbn; discriminate.
    + cbn. discriminate.
  - destruct a; try discriminate Hs. cbn. discriminate.
Qed.

(* ... and every other request satisfies it: the listed classes are exactly the failing ones *)
Theorem exact : forall e q, e_tip e = true -> (c16_ok q (respond e q) <-> defect_site e q = None).
Proof.
  intros e q Ht. split.
  - intros Hok. destruct (defect_site e q) as [s|] eqn:Hs; [|reflexivity].
    exfalso. apply (site_fails e q s Hs). apply check_iff. exact Hok.
  - intros Hn. apply general_ok; [exact Ht|]. intros s Hs. rewrite Hn in Hs. discriminate.
Qed.

(* the store is untouched by every request, repaired or not *)
Lemma handle_eff : forall fx e a c, snd (handle fx e a c) <> EffHeaders.
Proof.
  intros fx e a c. destruct c; cbn [handle];
    repeat match goal with
           | |- context [match ?x with _ => _ end] => destruct x
           end; cbn; discriminate.
Qed.

Theorem headers_untouched : forall fx e q, r_eff (respond_gen fx e q) <> EffHeaders.
Proof.
  intros fx e [a c]. unfold respond_gen. cbn [q_auth q_call].
  destruct (auth_gate a); [cbn; discriminate|].
  pose proof (handle_eff fx e a c) as H.
  destruct (handle fx e a c) as [ws eff]. exact H.
Qed.

(* ------------------------------------------------------------------------------------------------ *)
(* a concrete store with a fork, a stale branch and orphans; witnesses                                *)

Definition R (p : option nat) (h : Z) (s : hstate) : row := {| rw_parent := p; rw_height := h; rw_state := s |}.

(* 0 genesis; 1..3 longest chain; 4 stale child of 1; 5 orphan; 6 child of the orphan *)
Definition ex_rows : list row :=
  [R None 0 Longest; R (Some 0%nat) 1 Longest; R (Some 1%nat) 2 Longest; R (Some 2%nat) 3 Longest;
   R (Some 1%nat) 2 Stale; R None 1 Orphan; R (Some 5%nat) 2 Orphan].
Definition ex_env : env := mkenv ex_rows.

Definition Q (a : auth) (c : call) : request := {| q_auth := a; q_call := c |}.

Lemma ex_env_tip : e_tip ex_env = true.
Proof. reflexivity. Qed.

(* the common ancestor of the longest tip and the stale block is block 1; found, 200 *)
Lemma ex_common_fork : get_common_ancestor ex_env [HK 3%nat; HK 4%nat] = CAHeader 1%nat.
Proof. vm_compute. reflexivity. Qed.

Lemma ex_fixed_ok : c16_ok (Q AuthOff (CCommon (SList [HK 3%nat; HK 4%nat]))) (respond_fixed ex_env (Q AuthOff (CCommon (SList [HK 3%nat; HK 4%nat])))).
Proof. apply fixed_ok. reflexivity. Qed.

Ltac refute := intros Hok; apply check_iff in Hok; vm_compute in Hok; discriminate.

Lemma byheight_refuted : ~ c16_ok (Q AuthOff (CByHeight IMissing IMissing)) (respond ex_env (Q AuthOff (CByHeight IMissing IMissing))).
Proof. refute. Qed.
Lemma byheight_junk_refuted : ~ c16_ok (Q AuthAdmin (CByHeight IJunk (INum 1))) (respond ex_env (Q AuthAdmin (CByHeight IJunk (INum 1)))).
Proof. refute. Qed.
Lemma common_empty_refuted : ~ c16_ok (Q AuthOff (CCommon (SList []))) (respond ex_env (Q AuthOff (CCommon (SList [])))).
Proof. refute. Qed.
Lemma common_genesis_refuted : ~ c16_ok (Q AuthOff (CCommon (SList [HK 3%nat; HK 0%nat]))) (respond ex_env (Q AuthOff (CCommon (SList [HK 3%nat; HK 0%nat])))).
Proof. refute. Qed.
Lemma webhook_bind_refuted : ~ c16_ok (Q AuthOff (CWhPost (WBad BadSyntax))) (respond ex_env (Q AuthOff (CWhPost (WBad BadSyntax)))).
Proof. refute. Qed.
Lemma webhook_partial_refuted : ~ c16_ok (Q AuthOff (CWhPost (WPartial UNew))) (respond ex_env (Q AuthOff (CWhPost (WPartial UNew)))).
Proof. refute. Qed.
Lemma verify_bind_refuted : ~ c16_ok (Q AuthOff (CVerify (VBad BadSyntax))) (respond ex_env (Q AuthOff (CVerify (VBad BadSyntax)))).
Proof. refute. Qed.
Lemma access_get_refuted : ~ c16_ok (Q AuthOff CAccGet) (respond ex_env (Q AuthOff CAccGet)).
Proof. refute. Qed.

(* what exactly comes back today at each site *)
Lemma ex_responses :
  respond ex_env (Q AuthOff (CByHeight IMissing IMissing)) = {| r_status := 500; r_body := [DErr ErrUnknown]; r_eff := EffNone |}
  /\ respond ex_env (Q AuthOff (CCommon (SList []))) = {| r_status := 500; r_body := []; r_eff := EffNone |}
  /\ respond ex_env (Q AuthOff (CCommon (SList [HK 3%nat; HK 0%nat]))) = {| r_status := 500; r_body := []; r_eff := EffNone |}
  /\ respond ex_env (Q AuthOff (CWhPost (WBad BadSyntax))) = {| r_status := 400; r_body := [DErr ErrBindBody; DErr ErrURLBodyRequired]; r_eff := EffNone |}
  /\ respond ex_env (Q AuthOff (CWhPost (WPartial UNew))) = {| r_status := 400; r_body := [DErr ErrBindBody; DVal]; r_eff := EffWebhooks |}
  /\ respond ex_env (Q AuthOff (CVerify (VBad BadSyntax))) = {| r_status := 400; r_body := [DStr]; r_eff := EffNone |}
  /\ respond ex_env (Q AuthOff CAccGet) = {| r_status := 400; r_body := []; r_eff := EffNone |}.
Proof. vm_compute. repeat split. Qed.
