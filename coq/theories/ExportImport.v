(* C17 model: export of the longest chain to CSV records, import of CSV records into a database,
   the consistency validation and the start-up decision.  Definitions only (no proofs).

   Mirrors /repo/database/export.go (selectHeadersSQL: version, merkleroot, nonce, bits,
   strftime('%s', timestamp) WHERE header_state = 'LONGEST_CHAIN' ORDER BY height),
   /repo/database/import.go (importHeaders, prepareRecord, parseRecordToBlockHeadersSource,
   calculateFields, validateDbConsistency), /repo/database/sqlite_adapter.go (importHeaders,
   insertHeaders: batches committed one by one) and /repo/database/database.go (Init).

   Hashes are abstract ids (0 = the all-zero hash); the header hash function is a parameter
   [hashf].  The merkle root is the number whose 64-digit hexadecimal numeral is the display
   string of the hash.  gzip, the csv reader/writer, SQLite's strftime and the decimal
   printing of integers by the database driver are library behaviour: a file is the list of its
   csv records (the first one is the column-name line), a record is the list of its fields.  *)
From Coq Require Import ZArith NArith List String Ascii Bool.
From BHS Require Import Work.
Import ListNotations.
Open Scope Z_scope.

(* ------------------------------------------------------------------------------------------ *)
(* rows                                                                                        *)

Record xrow := { x_hash : N; x_prev : N; x_height : Z; x_version : Z; x_merkle : N; x_ts : Z;
                 x_bits : Z; x_nonce : Z; x_work : Z; x_cum : Z }.

(* domains.BlockHeaderSource: what the block hash is computed from *)
Record src := { s_version : Z; s_prev : N; s_merkle : N; s_ts : Z; s_bits : Z; s_nonce : Z }.

Definition src_of (r : xrow) : src :=
  {| s_version := x_version r; s_prev := x_prev r; s_merkle := x_merkle r; s_ts := x_ts r;
     s_bits := x_bits r; s_nonce := x_nonce r |}.

(* header_state of a table row *)
Definition st_longest : N := 0%N.
Definition st_stale : N := 1%N.
Definition st_orphan : N := 2%N.
Definition dbrow := (xrow * N)%type.
Definition table := list dbrow.

Inductive result (A : Type) := Ok (a : A) | Err.
Arguments Ok {A} a.
Arguments Err {A}.

(* ------------------------------------------------------------------------------------------ *)
(* numerals                                                                                    *)

Definition digit_of (c : ascii) : option N :=
  let n := N_of_ascii c in
  if (48 <=? n)%N && (n <=? 57)%N then Some (n - 48)%N else None.

Definition hexdigit_of (c : ascii) : option N :=
  let n := N_of_ascii c in
  if (48 <=? n)%N && (n <=? 57)%N then Some (n - 48)%N
  else if (97 <=? n)%N && (n <=? 102)%N then Some (n - 87)%N
  else if (65 <=? n)%N && (n <=? 70)%N then Some (n - 55)%N
  else None.

(* value of a string of digits in base [b], most significant first; None on a foreign character *)
Fixpoint digits_val (dig : ascii -> option N) (b : N) (acc : N) (s : string) : option N :=
  match s with
  | EmptyString => Some acc
  | String c r => match dig c with
                  | Some d => digits_val dig b (acc * b + d)%N r
                  | None => None
                  end
  end.

(* strconv.ParseUint(s, 10, bits): no sign, at least one digit, digits only, value < 2^bits *)
Definition parse_nat_str (s : string) : option N :=
  match s with
  | EmptyString => None
  | _ => digits_val digit_of 10 0 s
  end.

Definition parse_uint (bits : N) (s : string) : option Z :=
  match parse_nat_str s with
  | Some n => if (n <? 2 ^ bits)%N then Some (Z.of_N n) else None
  | None => None
  end.

(* strconv.ParseInt(s, 10, bits): optional + or -, then as ParseUint; -2^(bits-1) <= v < 2^(bits-1) *)
Definition parse_int (bits : N) (s : string) : option Z :=
  match s with
  | EmptyString => None
  | String c r =>
      let neg := Ascii.eqb c "-"%char in
      let body := if neg || Ascii.eqb c "+"%char then r else s in
      match parse_nat_str body with
      | Some n =>
          if neg then (if (n <=? 2 ^ (bits - 1))%N then Some (- Z.of_N n) else None)
          else (if (n <? 2 ^ (bits - 1))%N then Some (Z.of_N n) else None)
      | None => None
      end
  end.

(* chainhash.NewHashFromStr: at most 64 hexadecimal digits of either case (shorter strings,
   the empty one included, are padded with zeros on the left) *)
Definition parse_hash (s : string) : option N :=
  if (64 <? String.length s)%nat then None else digits_val hexdigit_of 16 0 s.

(* parseBigInt: big.Int.SetString(s, 10) whose failure is ignored (the value is then zero);
   only ever applied to "" and to numerals printed by big.Int.String *)
Definition parse_big (s : string) : Z :=
  match parse_nat_str s with Some n => Z.of_N n | None => 0 end.

Definition digit_char (d : N) : ascii := ascii_of_N (48 + d).
Definition hexdigit_char (d : N) : ascii := if (d <? 10)%N then ascii_of_N (48 + d) else ascii_of_N (87 + d).

(* decimal numeral without leading zeros *)
Fixpoint print_N_fuel (f : nat) (n : N) : string :=
  match f with
  | O => EmptyString
  | S f' => if (n <? 10)%N then String (digit_char n) EmptyString
            else let (q, d) := N.div_eucl n 10 in
                 (print_N_fuel f' q ++ String (digit_char d) EmptyString)%string
  end.
Definition print_N (n : N) : string := print_N_fuel (S (N.to_nat (N.log2 n))) n.
Definition print_Z (z : Z) : string :=
  if z <? 0 then String "-"%char (print_N (Z.to_N (- z))) else print_N (Z.to_N z).

(* exactly k lower-case hexadecimal digits *)
Fixpoint print_hex (k : nat) (n : N) : string :=
  match k with
  | O => EmptyString
  | S k' => (print_hex k' (N.shiftr n 4) ++ String (hexdigit_char (N.land n 15)) EmptyString)%string
  end.

(* ------------------------------------------------------------------------------------------ *)
(* export                                                                                      *)

Definition record := list string.
Definition file := list record.

Definition header_line : record :=
  ["version"; "merkleroot"; "nonce"; "bits"; "timestamp"]%string.

Definition export_row (r : xrow) : record :=
  [print_Z (x_version r); print_hex 64 (x_merkle r); print_Z (x_nonce r); print_Z (x_bits r); print_Z (x_ts r)].

(* the rows are the longest chain, lowest height first *)
Definition export (rows : list xrow) : file := header_line :: map export_row rows.

(* WHERE header_state = 'LONGEST_CHAIN' ORDER BY height asc on a table in rowid order *)
Fixpoint insert_by_height (r : xrow) (l : list xrow) : list xrow :=
  match l with
  | [] => [r]
  | h :: t => if x_height r <? x_height h then r :: l else h :: insert_by_height r t
  end.
Definition sort_by_height (l : list xrow) : list xrow := fold_right insert_by_height [] (rev l).
Definition longest_of (t : table) : list xrow :=
  sort_by_height (map fst (filter (fun p => N.eqb (snd p) st_longest) t)).
Definition export_db (t : table) : file := export (longest_of t).

(* ------------------------------------------------------------------------------------------ *)
(* import                                                                                      *)

Section WithHash.
Variable hashf : src -> N.

(* parseRecordToBlockHeadersSource, without the previous block hash: version, merkle, nonce, bits, ts *)
Definition parse_row (rec : record) : option (Z * N * Z * Z * Z) :=
  match rec with
  | [v; m; n; b; t] =>
      match parse_int 32 v with None => None | Some v' =>
      match parse_hash m with None => None | Some m' =>
      match parse_uint 32 n with None => None | Some n' =>
      match parse_uint 32 b with None => None | Some b' =>
      match parse_int 64 t with None => None | Some t' => Some (v', m', n', b', t')
      end end end end end
  | _ => None
  end.

(* the state carried from row to row by insertHeaders / importHeaders *)
Record ist := { i_idx : Z; i_prev : N; i_cum : string }.
Definition ist0 : ist := {| i_idx := 0; i_prev := 0%N; i_cum := EmptyString |}.

(* prepareRecord = parse + calculateFields *)
Definition prepare_record (rec : record) (st : ist) : option xrow :=
  match parse_row rec with
  | None => None
  | Some (v, m, n, b, t) =>
      let s := {| s_version := v; s_prev := i_prev st; s_merkle := m; s_ts := t; s_bits := b; s_nonce := n |} in
      let w := calc_work b in
      Some {| x_hash := hashf s; x_prev := i_prev st; x_height := i_idx st; x_version := v; x_merkle := m;
              x_ts := t; x_bits := b; x_nonce := n; x_work := w; x_cum := parse_big (i_cum st) + w |}
  end.

Definition next_ist (st : ist) (r : xrow) : ist :=
  {| i_idx := i_idx st + 1; i_prev := x_hash r; i_cum := print_Z (x_cum r) |}.

(* what the csv reader and prepareRecord accept: [ncols] is the number of fields of the first
   line of the file (csv.Reader.FieldsPerRecord = 0) *)
Definition good_record (ncols : nat) (rec : record) : bool :=
  Nat.eqb (List.length rec) ncols && match parse_row rec with Some _ => true | None => false end.

(* the pure reading of a list of records: all rows or nothing *)
Fixpoint import_recs (ncols : nat) (recs : list record) (st : ist) : result (list xrow * ist) :=
  match recs with
  | [] => Ok ([], st)
  | rec :: rest =>
      if negb (Nat.eqb (List.length rec) ncols) then Err else
      match prepare_record rec st with
      | None => Err
      | Some r => match import_recs ncols rest (next_ist st r) with
                  | Ok (rows, st') => Ok (r :: rows, st')
                  | Err => Err
                  end
      end
  end.

Definition import (f : file) : result (list xrow) :=
  match f with
  | [] => Err
  | hdr :: recs => match import_recs (List.length hdr) recs ist0 with
                   | Ok (rows, _) => Ok rows
                   | Err => Err
                   end
  end.

(* INSERT ... ON CONFLICT DO NOTHING: the hash is the primary key *)
Definition has_hash (t : table) (h : N) : bool := existsb (fun p => N.eqb (x_hash (fst p)) h) t.
Definition db_insert (t : table) (r : dbrow) : table := if has_hash t (x_hash (fst r)) then t else t ++ [r].
Definition db_insert_all (t : table) (rows : list xrow) : table :=
  fold_left (fun acc r => db_insert acc (r, st_longest)) rows t.

(* sqLiteAdapter.insertHeaders: up to [n] records are read and prepared; (ok, state, batch, rest) *)
Fixpoint insert_headers (ncols : nat) (n : nat) (recs : list record) (st : ist) (batch : list xrow)
  : bool * ist * list xrow * list record :=
  match n with
  | O => (true, st, batch, recs)
  | S n' =>
      match recs with
      | [] => (true, st, batch, [])
      | rec :: rest =>
          if negb (Nat.eqb (List.length rec) ncols) then (false, st, batch, rest) else
          match prepare_record rec st with
          | None => (false, st, batch, rest)
          | Some r => insert_headers ncols n' rest (next_ist st r) (batch ++ [r])
          end
      end
  end.

(* sqLiteAdapter.importHeaders: batches until one of them reads nothing; a failing batch is not
   committed, the ones before it are.  [fuel] bounds the number of batches (length of the file + 1
   is enough).  Result: number of imported rows, and the table. *)
Fixpoint import_loop (ncols bsz fuel : nat) (recs : list record) (st : ist) (t : table) : result Z * table :=
  match fuel with
  | O => (Err, t)
  | S fuel' =>
      let '(ok, st', batch, rest) := insert_headers ncols bsz recs st [] in
      if negb ok then (Err, t) else
      let t' := db_insert_all t batch in
      if i_idx st' =? i_idx st then (Ok (i_idx st'), t') else import_loop ncols bsz fuel' rest st' t'
  end.

(* validateDbConsistency *)
Definition max_height (t : table) : Z := fold_left (fun m p => Z.max m (x_height (fst p))) t 0.
Fixpoint heights_unique (t : table) : bool :=
  match t with
  | [] => true
  | p :: rest => negb (existsb (fun q => x_height (fst q) =? x_height (fst p)) rest) && heights_unique rest
  end.
Definition checkpoint_ok (ck_height : Z) (ck_hash : N) (t : table) : bool :=
  match find (fun p => x_height (fst p) =? ck_height) t with
  | Some p => N.eqb (x_hash (fst p)) ck_hash
  | None => false
  end.
Definition validate (count : Z) (t : table) (ck_height : Z) (ck_hash : N) : bool :=
  (Z.of_nat (List.length t) =? count) && (max_height t =? count - 1) && heights_unique t
  && checkpoint_ok ck_height ck_hash t.

Section Startup.
Variable bsz : nat.          (* sqliteBatchSize *)
Variable ck_height : Z.      (* config.Checkpoints[len-1] *)
Variable ck_hash : N.
Variable genesis : xrow.

(* the import part of importHeaders on an empty table; [None] = no readable file *)
Definition run_import (t : table) (f : option file) : result Z * table :=
  match f with
  | None => (Err, t)
  | Some [] => (Err, t)
  | Some (hdr :: recs) => import_loop (List.length hdr) bsz (S (List.length recs)) recs ist0 t
  end.

(* database.Init as a function of (prepared_db flag, table, file) -> (started?, table).
   importHeaders: a table that already holds headers is left alone (count > 0: neither import nor
   validation); otherwise the file is imported and validated, and a refused import (read error, bad
   record, failed validation) removes what it inserted: removeRefusedImport = DELETE FROM headers,
   the table was empty before (service commit 6243e75). *)
Definition startup (prepared : bool) (t : table) (f : option file) : bool * table :=
  if prepared then
    match t with
    | _ :: _ => (true, t)
    | [] =>
        match run_import t f with
        | (Err, _) => (false, [])
        | (Ok count, t') => if validate count t' ck_height ck_hash then (true, t') else (false, [])
        end
    end
  else (true, db_insert t (genesis, st_longest)).

(* HISTORY: database.Init before commit 6243e75 - a refused import left its rows in the table
   (known finding C17-second-start-accepts-leftovers, now fixed).  Kept for the regression
   witnesses of ExportImportHistory.v and for VERIF_C17_MODEL=old. *)
Definition startup_old (prepared : bool) (t : table) (f : option file) : bool * table :=
  if prepared then
    match t with
    | _ :: _ => (true, t)                          (* count > 0: import AND validation are skipped *)
    | [] =>
        match run_import t f with
        | (Err, t') => (false, t')
        | (Ok count, t') => (validate count t' ck_height ck_hash, t')
        end
    end
  else (true, db_insert t (genesis, st_longest)).

End Startup.

(* ------------------------------------------------------------------------------------------ *)
(* declarative specification                                                                   *)

(* rows form a chain: heights 0,1,2,.., each prev is the hash of the row before (0 first), every
   hash is the hash of the row's fields, work = calc_work bits, cum = running sum of the works *)
Fixpoint chain_from (prev : N) (h : Z) (cum : Z) (rows : list xrow) : Prop :=
  match rows with
  | [] => True
  | r :: rest =>
      x_prev r = prev /\ x_height r = h /\ x_hash r = hashf (src_of r) /\
      x_work r = calc_work (x_bits r) /\ x_cum r = cum + x_work r /\
      chain_from (x_hash r) (h + 1) (x_cum r) rest
  end.
Definition chain_ok (rows : list xrow) : Prop := chain_from 0%N 0 0 rows.

(* the value ranges of the Go field types (int32, uint32, 32-byte hash, int64 seconds) *)
Definition fields_ok (r : xrow) : Prop :=
  - 2 ^ 31 <= x_version r < 2 ^ 31 /\ 0 <= x_nonce r < 2 ^ 32 /\ 0 <= x_bits r < 2 ^ 32 /\
  (x_merkle r < 2 ^ 256)%N /\ - 2 ^ 63 <= x_ts r < 2 ^ 63.

(* boolean versions, used as oracles on observed tables *)
Fixpoint chain_fromb (prev : N) (h : Z) (cum : Z) (rows : list xrow) : bool :=
  match rows with
  | [] => true
  | r :: rest =>
      N.eqb (x_prev r) prev && (x_height r =? h) && N.eqb (x_hash r) (hashf (src_of r)) &&
      (x_work r =? calc_work (x_bits r)) && (x_cum r =? cum + x_work r) &&
      chain_fromb (x_hash r) (h + 1) (x_cum r) rest
  end.
Definition chain_okb (rows : list xrow) : bool := chain_fromb 0%N 0 0 rows.
Definition fields_okb (r : xrow) : bool :=
  (- 2 ^ 31 <=? x_version r) && (x_version r <? 2 ^ 31) && (0 <=? x_nonce r) && (x_nonce r <? 2 ^ 32) &&
  (0 <=? x_bits r) && (x_bits r <? 2 ^ 32) && (x_merkle r <? 2 ^ 256)%N &&
  (- 2 ^ 63 <=? x_ts r) && (x_ts r <? 2 ^ 63).

(* a record denotes the fields of a row (any accepted spelling of the numerals) *)
Definition record_denotes (rec : record) (r : xrow) : bool :=
  match parse_row rec with
  | Some (v, m, n, b, t) =>
      (v =? x_version r) && N.eqb m (x_merkle r) && (n =? x_nonce r) && (b =? x_bits r) && (t =? x_ts r)
  | None => false
  end.
Fixpoint records_denote (recs : list record) (rows : list xrow) : bool :=
  match recs, rows with
  | [], [] => true
  | rec :: recs', r :: rows' => record_denotes rec r && records_denote recs' rows'
  | _, _ => false
  end.

(* the table a start may serve after importing file [f] into an empty database: one longest-chain
   row per record, forming a chain, with the checkpoint hash at the checkpoint height *)
Definition table_matches_file (t : table) (f : option file) (ck_height : Z) (ck_hash : N) : bool :=
  match f with
  | Some (hdr :: recs) =>
      let rows := map fst t in
      forallb (fun p => N.eqb (snd p) st_longest) t && chain_okb rows && records_denote recs rows &&
      match nth_error rows (Z.to_nat ck_height) with
      | Some r => (0 <=? ck_height) && N.eqb (x_hash r) ck_hash
      | None => false
      end
  | _ => false
  end.

(* the statement about later starts: whatever a later start accepts after a refused import is what
   a clean import of the file it is given produces *)
Definition second_start_sound (start : bool -> table -> option file -> bool * table) : Prop :=
  forall f1 t1, start true [] f1 = (false, t1) ->
  forall f2 t2, start true t1 f2 = (true, t2) -> start true [] f2 = (true, t2).

End WithHash.
