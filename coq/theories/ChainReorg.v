(* The three-write reorganisation preserves the invariant (demote old branch, promote new branch, insert). *)
From Coq Require Import ZArith NArith List Lia Bool.
From BHS Require Import Store ChainSpec StoreProofs ChainInv.
Import ListNotations.
Open Scope Z_scope.

Lemma memN_ids_in s l x : wf s -> incl l s -> In x s -> (memN (id x) (ids l) = true <-> In x l).
Proof.
  intros Hwf Hi Hx. rewrite memN_in. split.
  - intros H. apply in_map_iff in H. destruct H as (y & E & Hy).
    assert (y = x) by (apply (nodup_ids_in s (wf_nodup s Hwf)); auto). subst. exact Hy.
  - intros H. apply in_map. exact H.
Qed.

Lemma last_in {A} (l : list A) d : l <> [] -> In (last l d) l.
Proof.
  induction l as [|a l IH]; intros H; [contradiction|]. destruct l as [|b l]; [left; reflexivity|].
  right. apply IH. discriminate.
Qed.

Section Reorg.
  Variables (s : store) (tip : N) (p r0 : row).
  Hypothesis HI : Inv s tip.
  Hypothesis Hp : by_hash s (prev r0) = Some p.
  Hypothesis Hpo : orph p = false.
  Hypothesis Hfresh : ~ In (id r0) (ids s).
  Hypothesis Hnz : id r0 <> 0%N.
  Hypothesis Hok : row_ok s r0.
  Hypothesis Hro : orph r0 = false.

  Let stale := stale_back s (prev r0).
  Let lh := min_height stale (height r0).
  Let concl := longest_from s lh.
  Let s1 := update_state s (ids concl) Stale.
  Let s2 := update_state s1 (ids stale) Longest.

  Lemma reorg_inv : Inv (set_st Longest r0 :: s2) (id r0).
  Proof.
    pose proof HI as (Hwf & (t & Ht & Hto) & Hl).
    pose proof (wf_nodup s Hwf) as Hnd.
    destruct (fork s Hnd tip (prev r0)) as (sa & sb & c & Ea & Eb & D1 & D2).
    destruct (by_hash_chain s tip Hnd t Ht) as [restt Hct].
    destruct (by_hash_chain s (prev r0) Hnd p Hp) as [restp Hcp].
    assert (Hconn_p: forall x, In x (chain s (prev r0)) -> orph x = false)
      by (apply (chain_rows_connected s (prev r0) p Hwf Hp Hpo)).
    (* the common suffix is not empty: both chains end at genesis *)
    assert (Hc: c <> []).
    { intro E. subst c. rewrite app_nil_r in Ea, Eb.
      destruct (chain_connected_nonempty_last s Hwf tip t restt Hct Hto) as (g1 & Hl1 & _ & Hs1).
      destruct (chain_connected_nonempty_last s Hwf (prev r0) p restp Hcp Hpo) as (g2 & Hl2 & _ & Hs2).
      assert (Hsne: s <> []) by (intro E; subst s; inversion Hwf).
      assert (Hg: g1 = g2) by (rewrite <- Hs1, <- Hs2; apply last_indep_nonempty; exact Hsne).
      assert (Hi1: In g1 (chain s tip)) by (rewrite Hct, <- Hl1; apply last_in; discriminate).
      assert (Hi2: In g1 (chain s (prev r0))) by (rewrite Hg, Hcp, <- Hl2; apply last_in; discriminate).
      rewrite Ea in Hi1. exact (D1 g1 Hi1 Hi2). }
    destruct c as [|F c']; [contradiction|]. clear Hc.
    (* stale = sb *)
    assert (Hsb_S: forall x, In x sb -> st x = Stale).
    { intros x Hx. assert (Hxc: In x (chain s (prev r0))) by (rewrite Eb; apply in_or_app; left; exact Hx).
      assert (Hxs: In x s) by (apply (chain_incl s (prev r0)); exact Hxc).
      apply (st_S_iff s tip x HI Hxs). split; [apply Hconn_p; exact Hxc| apply D2; exact Hx]. }
    assert (Hc_L: forall x, In x (F :: c') -> st x = Longest).
    { intros x Hx. assert (Hxc: In x (chain s tip)) by (rewrite Ea; apply in_or_app; right; exact Hx).
      assert (Hxs: In x s) by (apply (chain_incl s tip); exact Hxc).
      apply (is_L_iff s tip HI x Hxs). exact Hxc. }
    assert (Hstale: stale = sb).
    { unfold stale, stale_back.
      rewrite (walk_chain s Hwf (length s) (prev r0) p restp Hcp Hpo) by (rewrite <- Hcp; apply chain_length).
      rewrite <- Hcp, Eb, filter_app.
      rewrite (filter_all _ sb) by (intros x Hx; apply st_eqb_eq; apply Hsb_S; exact Hx).
      rewrite (filter_none _ (F :: c')); [apply app_nil_r|].
      intros x Hx. rewrite (Hc_L x Hx). reflexivity. }
    (* heights *)
    assert (Ha_hi: forall x, In x sa -> height F < height x) by (apply (chain_sorted s Hwf sa tip F c' Ea)).
    assert (Hb_hi: forall x, In x sb -> height F < height x) by (apply (chain_sorted s Hwf sb (prev r0) F c' Eb)).
    assert (Hc_lo: forall x, In x c' -> height x < height F) by (apply (chain_sorted_tail s Hwf sa tip F c' Ea)).
    assert (Hr0h: height r0 = height p + 1) by (pose proof Hok as Hk; unfold row_ok in Hk; rewrite Hp in Hk; apply Hk).
    assert (Hp_in: In p sb \/ p = F).
    { rewrite Hcp in Eb. destruct sb as [|b sb']; cbn in Eb; inversion Eb; subst; [right; reflexivity| left; left; reflexivity]. }
    assert (Hlh_hi: height F < lh).
    { unfold lh. rewrite Hstale. apply min_height_gt; [|exact Hb_hi].
      destruct Hp_in as [Hin| ->]; [specialize (Hb_hi p Hin)|]; lia. }
    assert (Hlh_lo: lh <= height F + 1).
    { unfold lh. rewrite Hstale. destruct sb as [|b sb'].
      - cbn. destruct Hp_in as [[]| ->]. lia.
      - destruct (chain_pred s Hwf (prev r0) _ eq_refl (b :: sb') F c' Eb ltac:(discriminate)) as (y & Hy & _ & Hh).
        pose proof (min_height_le_in (b :: sb') (height r0) y Hy). lia. }
    (* which rows get demoted *)
    assert (Hconcl: forall x, In x s -> (memN (id x) (ids concl) = true <-> In x sa)).
    { intros x Hx. rewrite (memN_ids_in s concl x Hwf ltac:(unfold concl, longest_from; intros y Hy; apply filter_In in Hy; apply Hy) Hx).
      unfold concl, longest_from. rewrite filter_In. split.
      - intros [_ Hpx]. apply andb_prop in Hpx. destruct Hpx as [H1 H2]. apply st_eqb_eq in H1. apply Z.leb_le in H2.
        apply (is_L_iff s tip HI x Hx) in H1. rewrite Ea in H1. apply in_app_or in H1.
        destruct H1 as [H1|[<-|H1]]; [exact H1| lia| specialize (Hc_lo x H1); lia].
      - intros Hin. split; [exact Hx|]. apply andb_true_intro. split.
        + apply st_eqb_eq. apply (is_L_iff s tip HI x Hx). rewrite Ea. apply in_or_app. left. exact Hin.
        + apply Z.leb_le. specialize (Ha_hi x Hin). lia. }
    assert (Hstale_mem: forall x, In x s -> (memN (id x) (ids stale) = true <-> In x sb)).
    { intros x Hx. rewrite Hstale. apply (memN_ids_in s sb x Hwf); [|exact Hx].
      intros y Hy. apply (chain_incl s (prev r0)). rewrite Eb. apply in_or_app. left. exact Hy. }
    (* assemble *)
    set (f1 := fun r => if memN (id r) (ids concl) then set_st Stale r else r).
    set (f2 := fun r => if memN (id r) (ids stale) then set_st Longest r else r).
    assert (Hf1: same_struct f1) by apply same_struct_upd.
    assert (Hf2: same_struct f2) by apply same_struct_upd.
    assert (Es2: s2 = map f2 (map f1 s)) by reflexivity.
    assert (Hwf2: wf s2) by (rewrite Es2; apply wf_map; [exact Hf2| apply wf_map; assumption]).
    assert (Hids2: ids s2 = ids s) by (rewrite Es2, (ids_map f2 _ Hf2), (ids_map f1 _ Hf1); reflexivity).
    assert (Hbh2: by_hash s2 (prev r0) = Some (f2 (f1 p))).
    { rewrite Es2, (by_hash_map f2 _ _ Hf2), (by_hash_map f1 _ _ Hf1), Hp. reflexivity. }
    split; [|split].
    - apply wf_cons; [exact Hwf2| cbn; rewrite Hids2; exact Hfresh| exact Hnz|].
      unfold row_ok in *. cbn [prev work height cum orph set_st]. rewrite Hbh2. rewrite Hp in Hok.
      destruct (Hf1 p) as (_ & _ & A3 & _ & A5 & A6 & _). destruct (Hf2 (f1 p)) as (_ & _ & B3 & _ & B5 & B6 & _).
      rewrite B3, B5, B6, A3, A5, A6. exact Hok.
    - exists (set_st Longest r0). split; [|exact Hro]. unfold by_hash. cbn. rewrite N.eqb_refl. reflexivity.
    - intros x' Hx'. unfold derived, inchain. cbn [chain id set_st prev]. rewrite N.eqb_refl.
      cbn [ids map memN existsb id set_st].
      destruct Hx' as [<-|Hx'].
      + cbn [st set_st orph id]. rewrite Hro, N.eqb_refl. reflexivity.
      + rewrite Es2 in Hx'. apply in_map_iff in Hx'. destruct Hx' as (x1 & <- & Hx1).
        apply in_map_iff in Hx1. destruct Hx1 as (x & <- & Hx).
        destruct (Hf1 x) as (A1 & _ & _ & _ & _ & A6 & _). destruct (Hf2 (f1 x)) as (B1 & _ & _ & _ & _ & B6 & _).
        rewrite B1, A1, B6, A6.
        assert (Hne: id x <> id r0) by (intro E; apply Hfresh; rewrite <- E; apply in_map; exact Hx).
        destruct (N.eqb_spec (id x) (id r0)); [contradiction|]. cbn [orb].
        rewrite Es2, (chain_map f2 _ _ Hf2), (chain_map f1 _ _ Hf1), (ids_map f2 _ Hf2), (ids_map f1 _ Hf1).
        change (existsb (N.eqb (id x)) (ids (chain s (prev r0)))) with (inchain s (prev r0) x).
        (* compute the new label of x *)
        assert (Hst': st (f2 (f1 x)) = if memN (id x) (ids stale) then Longest else if memN (id x) (ids concl) then Stale else st x).
        { unfold f2, f1. destruct (memN (id x) (ids concl)) eqn:E1; cbn [id set_st];
          destruct (memN (id x) (ids stale)) eqn:E2; reflexivity. }
        rewrite Hst'.
        destruct (orph x) eqn:Eo.
        * (* orphan rows are untouched *)
          assert (memN (id x) (ids stale) = false).
          { destruct (memN (id x) (ids stale)) eqn:E; [|reflexivity]. apply (Hstale_mem x Hx) in E.
            assert (In x (chain s (prev r0))) by (rewrite Eb; apply in_or_app; left; exact E).
            rewrite (Hconn_p x H) in Eo. discriminate. }
          assert (memN (id x) (ids concl) = false).
          { destruct (memN (id x) (ids concl)) eqn:E; [|reflexivity]. apply (Hconcl x Hx) in E.
            assert (In x (chain s tip)) by (rewrite Ea; apply in_or_app; left; exact E).
            rewrite (chain_rows_connected s tip t Hwf Ht Hto x H0) in Eo. discriminate. }
          rewrite H, H0. apply (st_O_iff s tip x HI Hx). exact Eo.
        * destruct (inchain s (prev r0) x) eqn:Ei.
          -- apply (inchain_in s (prev r0) x Hwf Hx) in Ei. rewrite Eb in Ei. apply in_app_or in Ei.
             destruct Ei as [Ei|Ei].
             ++ apply (Hstale_mem x Hx) in Ei. rewrite Ei. reflexivity.
             ++ assert (memN (id x) (ids stale) = false).
                { destruct (memN (id x) (ids stale)) eqn:E; [|reflexivity]. apply (Hstale_mem x Hx) in E.
                  exfalso. apply (D2 x E). rewrite Ea. apply in_or_app. right. exact Ei. }
                assert (memN (id x) (ids concl) = false).
                { destruct (memN (id x) (ids concl)) eqn:E; [|reflexivity]. apply (Hconcl x Hx) in E.
                  exfalso. apply (D1 x E). rewrite Eb. apply in_or_app. right. exact Ei. }
                rewrite H, H0. apply Hc_L. exact Ei.
          -- assert (Hnot: ~ In x (chain s (prev r0))).
             { intro Hin. apply (inchain_in s (prev r0) x Hwf Hx) in Hin. congruence. }
             assert (memN (id x) (ids stale) = false).
             { destruct (memN (id x) (ids stale)) eqn:E; [|reflexivity]. apply (Hstale_mem x Hx) in E.
               exfalso. apply Hnot. rewrite Eb. apply in_or_app. left. exact E. }
             rewrite H. destruct (memN (id x) (ids concl)) eqn:E; [reflexivity|].
             apply (st_S_iff s tip x HI Hx). split; [exact Eo|].
             intro Hin. rewrite Ea in Hin. apply in_app_or in Hin. destruct Hin as [Hin|Hin].
             ++ apply (Hconcl x Hx) in Hin. congruence.
             ++ apply Hnot. rewrite Eb. apply in_or_app. right. exact Hin.
  Qed.
End Reorg.
