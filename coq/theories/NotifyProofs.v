(* C11 - proofs about the model BHS.Notify (ingestion with failing writes + notifier + pool of deliveries). *)
From Coq Require Import ZArith NArith List Bool Arith Lia Permutation.
From BHS Require Import Work Store Chain StoreProofs ChainInv ChainAdd Notify.
Import ListNotations.
Open Scope Z_scope.

(* ------------------------------------------------------------------------------------------- *)
(* 1. one Add                                                                                   *)
(* ------------------------------------------------------------------------------------------- *)

Definition mkupd (p : list N * hstate) : write := WUpdate (fst p) (snd p).

(* the writes of a stored submission: state updates, then the insert of a row that is the submission *)
Lemma plan_stored f s h o ws : plan f s h = (Stored o, ws) ->
  by_hash s (s_id h) = None /\ memN (s_id h) f = false /\
  exists r ups, ws = map mkupd ups ++ [WInsert r] /\
    id r = s_id h /\ st r = o /\ prev r = s_prev h /\ pl r = s_pl h.
Proof.
  unfold plan.
  destruct (by_hash s (s_id h)) as [x|] eqn:Hnew; [discriminate|].
  destruct (memN (s_id h) f) eqn:Hf; [discriminate|].
  set (r0 := create_header s h).
  destruct (negb match st r0 with Orphan => false | Longest => has_L_at s (height r0) | Stale => true end).
  - intros H. inversion H; subst. repeat split; try reflexivity.
    exists r0, []. repeat split; reflexivity.
  - destruct (tipB s) as [t|]; [|discriminate].
    destruct (cum t <? cum r0); intros H; inversion H; subst; repeat split; try reflexivity.
    + exists (set_st Longest r0),
        [(ids (longest_from s (min_height (stale_back s (s_prev h)) (height r0))), Stale);
         (ids (stale_back s (s_prev h)), Longest)].
      repeat split; reflexivity.
    + exists (set_st Stale r0), []. repeat split; reflexivity.
Qed.

Lemma plan_not_stored_no_insert f s h o ws : plan f s h = (o, ws) ->
  (forall x, o <> Stored x) -> ws = [].
Proof.
  unfold plan.
  destruct (by_hash s (s_id h)); [intros H; inversion H; reflexivity|].
  destruct (memN (s_id h) f); [intros H; inversion H; reflexivity|].
  set (r0 := create_header s h).
  destruct (negb match st r0 with Orphan => false | Longest => has_L_at s (height r0) | Stale => true end).
  - intros H Ho. inversion H; subst. exfalso. eapply Ho. reflexivity.
  - destruct (tipB s) as [t|]; [|intros H; inversion H; reflexivity].
    destruct (cum t <? cum r0); intros H Ho; inversion H; subst; exfalso; eapply Ho; reflexivity.
Qed.

Definition apply_ups (s : store) (ups : list (list N * hstate)) : store :=
  fold_left (fun s p => update_state s (fst p) (snd p)) ups s.

Lemma by_hash_apply_ups_none ups : forall s i, by_hash s i = None -> by_hash (apply_ups s ups) i = None.
Proof.
  induction ups as [|p ups IH]; intros s i Hn; [exact Hn|].
  cbn. apply IH. rewrite by_hash_update, Hn. reflexivity.
Qed.

Lemma exec_ups_insert ups : forall s r, by_hash s (id r) = None ->
  fold_left apply_write (map mkupd ups ++ [WInsert r]) s = r :: apply_ups s ups.
Proof.
  induction ups as [|p ups IH]; intros s r Hn.
  - cbn. rewrite Hn. reflexivity.
  - cbn. rewrite IH; [reflexivity|]. rewrite by_hash_update, Hn. reflexivity.
Qed.

Lemma insert_of_ups ups r : insert_of (map mkupd ups ++ [WInsert r]) = Some r.
Proof. induction ups as [|p ups IH]; [reflexivity|exact IH]. Qed.

Lemma by_hash_head r s : by_hash (r :: s) (id r) = Some r.
Proof. unfold by_hash. cbn. rewrite N.eqb_refl. reflexivity. Qed.

(* event_fields_equal_row: a submission reported as stored hands exactly one event to the notifier, and its
   fields are those of the row that the store holds under the submission's hash when Add returns; that row is
   the submission (hash, previous hash, version, merkle root, nonce, timestamp as received) with the reported
   state *)
Theorem event_fields_equal_row f s h x s' o evs :
  add_f f s h x = (s', Done (Stored o), evs) ->
  exists r, by_hash s' (s_id h) = Some r /\ evs = [event_of_row r] /\
            id r = s_id h /\ st r = o /\ prev r = s_prev h /\ pl r = s_pl h /\
            by_hash s (s_id h) = None /\ memN (s_id h) f = false.
Proof.
  unfold add_f. destruct (plan f s h) as [o' ws] eqn:Hplan.
  destruct (fault_point x ws) as [[w done]|]; [discriminate|].
  intros H. inversion H; subst o'. clear H.
  destruct (plan_stored _ _ _ _ _ Hplan) as (Hnew & Hf & r & ups & Hws & Hid & Hst & Hprev & Hpl).
  subst ws. rewrite exec_all, exec_ups_insert by (rewrite Hid; exact Hnew).
  rewrite insert_of_ups. exists r. rewrite <- Hid, by_hash_head. cbn.
  repeat split; try assumption; try reflexivity; rewrite Hid; assumption.
Qed.

(* no_event_otherwise: duplicate, forbidden, internal error and failed writes hand nothing to the notifier *)
Theorem no_event_otherwise f s h x s' r evs :
  add_f f s h x = (s', r, evs) -> is_stored r = false -> evs = [].
Proof.
  unfold add_f. destruct (plan f s h) as [o ws] eqn:Hplan.
  destruct (fault_point x ws) as [[w done]|]; intros H; inversion H; subst; [reflexivity|].
  intros Hs. destruct o; try discriminate; destruct (insert_of ws); reflexivity.
Qed.

Lemma add_f_duplicate f s h x w : by_hash s (s_id h) = Some w -> add_f f s h x = (s, Done Duplicate, []).
Proof.
  intros Hd. unfold add_f, plan. rewrite Hd.
  destruct x as [|k|k]; cbn; try reflexivity; destruct k; reflexivity.
Qed.

Lemma add_f_forbidden f s h x : by_hash s (s_id h) = None -> memN (s_id h) f = true ->
  add_f f s h x = (s, Done Forbidden, []).
Proof.
  intros Hn Hf. unfold add_f, plan. rewrite Hn, Hf.
  destruct x as [|k|k]; cbn; try reflexivity; destruct k; reflexivity.
Qed.

Lemma add_f_failed f s h x w done :
  fault_point x (snd (plan f s h)) = Some (w, done) ->
  add_f f s h x = (exec s (snd (plan f s h)) done, WriteFailed w, []).
Proof. unfold add_f. destruct (plan f s h) as [o ws]. cbn. intros ->. reflexivity. Qed.

(* without a fault add_f is Chain.add (so everything proved for C01 applies to fault-free histories) *)
Lemma add_f_nofault f s h : fst (add_f f s h NoFault) = (fst (add f s h), Done (snd (add f s h))).
Proof. unfold add_f, add. destruct (plan f s h) as [o ws]. reflexivity. Qed.

(* per step: what is handed to the notifier = the event of the row read back, if reported stored *)
Lemma step_events f s h x s' r evs : add_f f s h x = (s', r, evs) ->
  evs = map event_of_row
          (if is_stored r then match by_hash s' (s_id h) with Some w => [w] | None => [] end else []).
Proof.
  intros H. destruct (is_stored r) eqn:Hs.
  - destruct r as [[o| | |]|w]; try discriminate.
    destruct (event_fields_equal_row _ _ _ _ _ _ _ H) as (w & Hw & He & _). rewrite Hw. exact He.
  - eapply no_event_otherwise; eauto.
Qed.

Lemma all_events_stored_rows f hs : forall s, all_events f s hs = map event_of_row (stored_rows f s hs).
Proof.
  induction hs as [|[h x] hs IH]; intros s; [reflexivity|].
  cbn [all_events stored_rows]. destruct (add_f f s h x) as [[s' r] evs] eqn:Ha.
  rewrite map_app, <- IH. f_equal. eapply step_events; eauto.
Qed.

(* ------------------------------------------------------------------------------------------- *)
(* 2. the notifier and the pool                                                                 *)
(* ------------------------------------------------------------------------------------------- *)

Definition memC (ch : chan) (l : list chan) : bool := existsb (Nat.eqb ch) l.

Lemma memC_In ch l : memC ch l = true <-> In ch l.
Proof.
  unfold memC. rewrite existsb_exists. split.
  - intros (x & Hin & He). apply Nat.eqb_eq in He. subst. exact Hin.
  - intros Hin. exists ch. split; [exact Hin|apply Nat.eqb_refl].
Qed.

Lemma pool_evs_app ch p q : pool_evs ch (p ++ q) = pool_evs ch p ++ pool_evs ch q.
Proof. unfold pool_evs. rewrite filter_app, map_app. reflexivity. Qed.

Lemma pool_evs_notifier_notin ch chs ev : memC ch chs = false -> pool_evs ch (notifier chs ev) = [].
Proof.
  induction chs as [|a chs IH]; intros Hm; [reflexivity|].
  cbn in Hm. apply orb_false_iff in Hm. destruct Hm as [Ha Hm].
  unfold pool_evs in *. cbn. rewrite Nat.eqb_sym, Ha. apply IH. exact Hm.
Qed.

Lemma pool_evs_notifier ch chs ev : NoDup chs ->
  pool_evs ch (notifier chs ev) = if memC ch chs then [ev] else [].
Proof.
  induction chs as [|a chs IH]; intros Hnd; [reflexivity|].
  inversion Hnd as [|? ? Hna Hnd']; subst.
  unfold pool_evs in *. cbn. rewrite (Nat.eqb_sym a ch).
  destruct (Nat.eqb ch a) eqn:He.
  - apply Nat.eqb_eq in He. subst a. cbn. f_equal.
    apply (pool_evs_notifier_notin ch chs ev).
    destruct (memC ch chs) eqn:Hm; [|reflexivity]. apply memC_In in Hm. contradiction.
  - cbn. apply IH. exact Hnd'.
Qed.

Lemma pool_evs_flat ch chs evs : NoDup chs ->
  pool_evs ch (flat_map (notifier chs) evs) = if memC ch chs then evs else [].
Proof.
  intros Hnd. induction evs as [|e evs IH]; [destruct (memC ch chs); reflexivity|].
  cbn [flat_map]. rewrite pool_evs_app, IH, pool_evs_notifier by exact Hnd.
  destruct (memC ch chs); reflexivity.
Qed.

Lemma nth_error_split_remove {A} (l : list A) : forall i t, nth_error l i = Some t ->
  exists p1 p2, l = p1 ++ t :: p2 /\ remove_nth i l = p1 ++ p2 /\ length p1 = i.
Proof.
  induction l as [|a l IH]; intros i t Hn; [destruct i; discriminate|].
  destruct i as [|i].
  - cbn in Hn. inversion Hn; subst. exists [], l. repeat split.
  - cbn in Hn. destruct (IH _ _ Hn) as (p1 & p2 & Hl & Hr & Hlen).
    exists (a :: p1), p2. cbn. rewrite <- Hl, Hr, Hlen. repeat split.
Qed.

(* what channel ch will still be handed by the rest of the history *)
Definition future (c : cfg) (ch : chan) (y : sys) : list event :=
  if memC ch (c_chans c) then all_events (c_forbidden c) (sy_store y) (sy_todo y) else [].

Definition account (c : cfg) (ch : chan) (y : sys) : list event :=
  log_evs ch y ++ pool_evs ch (sy_pool y) ++ future c ch y.

(* the invariant: delivered + in flight + still to come is constant (as a multiset) under every action *)
Lemma step_account c ch y a : NoDup (c_chans c) ->
  Permutation (account c ch (step c y a)) (account c ch y).
Proof.
  intros Hnd. destruct a as [|i|rc]; cbn [step].
  - destruct (sy_todo y) as [|[h x] t] eqn:Htodo; [reflexivity|].
    destruct (add_f (c_forbidden c) (sy_store y) h x) as [[s' r] evs] eqn:Ha.
    unfold account, future, log_evs. cbn [sy_log sy_pool sy_store sy_todo].
    rewrite Htodo. cbn [all_events]. rewrite Ha.
    rewrite pool_evs_app, pool_evs_flat by exact Hnd.
    destruct (memC ch (c_chans c)).
    + rewrite <- !app_assoc. reflexivity.
    + rewrite !app_nil_r. reflexivity.
  - destruct (nth_error (sy_pool y) i) as [t|] eqn:Hn; [|reflexivity].
    destruct (blocked (c_beh c) (sy_released y) (t_ch t)); [reflexivity|].
    destruct (nth_error_split_remove _ _ _ Hn) as (p1 & p2 & Hp & Hr & _).
    unfold account, future, log_evs. cbn [sy_log sy_pool sy_store sy_todo].
    rewrite Hr, Hp, !pool_evs_app. unfold pool_evs at 4. cbn [filter d_ch d_ev].
    destruct (Nat.eqb (t_ch t) ch); cbn [map app].
    + set (L := map d_ev (filter (fun d => Nat.eqb (d_ch d) ch) (sy_log y))).
      set (F := if memC ch (c_chans c) then _ else _).
      fold (pool_evs ch p2). cbn [d_ev]. rewrite <- !app_assoc. cbn [app].
      rewrite (app_assoc L (pool_evs ch p1) (pool_evs ch p2 ++ F)).
      rewrite (app_assoc L (pool_evs ch p1) (t_ev t :: pool_evs ch p2 ++ F)).
      apply Permutation_middle.
    + reflexivity.
  - reflexivity.
Qed.

Lemma run_account c ch sch : NoDup (c_chans c) -> forall y,
  Permutation (account c ch (run_sched c y sch)) (account c ch y).
Proof.
  intros Hnd. induction sch as [|a sch IH]; intros y; [reflexivity|].
  cbn. etransitivity; [apply IH|]. apply step_account. exact Hnd.
Qed.

(* at every moment of every schedule: delivered + in flight + still to come = the events of the stored rows *)
Theorem accounted_at_all_times c s hs sch ch : NoDup (c_chans c) -> In ch (c_chans c) ->
  let y := run_sched c (init_sys s hs) sch in
  Permutation (log_evs ch y ++ pool_evs ch (sy_pool y)
               ++ map event_of_row (stored_rows (c_forbidden c) (sy_store y) (sy_todo y)))
              (map event_of_row (stored_rows (c_forbidden c) s hs)).
Proof.
  intros Hnd Hin y.
  pose proof (run_account c ch sch Hnd (init_sys s hs)) as H.
  unfold account, future in H. apply memC_In in Hin. rewrite Hin in H.
  rewrite !all_events_stored_rows in H. exact H.
Qed.

(* one_event_per_stored: for every history (with any failing writes), every set of channels and behaviours and
   every schedule, once the history is ingested and no delivery is in flight, each registered channel has been
   handed exactly the multiset [event r | r reported stored] *)
Theorem one_event_per_stored c s hs sch ch : NoDup (c_chans c) -> In ch (c_chans c) ->
  let y := run_sched c (init_sys s hs) sch in
  sy_todo y = [] -> sy_pool y = [] ->
  Permutation (log_evs ch y) (map event_of_row (stored_rows (c_forbidden c) s hs)).
Proof.
  intros Hnd Hin y Ht Hp.
  pose proof (accounted_at_all_times c s hs sch ch Hnd Hin) as H. cbn zeta in H.
  fold y in H. rewrite Ht, Hp in H. cbn in H. rewrite app_nil_r in H. exact H.
Qed.

(* a channel that is not registered is never handed anything *)
Theorem unregistered_channel_silent c s hs sch ch : NoDup (c_chans c) -> ~ In ch (c_chans c) ->
  log_evs ch (run_sched c (init_sys s hs) sch) = [].
Proof.
  intros Hnd Hni.
  pose proof (run_account c ch sch Hnd (init_sys s hs)) as H.
  unfold account, future in H.
  destruct (memC ch (c_chans c)) eqn:Hm; [apply memC_In in Hm; contradiction|].
  cbn in H. rewrite !app_nil_r in H. symmetry in H. apply Permutation_nil in H.
  apply app_eq_nil in H. tauto.
Qed.

(* deliveries of an ok channel all succeed *)
Lemma step_ok_flag c y a d : In d (sy_log (step c y a)) -> In d (sy_log y) \/ d_ok d = negb (is_err (c_beh c (d_ch d))).
Proof.
  destruct a as [|i|rc]; cbn [step].
  - destruct (sy_todo y) as [|[h x] t]; [tauto|].
    destruct (add_f (c_forbidden c) (sy_store y) h x) as [[s' r] evs]. cbn. tauto.
  - destruct (nth_error (sy_pool y) i) as [t|]; [|tauto].
    destruct (blocked (c_beh c) (sy_released y) (t_ch t)); [tauto|].
    cbn. intros [<-|H]; [right; reflexivity|tauto].
  - cbn. tauto.
Qed.

Theorem ok_channel_deliveries_succeed c s hs sch d :
  In d (sy_log (run_sched c (init_sys s hs) sch)) -> c_beh c (d_ch d) <> BErr -> d_ok d = true.
Proof.
  intros Hin Hb.
  assert (G: forall sch y, In d (sy_log (run_sched c y sch)) ->
                           In d (sy_log y) \/ d_ok d = negb (is_err (c_beh c (d_ch d)))).
  { clear. induction sch as [|a sch IH]; intros y H; [left; exact H|].
    change (run_sched c y (a :: sch)) with (run_sched c (step c y a) sch) in H.
    destruct (IH (step c y a) H) as [H1|H1]; [|right; exact H1]. exact (step_ok_flag c y a d H1). }
  destruct (G _ _ Hin) as [H|H]; [destruct H|].
  rewrite H. destruct (c_beh c (d_ch d)); try reflexivity. contradiction.
Qed.

(* ------------------------------------------------------------------------------------------- *)
(* 3. ingestion does not depend on channels, behaviours or the schedule                          *)
(* ------------------------------------------------------------------------------------------- *)

Lemma ingestion_gen c sch : forall y,
  let n := ingests sch in
  let y' := run_sched c y sch in
  sy_store y' = run_f (c_forbidden c) (sy_store y) (firstn n (sy_todo y)) /\
  sy_todo y' = skipn n (sy_todo y) /\
  sy_results y' = rev (results_f (c_forbidden c) (sy_store y) (firstn n (sy_todo y))) ++ sy_results y.
Proof.
  induction sch as [|a sch IH]; intros y; [repeat split|].
  cbn zeta. cbn [run_sched fold_left]. fold (run_sched c (step c y a) sch).
  specialize (IH (step c y a)). cbn zeta in IH.
  destruct a as [|i|rc].
  - change (ingests (Ingest :: sch)) with (S (ingests sch)).
    cbn [step] in *. destruct (sy_todo y) as [|[h x] t] eqn:Htodo.
    + rewrite Htodo in IH. rewrite firstn_nil, skipn_nil in *. exact IH.
    + destruct (add_f (c_forbidden c) (sy_store y) h x) as [[s' r] evs] eqn:Ha.
      cbn [sy_store sy_todo sy_results] in IH.
      cbn [firstn skipn run_f results_f]. rewrite Ha. cbn [fst rev].
      destruct IH as (H1 & H2 & H3). repeat split; try assumption.
      rewrite H3, <- app_assoc. reflexivity.
  - change (ingests (Complete i :: sch)) with (ingests sch).
    assert (E: sy_store (step c y (Complete i)) = sy_store y /\ sy_todo (step c y (Complete i)) = sy_todo y
               /\ sy_results (step c y (Complete i)) = sy_results y).
    { cbn [step]. destruct (nth_error (sy_pool y) i) as [t|]; [|repeat split].
      destruct (blocked (c_beh c) (sy_released y) (t_ch t)); repeat split. }
    destruct E as (E1 & E2 & E3). rewrite E1, E2, E3 in IH. exact IH.
  - change (ingests (Release rc :: sch)) with (ingests sch). exact IH.
Qed.

(* ingestion_independent_of_channels: store, rest of the history and answers after a schedule are those of the
   sequential fold over the first (number of Ingest actions) submissions - whatever the registered channels,
   their behaviours, and the Complete/Release actions in between *)
Theorem ingestion_is_sequential c s hs sch :
  let n := ingests sch in
  let y := run_sched c (init_sys s hs) sch in
  sy_store y = run_f (c_forbidden c) s (firstn n hs) /\
  sy_todo y = skipn n hs /\
  rev (sy_results y) = results_f (c_forbidden c) s (firstn n hs).
Proof.
  cbn zeta. destruct (ingestion_gen c sch (init_sys s hs)) as (H1 & H2 & H3). cbn in *.
  repeat split; try assumption. rewrite H3, app_nil_r, rev_involutive. reflexivity.
Qed.

Theorem ingestion_independent_of_channels c1 c2 s hs sch1 sch2 :
  c_forbidden c1 = c_forbidden c2 -> ingests sch1 = ingests sch2 ->
  let y1 := run_sched c1 (init_sys s hs) sch1 in
  let y2 := run_sched c2 (init_sys s hs) sch2 in
  sy_store y1 = sy_store y2 /\ sy_todo y1 = sy_todo y2 /\ sy_results y1 = sy_results y2.
Proof.
  intros Hf Hn. cbn zeta.
  destruct (ingestion_gen c1 sch1 (init_sys s hs)) as (A1 & A2 & A3).
  destruct (ingestion_gen c2 sch2 (init_sys s hs)) as (B1 & B2 & B3).
  rewrite A1, A2, A3, B1, B2, B3, Hf, Hn. repeat split.
Qed.

(* the next submission is always processed, whatever is pending or blocked *)
Theorem ingest_never_blocked c y h x t : sy_todo y = (h, x) :: t ->
  sy_todo (step c y Ingest) = t /\
  sy_store (step c y Ingest) = fst (fst (add_f (c_forbidden c) (sy_store y) h x)).
Proof.
  intros Ht. cbn [step]. rewrite Ht.
  destruct (add_f (c_forbidden c) (sy_store y) h x) as [[s' r] evs]. split; reflexivity.
Qed.

(* ------------------------------------------------------------------------------------------- *)
(* 4. liveness of the model: sweeping completes everything that is not blocked                   *)
(* ------------------------------------------------------------------------------------------- *)

Lemma sweep_S n : sweep (S n) = Complete n :: sweep n.
Proof. unfold sweep. rewrite seq_S, rev_app_distr. reflexivity. Qed.

Lemma remove_nth_app {A} (p : list A) t q : remove_nth (length p) (p ++ t :: q) = p ++ q.
Proof. induction p as [|a p IH]; [reflexivity|]. cbn. rewrite IH. reflexivity. Qed.

Lemma nth_error_mid {A} (p : list A) t q : nth_error (p ++ t :: q) (length p) = Some t.
Proof. induction p as [|a p IH]; [reflexivity|exact IH]. Qed.

Definition blk (c : cfg) (rel : list chan) (t : task) : bool := blocked (c_beh c) rel (t_ch t).

Lemma sweep_spec c p : forall q y, sy_pool y = p ++ q ->
  let y' := run_sched c y (sweep (length p)) in
  sy_pool y' = filter (blk c (sy_released y)) p ++ q /\
  sy_released y' = sy_released y /\ sy_store y' = sy_store y /\ sy_todo y' = sy_todo y.
Proof.
  induction p as [|t p IH] using rev_ind; intros q y Hp; [repeat split; exact Hp|].
  cbn zeta. rewrite app_length, Nat.add_comm. cbn [length plus]. rewrite sweep_S.
  cbn [run_sched fold_left]. fold (run_sched c (step c y (Complete (length p))) (sweep (length p))).
  rewrite <- app_assoc in Hp. cbn [app] in Hp.
  cbn [step]. rewrite Hp, nth_error_mid.
  rewrite filter_app. cbn [filter]. unfold blk at 2.
  destruct (blocked (c_beh c) (sy_released y) (t_ch t)) eqn:Hb.
  - specialize (IH (t :: q) y Hp). cbn zeta in IH.
    destruct IH as (I1 & I2 & I3 & I4). rewrite I1, <- app_assoc. repeat split; assumption.
  - set (y1 := {| sy_store := sy_store y; sy_todo := sy_todo y; sy_results := sy_results y;
                  sy_pool := remove_nth (length p) (p ++ t :: q); sy_released := sy_released y;
                  sy_log := _ |}).
    assert (Hp1: sy_pool y1 = p ++ q) by (cbn; apply remove_nth_app).
    specialize (IH q y1 Hp1). cbn zeta in IH.
    destruct IH as (I1 & I2 & I3 & I4). rewrite I1, app_nil_r. repeat split; assumption.
Qed.

Lemma releases_spec c l : forall y,
  let y' := run_sched c y (map Release l) in
  sy_pool y' = sy_pool y /\ sy_store y' = sy_store y /\ sy_todo y' = sy_todo y /\
  sy_log y' = sy_log y /\ sy_released y' = rev l ++ sy_released y.
Proof.
  induction l as [|a l IH]; intros y; [repeat split|].
  cbn zeta. cbn [map run_sched fold_left]. fold (run_sched c (step c y (Release a)) (map Release l)).
  specialize (IH (step c y (Release a))). cbn zeta in IH.
  destruct IH as (I1 & I2 & I3 & I4 & I5). rewrite I1, I2, I3, I4, I5. cbn.
  rewrite <- app_assoc. repeat split.
Qed.

Lemma blocked_released c rel ch : In ch rel -> blocked (c_beh c) rel ch = false.
Proof.
  intros Hin. unfold blocked. destruct (c_beh c ch); try reflexivity.
  apply memC_In in Hin. unfold memC in Hin. rewrite Hin. reflexivity.
Qed.

Theorem drain_empties_pool c y :
  let y' := run_sched c y (drain y) in
  sy_pool y' = [] /\ sy_store y' = sy_store y /\ sy_todo y' = sy_todo y.
Proof.
  cbn zeta. unfold drain, run_sched. rewrite fold_left_app.
  fold (run_sched c y (map Release (map t_ch (sy_pool y)))).
  set (y1 := run_sched c y (map Release (map t_ch (sy_pool y)))).
  destruct (releases_spec c (map t_ch (sy_pool y)) y) as (R1 & R2 & R3 & R4 & R5). fold y1 in R1, R2, R3, R4, R5.
  fold (run_sched c y1 (sweep (length (sy_pool y)))).
  assert (Hp: sy_pool y1 = sy_pool y ++ []) by (rewrite app_nil_r; exact R1).
  destruct (sweep_spec c (sy_pool y) [] y1 Hp) as (S1 & S2 & S3 & S4).
  rewrite S1, S3, S4, R2, R3, app_nil_r. repeat split.
  assert (Hall: forall l, (forall t, In t l -> blk c (sy_released y1) t = false) -> filter (blk c (sy_released y1)) l = []).
  { induction l as [|a l IHl]; intros Hl; [reflexivity|]. cbn. rewrite (Hl a (or_introl eq_refl)).
    apply IHl. intros t Ht. apply Hl. right. exact Ht. }
  apply Hall. intros t Hin. unfold blk. apply blocked_released. rewrite R5. apply in_or_app. left.
  apply -> in_rev. apply in_map. exact Hin.
Qed.

Lemma ingests_repeat n : ingests (repeat Ingest n) = n.
Proof. induction n as [|n IH]; [reflexivity|]. cbn. unfold ingests in IH. cbn in IH. rewrite IH. reflexivity. Qed.

(* the hypotheses of one_event_per_stored are satisfiable for every history and configuration *)
Theorem complete_schedule_exists c s hs :
  exists sch, let y := run_sched c (init_sys s hs) sch in sy_todo y = [] /\ sy_pool y = [].
Proof.
  set (y1 := run_sched c (init_sys s hs) (repeat Ingest (length hs))).
  exists (repeat Ingest (length hs) ++ drain y1). cbn zeta.
  unfold run_sched. rewrite fold_left_app. fold (run_sched c (init_sys s hs) (repeat Ingest (length hs))).
  fold y1. fold (run_sched c y1 (drain y1)).
  destruct (drain_empties_pool c y1) as (D1 & D2 & D3). split; [|exact D1].
  rewrite D3. unfold y1.
  destruct (ingestion_is_sequential c s hs (repeat Ingest (length hs))) as (_ & H & _).
  rewrite H, ingests_repeat. apply skipn_all.
Qed.

Lemma pool_evs_filter_unblocked c rel ch l :
  blocked (c_beh c) rel ch = false -> pool_evs ch (filter (blk c rel) l) = [].
Proof.
  intros Hb. unfold pool_evs. induction l as [|t l IHl]; [reflexivity|].
  cbn [filter]. destruct (blk c rel t) eqn:Hbt; [|exact IHl].
  cbn [filter]. destruct (Nat.eqb (t_ch t) ch) eqn:He; [|exact IHl].
  apply Nat.eqb_eq in He. unfold blk in Hbt. rewrite He, Hb in Hbt. discriminate.
Qed.

(* a held slow channel (never released) does not suppress delivery on the others: once the history is ingested,
   completing whatever can complete gives every channel that is not held its full multiset *)
Theorem held_channel_does_not_suppress_others c s hs sch ch :
  NoDup (c_chans c) -> In ch (c_chans c) ->
  let y := run_sched c (init_sys s hs) sch in
  sy_todo y = [] ->
  blocked (c_beh c) (sy_released y) ch = false ->
  let y' := run_sched c y (sweep (length (sy_pool y))) in
  Permutation (log_evs ch y') (map event_of_row (stored_rows (c_forbidden c) s hs)).
Proof.
  intros Hnd Hin y Ht Hb y'.
  assert (Hp: sy_pool y = sy_pool y ++ []) by (rewrite app_nil_r; reflexivity).
  destruct (sweep_spec c (sy_pool y) [] y Hp) as (S1 & S2 & S3 & S4). fold y' in S1, S2, S3, S4.
  pose proof (accounted_at_all_times c s hs (sch ++ sweep (length (sy_pool y))) ch Hnd Hin) as H.
  cbn zeta in H. unfold run_sched in H. rewrite fold_left_app in H.
  fold (run_sched c (init_sys s hs) sch) in H. fold y in H.
  fold (run_sched c y (sweep (length (sy_pool y)))) in H. fold y' in H.
  rewrite S4, Ht in H. cbn [stored_rows map] in H. rewrite app_nil_r in H.
  rewrite S1, app_nil_r in H.
  rewrite (pool_evs_filter_unblocked c (sy_released y) ch (sy_pool y) Hb), app_nil_r in H. exact H.
Qed.

(* ------------------------------------------------------------------------------------------- *)
(* 5. the executable oracle is sound and complete for multiset equality                          *)
(* ------------------------------------------------------------------------------------------- *)

Lemma st_eqb_eq a b : st_eqb a b = true <-> a = b.
Proof. destruct a, b; cbn; split; intros H; try reflexivity; discriminate. Qed.

Lemma event_eqb_eq a b : event_eqb a b = true <-> a = b.
Proof.
  destruct a as [ao ai ap ah ac as_ av am an at_], b as [bo bi bp bh bc bs bv bm bn bt].
  unfold event_eqb. cbn. rewrite !andb_true_iff, !N.eqb_eq, !Z.eqb_eq, st_eqb_eq. split.
  - intros (((((((((_ & H1) & H2) & H3) & H4) & H5) & H6) & H7) & H8) & H9).
    destruct ao, bo. subst. reflexivity.
  - intros H. inversion H; subst. destruct bo. repeat split.
Qed.

Lemma remove1_perm e : forall l l', remove1 e l = Some l' -> Permutation l (e :: l').
Proof.
  induction l as [|a l IH]; intros l' H; [discriminate|]. cbn in H.
  destruct (event_eqb e a) eqn:He.
  - apply event_eqb_eq in He. inversion H; subst. reflexivity.
  - destruct (remove1 e l) as [t'|] eqn:Hr; [|discriminate]. inversion H; subst.
    rewrite (IH _ eq_refl). apply perm_swap.
Qed.

Lemma remove1_none e : forall l, remove1 e l = None -> ~ In e l.
Proof.
  induction l as [|a l IH]; intros H; [tauto|]. cbn in H.
  destruct (event_eqb e a) eqn:He; [discriminate|].
  destruct (remove1 e l); [discriminate|].
  intros [Ha|Hin]; [|exact (IH eq_refl Hin)].
  subst. assert (event_eqb e e = true) by (apply event_eqb_eq; reflexivity). congruence.
Qed.

(* mdiff a b = (a \ b, b \ a) as multisets *)
Lemma mdiff_spec a : forall b m x, mdiff a b = (m, x) ->
  exists common, Permutation a (m ++ common) /\ Permutation b (x ++ common) /\ (forall e, In e m -> ~ In e x).
Proof.
  induction a as [|e a IH]; intros b m x H.
  - cbn in H. inversion H; subst. exists []. rewrite !app_nil_r.
    split; [reflexivity|]. split; [reflexivity|]. intros e [].
  - cbn in H. destruct (remove1 e b) as [b'|] eqn:Hr.
    + destruct (IH _ _ _ H) as (cm & P1 & P2 & P3). exists (e :: cm).
      split; [|split].
      * rewrite P1. apply Permutation_middle.
      * rewrite (remove1_perm _ _ _ Hr), P2. apply Permutation_middle.
      * exact P3.
    + destruct (mdiff a b) as [m' x'] eqn:Hm. inversion H; subst.
      destruct (IH _ _ _ Hm) as (cm & P1 & P2 & P3). exists cm.
      split; [|split].
      * cbn. rewrite P1. reflexivity.
      * exact P2.
      * intros e' [<-|Hin]; [|apply P3; exact Hin].
        intros Hx. apply (remove1_none _ _ Hr). rewrite P2. apply in_or_app. left. exact Hx.
Qed.

Theorem mset_eqb_sound a b : mset_eqb a b = true -> Permutation a b.
Proof.
  unfold mset_eqb. destruct (mdiff a b) as [m x] eqn:H.
  destruct m; [|discriminate]. destruct x; [|discriminate]. intros _.
  destruct (mdiff_spec _ _ _ _ H) as (cm & P1 & P2 & _). cbn in *. rewrite P1, P2. reflexivity.
Qed.

Theorem mset_eqb_complete a : forall b, Permutation a b -> mset_eqb a b = true.
Proof.
  unfold mset_eqb. induction a as [|e a IH]; intros b P.
  - apply Permutation_nil in P. subst. reflexivity.
  - cbn. destruct (remove1 e b) as [b'|] eqn:Hr.
    + apply IH. apply Permutation_cons_inv with e. rewrite P. apply remove1_perm. exact Hr.
    + exfalso. apply (remove1_none _ _ Hr). rewrite <- P. left. reflexivity.
Qed.

(* the oracle says OK exactly when the channel received the multiset of the stored rows' events *)
Theorem check_channel_ok rows got :
  check_channel rows got = VOk <-> Permutation got (map event_of_row rows).
Proof.
  unfold check_channel. split.
  - intros H. symmetry. apply mset_eqb_sound. unfold mset_eqb.
    destruct (mdiff (map event_of_row rows) got) as [[|m ms] [|x xs]]; try reflexivity; try discriminate H.
    destruct (find (fun e => N.eqb (e_id e) (e_id m)) (x :: xs)); discriminate H.
  - intros P. symmetry in P. apply mset_eqb_complete in P. unfold mset_eqb in P.
    destruct (mdiff (map event_of_row rows) got) as [[|m ms] [|x xs]]; try reflexivity; discriminate P.
Qed.

(* ------------------------------------------------------------------------------------------- *)
(* 6. exactly one event per row of the store                                                     *)
(* ------------------------------------------------------------------------------------------- *)

Definition no_fail_after (hs : hist) := forall h x, In (h, x) hs -> forall k, x <> FailAfter k.

Lemma ids_update s l x : ids (update_state s l x) = ids s.
Proof.
  unfold ids, update_state. rewrite map_map. apply map_ext. intros r. destruct (memN (id r) l); reflexivity.
Qed.

(* a failing write that did not happen never adds a row: the ids of the store are unchanged *)
Lemma exec_prefix_ids ups r : forall s k, (k <= length ups)%nat ->
  ids (exec s (map mkupd ups ++ [WInsert r]) k) = ids s.
Proof.
  unfold exec. induction ups as [|p ups IH]; intros s k Hk.
  - assert (k = O) by (cbn in Hk; lia). subst. reflexivity.
  - destruct k as [|k]; [reflexivity|]. cbn [map app firstn fold_left].
    rewrite IH by (cbn in Hk; lia). cbn. apply ids_update.
Qed.

Lemma nth_error_ups ups r k w : nth_error (map mkupd ups ++ [WInsert r]) k = Some w ->
  (k <= length ups)%nat.
Proof.
  intros H. assert (k < length (map mkupd ups ++ [WInsert r]))%nat by (apply nth_error_Some; congruence).
  rewrite app_length, map_length in H0. cbn in H0. lia.
Qed.

(* one step: either the ids are unchanged and nothing is reported stored, or exactly the submission's id
   is added and it is reported stored *)
Lemma add_f_ids f s h x s' r evs : add_f f s h x = (s', r, evs) -> (forall k, x <> FailAfter k) ->
  (is_stored r = false /\ ids s' = ids s) \/
  (is_stored r = true /\ ids s' = s_id h :: ids s /\ ~ In (s_id h) (ids s)).
Proof.
  intros Ha Hx.
  destruct (is_stored r) eqn:Hs.
  - right. destruct r as [[o| | |]|w]; try discriminate.
    pose proof Ha as Ha'. unfold add_f in Ha'. destruct (plan f s h) as [o' ws] eqn:Hplan.
    destruct (fault_point x ws) as [[w done]|]; [discriminate|]. inversion Ha'; subst o'.
    destruct (plan_stored _ _ _ _ _ Hplan) as (Hnew & Hf & r & ups & Hws & Hid & _).
    subst ws. rewrite exec_all, exec_ups_insert by (rewrite Hid; exact Hnew).
    split; [reflexivity|]. split.
    + cbn. rewrite Hid. f_equal.
      clear. revert s. induction ups as [|p ups IH]; intros s; [reflexivity|]. cbn. unfold apply_ups in IH.
      rewrite IH. apply ids_update.
    + apply by_hash_none. exact Hnew.
  - left. split; [reflexivity|].
    unfold add_f in Ha. destruct (plan f s h) as [o ws] eqn:Hplan.
    destruct (fault_point x ws) as [[w done]|] eqn:Hfp.
    + inversion Ha; subst. clear Ha.
      destruct o as [o| | |].
      * destruct (plan_stored _ _ _ _ _ Hplan) as (_ & _ & r & ups & Hws & _). subst ws.
        destruct x as [|k|k]; cbn in Hfp; try discriminate.
        -- destruct (nth_error (map mkupd ups ++ [WInsert r]) k) eqn:Hn; [|discriminate].
           inversion Hfp; subst. apply exec_prefix_ids. eapply nth_error_ups; eauto.
        -- exfalso. eapply Hx. reflexivity.
      * rewrite (plan_not_stored_no_insert _ _ _ _ _ Hplan) by discriminate. unfold exec. rewrite firstn_nil. reflexivity.
      * rewrite (plan_not_stored_no_insert _ _ _ _ _ Hplan) by discriminate. unfold exec. rewrite firstn_nil. reflexivity.
      * rewrite (plan_not_stored_no_insert _ _ _ _ _ Hplan) by discriminate. unfold exec. rewrite firstn_nil. reflexivity.
    + inversion Ha; subst. clear Ha. destruct o as [o| | |]; try discriminate;
        rewrite (plan_not_stored_no_insert _ _ _ _ _ Hplan) by discriminate; reflexivity.
Qed.

(* over a history without "reported failed but happened" writes: the ids of the final store are the ids of the
   rows reported stored (newest first) followed by the ids that were there before *)
Lemma run_f_ids f hs : forall s, no_fail_after hs -> NoDup (ids s) ->
  ids (run_f f s hs) = rev (map id (stored_rows f s hs)) ++ ids s /\ NoDup (ids (run_f f s hs)).
Proof.
  induction hs as [|[h x] hs IH]; intros s Hnf Hnd; [split; [reflexivity|exact Hnd]|].
  cbn [run_f stored_rows]. destruct (add_f f s h x) as [[s' r] evs] eqn:Ha. cbn [fst].
  assert (Hnf': no_fail_after hs) by (intros h' x' Hin; apply (Hnf h' x'); right; exact Hin).
  assert (Hx: forall k, x <> FailAfter k) by (apply (Hnf h x); left; reflexivity).
  destruct (add_f_ids _ _ _ _ _ _ _ Ha Hx) as [(Hs & Hids)|(Hs & Hids & Hni)]; rewrite Hs.
  - destruct (IH s' Hnf') as (I1 & I2); [rewrite Hids; exact Hnd|].
    split; [|exact I2]. rewrite I1, Hids. reflexivity.
  - destruct r as [[o| | |]|w]; try discriminate.
    destruct (event_fields_equal_row _ _ _ _ _ _ _ Ha) as (w & Hw & _ & Hwid & _).
    rewrite Hw. destruct (IH s' Hnf') as (I1 & I2); [rewrite Hids; constructor; assumption|].
    split; [|exact I2]. rewrite I1, Hids. cbn [app map rev]. rewrite Hwid, <- app_assoc. reflexivity.
Qed.

Definition count_id (i : N) (l : list event) : nat := length (filter (fun e => N.eqb (e_id e) i) l).

Lemma count_id_perm i a b : Permutation a b -> count_id i a = count_id i b.
Proof.
  intros P. unfold count_id. induction P as [|x l l' P IH|x y l|l l' l'' P1 IH1 P2 IH2]; cbn.
  - reflexivity.
  - destruct (N.eqb (e_id x) i); cbn; rewrite IH; reflexivity.
  - destruct (N.eqb (e_id x) i), (N.eqb (e_id y) i); reflexivity.
  - congruence.
Qed.

Lemma count_id_nodup i (rows : list row) : NoDup (map id rows) ->
  count_id i (map event_of_row rows) = if existsb (N.eqb i) (map id rows) then 1%nat else 0%nat.
Proof.
  unfold count_id. induction rows as [|r rows IH]; intros Hnd; [reflexivity|].
  inversion Hnd as [|? ? Hni Hnd']; subst. cbn. rewrite (N.eqb_sym i (id r)).
  destruct (N.eqb (id r) i) eqn:He; cbn.
  - apply N.eqb_eq in He. subst i. rewrite IH by exact Hnd'.
    destruct (existsb (N.eqb (id r)) (map id rows)) eqn:Hex; [|reflexivity].
    exfalso. apply Hni. apply existsb_exists in Hex. destruct Hex as (j & Hin & Hj).
    apply N.eqb_eq in Hj. subst. exact Hin.
  - apply IH. exact Hnd'.
Qed.

Lemma nodup_app_l {A} (l l' : list A) : NoDup (l ++ l') -> NoDup l.
Proof.
  induction l as [|a l IH]; intros H; [constructor|]. inversion H as [|? ? Hni Hnd]; subst.
  constructor; [intros Hin; apply Hni; apply in_or_app; left; exact Hin|apply IH; exact Hnd].
Qed.

(* exactly one event per header of the final store that was not there initially; none for the initial ones *)
Theorem exactly_one_event_per_new_row c s hs sch ch i :
  NoDup (c_chans c) -> In ch (c_chans c) -> NoDup (ids s) -> no_fail_after hs ->
  let y := run_sched c (init_sys s hs) sch in
  sy_todo y = [] -> sy_pool y = [] ->
  In i (ids (sy_store y)) ->
  count_id i (log_evs ch y) = if memN i (ids s) then 0%nat else 1%nat.
Proof.
  intros Hnd Hin Hs Hnf y Ht Hp Hi.
  pose proof (one_event_per_stored c s hs sch ch Hnd Hin Ht Hp) as P. fold y in P.
  rewrite (count_id_perm _ _ _ P).
  destruct (ingestion_is_sequential c s hs sch) as (E1 & E2 & _). fold y in E1, E2.
  assert (Hall: firstn (ingests sch) hs = hs).
  { rewrite Ht in E2. rewrite <- (firstn_skipn (ingests sch) hs) at 2. rewrite <- E2, app_nil_r. reflexivity. }
  rewrite Hall in E1.
  destruct (run_f_ids (c_forbidden c) hs s Hnf Hs) as (I1 & I2).
  rewrite <- E1 in I1, I2. rewrite I1 in I2, Hi.
  set (rows := stored_rows (c_forbidden c) s hs) in *.
  assert (Hndr: NoDup (map id rows)).
  { apply nodup_app_l in I2. apply NoDup_rev in I2. rewrite rev_involutive in I2. exact I2. }
  rewrite count_id_nodup by exact Hndr.
  unfold memN.
  destruct (existsb (N.eqb i) (ids s)) eqn:Hold.
  - destruct (existsb (N.eqb i) (map id rows)) eqn:Hnew; [|reflexivity].
    exfalso. apply existsb_exists in Hold. destruct Hold as (j & Hj & Hje). apply N.eqb_eq in Hje. subst j.
    apply existsb_exists in Hnew. destruct Hnew as (j & Hj' & Hje). apply N.eqb_eq in Hje. subst j.
    revert I2. clear - Hj Hj'. intros I2.
    apply in_rev in Hj'. apply in_split in Hj'. destruct Hj' as (l1 & l2 & Hl). rewrite Hl in I2.
    rewrite <- app_assoc in I2. apply NoDup_remove_2 in I2. apply I2.
    apply in_or_app. right. apply in_or_app. right. exact Hj.
  - destruct (existsb (N.eqb i) (map id rows)) eqn:Hnew; [reflexivity|].
    exfalso. apply in_app_or in Hi. destruct Hi as [Hi|Hi].
    + apply in_rev in Hi. assert (existsb (N.eqb i) (map id rows) = true); [|congruence].
      apply existsb_exists. exists i. split; [exact Hi|apply N.eqb_refl].
    + assert (existsb (N.eqb i) (ids s) = true); [|congruence].
      apply existsb_exists. exists i. split; [exact Hi|apply N.eqb_refl].
Qed.

(* ------------------------------------------------------------------------------------------- *)
(* 7. examples: the hypotheses of the theorems are satisfiable on a non-trivial run              *)
(* ------------------------------------------------------------------------------------------- *)

Definition xpl (bits k : Z) : payload :=
  {| p_bits := bits; p_ver := 1; p_merkle := 7%N; p_ts := 1600000000 + k; p_nonce := k |}.
Definition xsub (i p : N) (bits k : Z) : src := {| s_id := i; s_prev := p; s_pl := xpl bits k |}.
Definition ex_s0 : store := init 1 (xpl 486604799 0).
(* header 2 on genesis; its sibling 3 with more work (a reorganisation) whose first state update fails, then
   succeeds on retry; a duplicate; a forbidden hash; an orphan whose insert happens but reports an error *)
Definition ex_hs : hist :=
  [ (xsub 2 1 545259519 1, NoFault);
    (xsub 3 1 541065215 2, FailBefore 0);
    (xsub 3 1 541065215 2, NoFault);
    (xsub 2 1 545259519 1, NoFault);
    (xsub 9 1 545259519 3, NoFault);
    (xsub 4 77 545259519 4, FailAfter 0) ].
(* three channels: ok, slow, failing *)
Definition ex_cfg : cfg :=
  {| c_forbidden := [9%N]; c_chans := [0; 1; 2]%nat;
     c_beh := fun c => match c with O => BOk | S O => BSlow | _ => BErr end |}.
Definition ex_sch : list action :=
  [Ingest; Complete 1; Ingest; Ingest; Complete 0; Complete 0; Ingest; Ingest; Ingest; Complete 3; Release 1%nat]
    ++ sweep 6.
Definition ex_y : sys := run_sched ex_cfg (init_sys ex_s0 ex_hs) ex_sch.

Example ex_hypotheses :
  NoDup (c_chans ex_cfg) /\ NoDup (ids ex_s0) /\ sy_todo ex_y = [] /\ sy_pool ex_y = [] /\
  no_fail_after (firstn 5 ex_hs).
Proof.
  split; [repeat constructor; cbn; intuition discriminate|].
  split; [repeat constructor; cbn; tauto|].
  split; [vm_compute; reflexivity|]. split; [vm_compute; reflexivity|].
  intros h x Hin k Hk. subst x. cbn in Hin.
  repeat (destruct Hin as [Hin|Hin]; [discriminate Hin|]). exact Hin.
Qed.

Example ex_answers :
  map is_stored (rev (sy_results ex_y)) = [true; false; true; false; false; false] /\
  map (fun r => (id r, st r, height r, cum r)) (stored_rows [9%N] ex_s0 ex_hs)
    = [(2%N, Longest, 1, 4295032835); (3%N, Longest, 1, 4295032837)].
Proof. split; vm_compute; reflexivity. Qed.

(* each of the three channels was handed the events of headers 2 and 3, once each, in its own order;
   the failing channel's deliveries are marked failed *)
Example ex_deliveries :
  map (fun d => (d_ch d, e_id (d_ev d), d_ok d)) (rev (sy_log ex_y)) =
  [(0, 2%N, true); (2, 3%N, false); (1, 3%N, true); (0, 3%N, true); (2, 2%N, false); (1, 2%N, true)]%nat.
Proof. vm_compute. reflexivity. Qed.

(* while channel 1 is held (no Release), the whole history is ingested and channels 0 and 2 are complete *)
Example ex_held :
  let y := run_sched ex_cfg (init_sys ex_s0 ex_hs) (repeat Ingest 6 ++ sweep 6) in
  sy_todo y = [] /\ map (fun t => (t_ch t, e_id (t_ev t))) (sy_pool y) = [(1, 2%N); (1, 3%N)]%nat /\
  map e_id (log_evs 0%nat y) = [2%N; 3%N] /\ map e_id (log_evs 2%nat y) = [2%N; 3%N].
Proof. vm_compute. repeat split. Qed.

(* OBSERVATION (not part of the statement, which speaks of headers REPORTED as stored): when the insert happens
   but the repository reports an error (FailAfter on the insert), the row is in the table, Add answers
   HeaderSaveFail, no event is emitted, and a retry is answered "duplicate" - that header never gets an event. *)
Example ex_row_without_event :
  In 4%N (ids (sy_store ex_y)) /\ count_id 4%N (log_evs 0%nat ex_y) = 0%nat /\
  snd (fst (add_f [9%N] (sy_store ex_y) (xsub 4 77 545259519 4) NoFault)) = Done Duplicate.
Proof. vm_compute. repeat split. left. reflexivity. Qed.
