(* C19 model: compact bits -> target -> work, and the FastLog2Floor ladder.
   Definitions only (no proofs) so that extraction still works when a proof breaks.
   Mirrors /repo/domains/chainwork.go (CompactToBig, calcWork) and
   /repo/domains/headers.go (FastLog2Floor).  Inputs are uint32 in Go: every theorem
   carries 0 <= c < 2^32. *)
From Coq Require Import ZArith Bool.
Open Scope Z_scope.

Definition mant (c : Z) := Z.land c 8388607.                  (* compact & 0x007fffff *)
Definition isneg (c : Z) := negb (Z.land c 8388608 =? 0).     (* compact & 0x00800000 != 0 *)
Definition expo (c : Z) := Z.shiftr c 24.                     (* uint(compact >> 24) *)

Definition compact_to_big (c : Z) : Z :=
  let m := mant c in
  let e := expo c in
  let bn := if e <=? 3 then Z.shiftr m (8 * (3 - e)) else Z.shiftl m (8 * (e - 3)) in
  if isneg c then - bn else bn.

Definition calc_work (c : Z) : Z :=
  let t := compact_to_big c in
  if t <=? 0 then 0 else Z.shiftl 1 256 / (t + 1).

(* one iteration of the FastLog2Floor loop, state = (n, rv) *)
Definition lstep (mask k : Z) (st : Z * Z) : Z * Z :=
  let '(n, rv) := st in
  if negb (Z.land n mask =? 0) then (Z.shiftr n k, rv + k) else (n, rv).

Definition fast_log2 (n : Z) : Z :=
  snd (lstep 2 1 (lstep 12 2 (lstep 240 4 (lstep 65280 8 (lstep 4294901760 16 (n, 0)))))).

(* ---- declarative specification (the statement of C19) ---- *)
Definition target_spec (c : Z) : Z :=
  let m := c mod 2^23 in let e := c / 2^24 in
  let mag := if e <? 3 then m / 256^(3 - e) else m * 256^(e - 3) in
  if Z.testbit c 23 then - mag else mag.

Definition work_of_target (t : Z) : Z := if t <=? 0 then 0 else 2^256 / (t + 1).

Definition work_spec_fn (c : Z) : Z := work_of_target (target_spec c).
