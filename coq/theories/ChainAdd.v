(* chainService.Add preserves the invariant, and the stored result is exactly what the
   history-level specification prescribes (C01). *)
From Coq Require Import ZArith NArith List Lia Bool.
From BHS Require Import Work Store Chain ChainSpec StoreProofs ChainInv ChainReorg.
Import ListNotations.
Open Scope Z_scope.

Lemma best_map f s : same_struct f -> best (map f s) = option_map f (best s).
Proof.
  intros Hf. induction s as [|r s IH]; [reflexivity|]. cbn. rewrite IH.
  destruct (Hf r) as (_ & _ & _ & _ & E5 & E6 & _). rewrite E6.
  destruct (best s) as [b|]; cbn.
  - destruct (Hf b) as (_ & _ & _ & _ & B5 & _). rewrite B5, E5. destruct (orph r); [reflexivity|]. destruct (cum b <? cum r); reflexivity.
  - destruct (orph r); reflexivity.
Qed.

Definition Inv2 (s : store) (tip : N) := Inv s tip /\ best s = by_hash s tip.

(* ---- add, written out (what plan + exec compute when the header is new) ---- *)
Definition add_explicit (f : list N) (s : store) (h : src) : store * outcome :=
  match by_hash s (s_id h) with
  | Some _ => (s, Duplicate)
  | None =>
    if memN (s_id h) f then (s, Forbidden) else
    let r0 := create_header s h in
    let conc := match st r0 with Orphan => false | Longest => has_L_at s (height r0) | Stale => true end in
    if negb conc then (r0 :: s, Stored (st r0))
    else match tipB s with
         | None => (s, ErrNoTip)
         | Some t =>
           if cum t <? cum r0 then
             let stale := stale_back s (s_prev h) in
             let lh := min_height stale (height r0) in
             let concl := longest_from s lh in
             let s1 := update_state s (ids concl) Stale in
             let s2 := update_state s1 (ids stale) Longest in
             (set_st Longest r0 :: s2, Stored Longest)
           else (set_st Stale r0 :: s, Stored Stale)
         end
  end.

Lemma exec_all s ws : exec s ws (length ws) = fold_left apply_write ws s.
Proof. unfold exec. rewrite firstn_all. reflexivity. Qed.

Lemma by_hash_update s l x i :
  by_hash (update_state s l x) i = option_map (fun r => if memN (id r) l then set_st x r else r) (by_hash s i).
Proof. unfold update_state. apply by_hash_map. apply same_struct_upd. Qed.

Lemma add_is_explicit f s h : add f s h = add_explicit f s h.
Proof.
  unfold add, add_explicit, plan.
  destruct (by_hash s (s_id h)) as [x|] eqn:Hnew; [reflexivity|].
  destruct (memN (s_id h) f); [reflexivity|].
  set (r0 := create_header s h).
  assert (Hid: id r0 = s_id h) by reflexivity.
  destruct (negb match st r0 with Orphan => false | Longest => has_L_at s (height r0) | Stale => true end).
  - rewrite exec_all. cbn. rewrite ?Hid, Hnew. reflexivity.
  - destruct (tipB s) as [t|]; [|reflexivity].
    destruct (cum t <? cum r0).
    + rewrite exec_all. cbn [fold_left apply_write length id set_st].
      rewrite !by_hash_update, ?Hid, Hnew. reflexivity.
    + rewrite exec_all. cbn. rewrite ?Hid, Hnew. reflexivity.
Qed.

Lemma st_match x : match x with Orphan => Orphan | Longest => Longest | Stale => Stale end = x.
Proof. destruct x; reflexivity. Qed.

(* label-erasing map: the specification's arrival records carry a dummy label *)
Definition dummy (r : row) : row := set_st (if orph r then Orphan else Stale) r.

Lemma same_struct_dummy : same_struct dummy.
Proof. intros r. unfold dummy. cbn. repeat split; reflexivity. Qed.

Lemma dummy_set_st x r : dummy (set_st x r) = dummy r.
Proof. reflexivity. Qed.

Lemma dummy_update s l x : map dummy (update_state s l x) = map dummy s.
Proof.
  unfold update_state. rewrite map_map. apply map_ext. intros r.
  destruct (memN (id r) l); [apply dummy_set_st| reflexivity].
Qed.

(* what Add does to the tip, for ANY work value: an orphan never moves it; a child of the tip always becomes the
   tip (no work comparison - this is where zero-work headers depart from the specification); any other connected
   header becomes the tip iff its cumulative work is strictly greater *)
Definition tip_rule (s : store) (tip : N) (r : row) : N :=
  if orph r then tip
  else if N.eqb (prev r) tip then id r
  else match by_hash s tip with
       | Some t => if cum t <? cum r then id r else tip
       | None => tip
       end.

Lemma tip_rule_orph s tip r : orph r = true -> tip_rule s tip r = tip.
Proof. intros H. unfold tip_rule. rewrite H. reflexivity. Qed.
Lemma tip_rule_ext s tip r : orph r = false -> prev r = tip -> tip_rule s tip r = id r.
Proof. intros H E. unfold tip_rule. rewrite H, E, N.eqb_refl. reflexivity. Qed.
Lemma tip_rule_cmp s tip r t : orph r = false -> prev r <> tip -> by_hash s tip = Some t ->
  tip_rule s tip r = if cum t <? cum r then id r else tip.
Proof. intros H E Ht. unfold tip_rule. rewrite H, Ht. destruct (N.eqb_spec (prev r) tip); [contradiction| reflexivity]. Qed.

(* ---- one submission ---- *)
Theorem add_inv_gen f s tip h :
  Inv s tip -> s_id h <> 0%N -> by_hash s (s_id h) = None -> memN (s_id h) f = false ->
  exists s2 x tip', add f s h = (set_st x (create_header s h) :: s2, Stored x) /\
                    Inv (set_st x (create_header s h) :: s2) tip' /\
                    (best s = by_hash s tip -> 0 < calc_work (p_bits (s_pl h)) ->
                     best (set_st x (create_header s h) :: s2) = by_hash (set_st x (create_header s h) :: s2) tip') /\
                    map dummy s2 = map dummy s /\
                    tip' = tip_rule s tip (create_header s h).
Proof.
  intros HI Hz Hnew Hnf. pose proof HI as (Hwf & (t & Ht & Hto) & Hl).
  pose proof (by_hash_none s (s_id h) Hnew) as Hfresh.
  assert (Hne_tip: s_id h <> tip). { intro E. subst. congruence. }
  rewrite add_is_explicit. unfold add_explicit. rewrite Hnew, Hnf.
  set (HB := best s = by_hash s tip).
  unfold create_header. rewrite st_match.
  set (hid := s_id h) in *. set (hprev := s_prev h) in *. set (w := calc_work (p_bits (s_pl h))) in *.
  set (p := by_hash s hprev).
  set (r0 := {| id := hid; prev := hprev;
                height := match p with Some p0 => height p0 | None => 0 end + 1;
                work := w;
                cum := match p with Some p0 => cum p0 | None => 0 end + w;
                orph := st_eqb match p with Some p0 => st p0 | None => Orphan end Orphan;
                st := match p with Some p0 => st p0 | None => Orphan end; pl := s_pl h |}).
  assert (Hbh_cons: forall r, id r = hid -> by_hash (r :: s) tip = by_hash s tip).
  { intros r E. unfold by_hash. cbn. rewrite E. destruct (N.eqb_spec hid tip); [contradiction| reflexivity]. }
  destruct p as [p0|] eqn:Ep; subst p.
  2:{ (* unknown parent: orphan *)
    cbn [negb st r0]. exists s, Orphan, tip. change (set_st Orphan r0) with r0. split; [reflexivity|]. split; [|split; [|split; [reflexivity|]]].
    - apply insert_keep; auto. unfold row_ok. cbn [prev r0]. rewrite Ep. cbn. auto.
    - intros Hbest Hw. try unfold HB in Hbest. cbn [best]. cbn [orph r0 st_eqb]. rewrite (Hbh_cons r0 eq_refl). rewrite Hbest, Ht. reflexivity.
    - symmetry. apply tip_rule_orph. reflexivity. }
  destruct (by_hash_in _ _ _ Ep) as [Hp0in Hp0id].
  assert (Hok: row_ok s r0).
  { unfold row_ok. cbn [prev r0]. rewrite Ep. cbn [orph height cum work r0]. repeat split.
    destruct (st p0) eqn:E; cbn; symmetry.
    - destruct (orph p0) eqn:Eo; [|reflexivity]. apply (st_O_iff s tip p0 HI Hp0in) in Eo. congruence.
    - destruct (orph p0) eqn:Eo; [|reflexivity]. apply (st_O_iff s tip p0 HI Hp0in) in Eo. congruence.
    - apply (st_O_iff s tip p0 HI Hp0in). exact E. }
  assert (Hreorg: orph p0 = false -> orph r0 = false -> hprev <> tip -> cum t <? cum r0 = true ->
     let s2 := update_state (update_state s (ids (longest_from s (min_height (stale_back s hprev) (height r0)))) Stale) (ids (stale_back s hprev)) Longest in
     Inv (set_st Longest r0 :: s2) hid /\ (best s = by_hash s tip -> 0 < w -> best (set_st Longest r0 :: s2) = by_hash (set_st Longest r0 :: s2) hid) /\ map dummy s2 = map dummy s /\ hid = tip_rule s tip r0).
  { intros Horph0 Hro Hpne Ecmp s2. split; [|split; [|split]].
    - exact (reorg_inv s tip p0 r0 HI Ep Horph0 Hfresh Hz Hok Hro).
    - intros Hbest Hw. try unfold HB in Hbest. cbn [best]. unfold s2, update_state. rewrite !(best_map _ _ (same_struct_upd _ _)), Hbest, Ht.
      cbn [option_map orph set_st]. rewrite Hro.
      unfold by_hash. cbn [find id set_st r0]. rewrite N.eqb_refl.
      match goal with |- (if ?c then _ else _) = _ => replace c with true; [reflexivity|] end.
      symmetry. rewrite <- Ecmp.
      destruct (memN (id t) _); cbn; destruct (memN (id t) _); reflexivity.
    - unfold s2. rewrite !dummy_update. reflexivity.
    - rewrite (tip_rule_cmp s tip r0 t Hro Hpne Ht), Ecmp. reflexivity. }
  cbn [st r0].
  destruct (st p0) eqn:Est.
  - (* parent on the longest chain *)
    assert (Horph0: orph p0 = false).
    { destruct (orph p0) eqn:Eo; [|reflexivity]. apply (st_O_iff s tip p0 HI Hp0in) in Eo. congruence. }
    assert (Hro: orph r0 = false) by reflexivity.
    replace (height r0) with (height p0 + 1) by reflexivity.
    destruct (has_L_at s (height p0 + 1)) eqn:Ehas; cbn [negb].
    + (* a competing longest header exists at that height *)
      rewrite (tipB_is_tip s tip HI), Ht.
      assert (Hpne: hprev <> tip).
      { intro E. rewrite E in Ep. assert (Ept: p0 = t) by congruence. subst p0.
        unfold has_L_at in Ehas. apply existsb_exists in Ehas. destruct Ehas as (y & Hy & Hpy).
        apply andb_prop in Hpy. destruct Hpy as [H1 H2]. apply st_eqb_eq in H1. apply Z.eqb_eq in H2.
        destruct (tip_height_max s tip t HI Ht y Hy H1) as [->|Hlt]; lia. }
      destruct (cum t <? cum r0) eqn:Ecmp.
      * eexists _, Longest, hid. split; [reflexivity|]. exact (Hreorg Horph0 Hro Hpne eq_refl).
      * exists s, Stale, tip. split; [reflexivity|]. split; [|split; [|split; [reflexivity|]]]; [| |rewrite (tip_rule_cmp s tip r0 t Hro Hpne Ht), Ecmp; reflexivity].
        -- apply insert_keep; auto; try reflexivity.
        -- intros Hbest Hw. try unfold HB in Hbest. cbn [best]. cbn [orph set_st cum]. rewrite Hro. rewrite (Hbh_cons (set_st Stale r0) eq_refl), Hbest, Ht.
           rewrite Ecmp. reflexivity.
    + (* nothing above the parent: it is the tip, the header extends it *)
      pose proof (parent_is_tip s tip p0 HI Hp0in Est Ehas) as Hpt.
      exists s, Longest, hid. replace (set_st Longest r0) with r0 by reflexivity.
      split; [reflexivity|]. split; [|split; [|split; [reflexivity|]]]; [| |symmetry; apply tip_rule_ext; [exact Hro| cbn [prev r0]; congruence]].
      * apply (insert_extend s tip r0 HI Hfresh Hz Hok); [cbn; congruence| reflexivity| exact Hro].
      * intros Hbest Hw. try unfold HB in Hbest. cbn [best]. rewrite Hro. rewrite Hbest, Ht. unfold by_hash at 1. cbn [find id r0]. rewrite N.eqb_refl.
        assert (Hpt': p0 = t).
        { destruct (by_hash_in _ _ _ Ht) as [Htin Htid].
          apply (nodup_ids_in s (wf_nodup s Hwf)); auto. congruence. }
        subst p0.
        cbn [cum r0]. destruct (Z.ltb_spec (cum t) (cum t + w)) as [_|Hge]; [reflexivity| lia].
  - (* parent stale *)
    cbn [negb]. rewrite (tipB_is_tip s tip HI), Ht.
    assert (Horph0: orph p0 = false).
    { destruct (orph p0) eqn:Eo; [|reflexivity]. apply (st_O_iff s tip p0 HI Hp0in) in Eo. congruence. }
    assert (Hro: orph r0 = false) by reflexivity.
    assert (Hpne: hprev <> tip).
    { intro E. rewrite E in Ep. assert (Ept: p0 = t) by congruence. subst p0.
      destruct (tip_is_L s tip t HI Ht) as [_ HtL]. congruence. }
    destruct (cum t <? cum r0) eqn:Ecmp.
    + eexists _, Longest, hid. split; [reflexivity|]. exact (Hreorg Horph0 Hro Hpne eq_refl).
    + exists s, Stale, tip. replace (set_st Stale r0) with r0 by reflexivity.
      split; [reflexivity|]. split; [|split; [|split; [reflexivity|]]]; [| |rewrite (tip_rule_cmp s tip r0 t Hro Hpne Ht), Ecmp; reflexivity].
      * apply insert_keep; auto; try reflexivity.
      * intros Hbest Hw. try unfold HB in Hbest. cbn [best]. rewrite Hro. rewrite (Hbh_cons r0 eq_refl), Hbest, Ht.
        rewrite Ecmp. reflexivity.
  - (* parent orphan *)
    cbn [negb]. exists s, Orphan, tip. replace (set_st Orphan r0) with r0 by reflexivity.
    split; [reflexivity|]. split; [|split; [|split; [reflexivity|]]]; [| |symmetry; apply tip_rule_orph; reflexivity].
    + apply insert_keep; auto; try reflexivity.
    + intros Hbest Hw. try unfold HB in Hbest. cbn [best]. cbn [orph r0 st_eqb]. rewrite (Hbh_cons r0 eq_refl). rewrite Hbest, Ht. reflexivity.
Qed.

(* the structural invariant is preserved by EVERY submission (no assumption on the work) *)
Corollary add_inv f s tip h :
  Inv s tip -> s_id h <> 0%N -> by_hash s (s_id h) = None -> memN (s_id h) f = false ->
  exists s2 x tip', add f s h = (set_st x (create_header s h) :: s2, Stored x) /\
                    Inv (set_st x (create_header s h) :: s2) tip' /\ map dummy s2 = map dummy s.
Proof.
  intros HI Hz Hnew Hnf. destruct (add_inv_gen f s tip h HI Hz Hnew Hnf) as (s2 & x & tip' & E & HI' & _ & Hd & _).
  exists s2, x, tip'. auto.
Qed.

(* with positive work the tip is also the specification's best header *)
Corollary add_inv2 f s tip h :
  Inv2 s tip -> 0 < calc_work (p_bits (s_pl h)) -> s_id h <> 0%N -> by_hash s (s_id h) = None -> memN (s_id h) f = false ->
  exists s2 x tip', add f s h = (set_st x (create_header s h) :: s2, Stored x) /\
                    Inv2 (set_st x (create_header s h) :: s2) tip' /\
                    map dummy s2 = map dummy s.
Proof.
  intros [HI Hbest] Hw Hz Hnew Hnf. destruct (add_inv_gen f s tip h HI Hz Hnew Hnf) as (s2 & x & tip' & E & HI' & Hb & Hd & _).
  exists s2, x, tip'. split; [exact E|]. split; [split; [exact HI'| exact (Hb Hbest Hw)]| exact Hd].
Qed.
