(* Proofs about the merkle-root read paths (C02, C08) under the ingestion invariant of the chain library. *)
From Coq Require Import ZArith NArith List Lia Bool.
From BHS Require Import Work Store Chain ChainSpec StoreProofs ChainInv ChainReorg ChainAdd ChainMain ChainFields Merkle.
Import ListNotations.
Open Scope Z_scope.

(* ------------------------------------------------------------------------------------------ *)
(* shared facts                                                                               *)
(* ------------------------------------------------------------------------------------------ *)
Lemma is_L_true r : is_L r = true <-> st r = Longest.
Proof. unfold is_L. apply st_eqb_eq. Qed.

Lemma is_L_false r : is_L r = false <-> st r <> Longest.
Proof.
  split.
  - intros H E. apply is_L_true in E. congruence.
  - intros H. destruct (is_L r) eqn:E; [|reflexivity]. apply is_L_true in E. contradiction.
Qed.

Lemma tip_height_ge s : forall m, tip_height s = Some m -> forall r, In r s -> st r = Longest -> height r <= m.
Proof.
  induction s as [|a s IH]; intros m Hm r Hr HL; [inversion Hr|]. cbn in Hm.
  destruct (is_L a) eqn:Ea.
  - destruct (tip_height s) as [m'|] eqn:Et; inversion Hm; subst m; clear Hm.
    + destruct Hr as [<-|Hr]; [lia|]. specialize (IH m' eq_refl r Hr HL). lia.
    + destruct Hr as [<-|Hr]; [lia|]. exfalso.
      clear IH Ea. induction s as [|b s IHs]; [inversion Hr|]. cbn in Et.
      destruct (is_L b) eqn:Eb; [discriminate|].
      destruct Hr as [<-|Hr]; [apply is_L_true in HL; congruence| apply IHs; assumption].
  - destruct Hr as [<-|Hr]; [apply is_L_true in HL; congruence| apply (IH m Hm r Hr HL)].
Qed.

Lemma tip_height_attained s : forall m, tip_height s = Some m -> exists r, In r s /\ st r = Longest /\ height r = m.
Proof.
  induction s as [|a s IH]; intros m Hm; [discriminate|]. cbn in Hm.
  destruct (is_L a) eqn:Ea.
  - apply is_L_true in Ea.
    destruct (tip_height s) as [m'|] eqn:Et; inversion Hm; subst m; clear Hm.
    + destruct (Z.max_spec (height a) m') as [[Hlt Hx]|[Hge Hx]]; rewrite Hx.
      * destruct (IH m' eq_refl) as (r & Hr & HL & Hh). exists r. split; [right; exact Hr| split; assumption].
      * exists a. split; [left; reflexivity| split; [exact Ea| reflexivity]].
    + exists a. split; [left; reflexivity| split; [exact Ea| reflexivity]].
  - destruct (IH m Hm) as (r & Hr & HL & Hh). exists r. split; [right; exact Hr| split; assumption].
Qed.

Lemma tip_height_some s r : In r s -> st r = Longest -> exists m, tip_height s = Some m.
Proof.
  induction s as [|a s IH]; intros Hr HL; [inversion Hr|]. cbn.
  destruct (is_L a) eqn:Ea; [eexists; reflexivity|].
  destruct Hr as [<-|Hr]; [apply is_L_true in HL; congruence| apply IH; assumption].
Qed.

(* the SQL MAX(height) over LONGEST_CHAIN rows is the height of the invariant's tip *)
Lemma tip_height_inv s tip t : Inv s tip -> by_hash s tip = Some t -> tip_height s = Some (height t).
Proof.
  intros HI Ht. destruct (tip_is_L s tip t HI Ht) as [Hin HL].
  destruct (tip_height_some s t Hin HL) as [m Hm]. rewrite Hm. f_equal.
  pose proof (tip_height_ge s m Hm t Hin HL) as Hge.
  destruct (tip_height_attained s m Hm) as (r & Hr & HrL & Hh).
  destruct (tip_height_max s tip t HI Ht r Hr HrL) as [->|Hlt]; lia.
Qed.

(* one LONGEST_CHAIN row per height *)
Lemma L_height_unique s tip : Inv s tip -> forall a b, In a s -> In b s ->
  st a = Longest -> st b = Longest -> height a = height b -> a = b.
Proof.
  intros HI a b Ha Hb HaL HbL Hh. pose proof HI as (Hwf & _ & _).
  apply (is_L_iff s tip HI a Ha) in HaL. apply (is_L_iff s tip HI b Hb) in HbL.
  destruct (in_split _ _ HaL) as (l1 & l2 & E). rewrite E in HbL.
  apply in_app_or in HbL. destruct HbL as [H1|[H2|H3]].
  - pose proof (chain_sorted s Hwf l1 tip a l2 E b H1). lia.
  - exact H2.
  - pose proof (chain_sorted_tail s Hwf l1 tip a l2 E b H3). lia.
Qed.

(* ------------------------------------------------------------------------------------------ *)
(* C02                                                                                        *)
(* ------------------------------------------------------------------------------------------ *)
Lemma verify_hash_some s rt h r : verify_hash s rt h = Some r ->
  In r s /\ root r = rt /\ height r = h /\ st r = Longest.
Proof.
  unfold verify_hash. intros H. apply find_some in H. destruct H as [Hin Hp].
  apply in_rev in Hin. apply andb_prop in Hp. destruct Hp as [Hp H3]. apply andb_prop in Hp. destruct Hp as [H1 H2].
  apply N.eqb_eq in H1. apply Z.eqb_eq in H2. apply is_L_true in H3. auto.
Qed.

Lemma verify_hash_none s rt h : verify_hash s rt h = None ->
  forall r, In r s -> st r = Longest -> height r = h -> root r <> rt.
Proof.
  unfold verify_hash. intros H r Hr HL Hh E.
  pose proof (find_none _ _ H r (proj1 (in_rev s r) Hr)) as Hn. cbv beta in Hn.
  rewrite (proj2 (N.eqb_eq _ _) E), (proj2 (Z.eqb_eq _ _) Hh), (proj2 (is_L_true r) HL) in Hn. discriminate.
Qed.

Lemma verify_hash_found s tip rt h r : Inv s tip -> In r s -> st r = Longest -> height r = h -> root r = rt ->
  verify_hash s rt h = Some r.
Proof.
  intros HI Hr HL Hh E. destruct (verify_hash s rt h) as [r'|] eqn:Ev.
  - destruct (verify_hash_some _ _ _ _ Ev) as (Hin' & _ & Hh' & HL').
    f_equal. apply (L_height_unique s tip HI r' r Hin' Hr HL' HL). congruence.
  - exfalso. exact (verify_hash_none _ _ _ Ev r Hr HL Hh E).
Qed.

Lemma best_at_iff s tip h r : Inv s tip ->
  (best_at s tip h = Some r <-> In r s /\ st r = Longest /\ height r = h).
Proof.
  intros HI. unfold best_at. split.
  - intros H. apply find_some in H. destruct H as [Hin Hp]. apply Z.eqb_eq in Hp.
    assert (Hs: In r s) by (apply (chain_incl s tip); exact Hin).
    split; [exact Hs|]. split; [apply (is_L_iff s tip HI r Hs); exact Hin| exact Hp].
  - intros (Hs & HL & Hh).
    assert (Hc: In r (chain s tip)) by (apply (is_L_iff s tip HI r Hs); exact HL).
    destruct (find (fun r0 => height r0 =? h) (chain s tip)) as [r'|] eqn:Ef.
    + apply find_some in Ef. destruct Ef as [Hin' Hp]. apply Z.eqb_eq in Hp.
      assert (Hs': In r' s) by (apply (chain_incl s tip); exact Hin').
      f_equal. apply (L_height_unique s tip HI r' r Hs' Hs); [apply (is_L_iff s tip HI r' Hs'); exact Hin'| exact HL| congruence].
    + pose proof (find_none _ _ Ef r Hc) as Hn. cbv beta in Hn. rewrite (proj2 (Z.eqb_eq _ _) Hh) in Hn. discriminate.
Qed.

(* the modelled verdict IS the declarative verdict - for EVERY configured excess (since fix 54e9bff) *)
Theorem verify1_spec s tip t excess it : Inv s tip -> by_hash s tip = Some t ->
  verify1 s (height t) excess it = spec_verify1 s tip excess it.
Proof.
  intros HI Ht. unfold verify1, spec_verify1. rewrite Ht.
  destruct (verify_hash s (fst it) (snd it)) as [r|] eqn:Ev.
  - destruct (verify_hash_some _ _ _ _ Ev) as (Hin & Hr & Hrh & HL).
    rewrite (proj2 (best_at_iff s tip (snd it) r HI) (conj Hin (conj HL Hrh))).
    rewrite (proj2 (N.eqb_eq _ _) Hr). reflexivity.
  - destruct (best_at s tip (snd it)) as [r'|] eqn:Eb; [|reflexivity].
    apply (best_at_iff s tip (snd it) r' HI) in Eb. destruct Eb as (Hin' & HL' & Hh').
    destruct (N.eqb_spec (root r') (fst it)) as [E|E]; [|reflexivity].
    exfalso. exact (verify_hash_none _ _ _ Ev r' Hin' HL' Hh' E).
Qed.

Theorem verdict_confirmed_iff s tip tipH excess rt h x : Inv s tip ->
  (verify1 s tipH excess (rt, h) = Confirmed x <->
   exists r, In r s /\ st r = Longest /\ height r = h /\ root r = rt /\ id r = x).
Proof.
  intros HI. unfold verify1. cbn [fst snd]. split.
  - destruct (verify_hash s rt h) as [r|] eqn:Ev.
    + intros H. inversion H; subst x. destruct (verify_hash_some _ _ _ _ Ev) as (Hin & Hr & Hh & HL).
      exists r. auto.
    + destruct ((tipH <? h) && (h - tipH <=? excess)); discriminate.
  - intros (r & Hin & HL & Hh & Hr & Hx). rewrite (verify_hash_found s tip rt h r HI Hin HL Hh Hr). congruence.
Qed.

Theorem verdict_unable_iff s tip tipH excess rt h : Inv s tip -> tip_height s = Some tipH ->
  (verify1 s tipH excess (rt, h) = UnableToVerify <-> tipH < h <= tipH + excess).
Proof.
  intros HI Htip. unfold verify1. cbn [fst snd]. pose proof HI as (Hwf & (t & Ht & _) & _).
  rewrite (tip_height_inv s tip t HI Ht) in Htip. inversion Htip; subst tipH. clear Htip.
  split.
  - destruct (verify_hash s rt h) as [r|]; [discriminate|].
    destruct (Z.ltb_spec (height t) h) as [Hlt|Hge]; cbn; [|discriminate].
    destruct (Z.leb_spec (h - height t) excess); [lia| discriminate].
  - intros [H1 H2]. destruct (verify_hash s rt h) as [r|] eqn:Ev.
    + exfalso. destruct (verify_hash_some _ _ _ _ Ev) as (Hin & _ & Hrh & HL).
      destruct (tip_height_max s tip t HI Ht r Hin HL) as [->|Hlt]; lia.
    + destruct (Z.ltb_spec (height t) h) as [Hlt|Hge]; [|lia]. cbn.
      destruct (Z.leb_spec (h - height t) excess); [reflexivity| lia].
Qed.

Theorem invalid_otherwise s tip tipH excess rt h : Inv s tip -> tip_height s = Some tipH ->
  (verify1 s tipH excess (rt, h) = Invalid <->
   ~ (exists r, In r s /\ st r = Longest /\ height r = h /\ root r = rt) /\ ~ (tipH < h <= tipH + excess)).
Proof.
  intros HI Htip.
  pose proof (verdict_unable_iff s tip tipH excess rt h HI Htip) as HU.
  split.
  - intros HV. split.
    + intros (r & Hin & HL & Hrh & Hr).
      assert (verify1 s tipH excess (rt, h) = Confirmed (id r))
        by (apply (verdict_confirmed_iff s tip tipH excess rt h (id r) HI); exists r; auto).
      congruence.
    + intros Hc. apply HU in Hc. congruence.
  - intros [Hn1 Hn2]. destruct (verify1 s tipH excess (rt, h)) as [x| |] eqn:Ev; [| |reflexivity].
    + exfalso. apply Hn1. apply (verdict_confirmed_iff s tip tipH excess rt h x HI) in Ev.
      destruct Ev as (r & H1 & H2 & H3 & H4 & _). exists r. auto.
    + exfalso. apply Hn2. apply HU. reflexivity.
Qed.

(* a negative configured excess: no height is ever UNABLE_TO_VERIFY (the window tip < h <= tip + excess is empty) *)
Corollary negative_excess_never_unable s tip tipH excess rt h : Inv s tip -> tip_height s = Some tipH ->
  excess < 0 -> verify1 s tipH excess (rt, h) <> UnableToVerify.
Proof. intros HI Htip He H. apply (verdict_unable_iff s tip tipH excess rt h HI Htip) in H. lia. Qed.

(* --- the whole answer --- *)
Definition answers (s : store) (tipH excess : Z) (items : list (N * Z)) : list answer :=
  map (fun it => (fst it, snd it, verify1 s tipH excess it)) items.

Lemma filter_no_fault (items : list (N * Z)) :
  filter (fun ib : (N * Z) * bool => negb (snd ib)) (map (fun it => (it, false)) items) = map (fun it => (it, false)) items.
Proof. induction items as [|a l IH]; [reflexivity|]. cbn. rewrite IH. reflexivity. Qed.

Theorem verify_total s tip t excess items : Inv s tip -> by_hash s tip = Some t -> items <> [] ->
  verify s excess items = VOk (overall (answers s (height t) excess items)) (answers s (height t) excess items).
Proof.
  intros HI Ht Hne. unfold verify, verify_faulty.
  destruct items as [|a items]; [contradiction|]. cbn [map].
  rewrite (tip_height_inv s tip t HI Ht).
  change ((a, false) :: map (fun it => (it, false)) items) with (map (fun it : N * Z => (it, false)) (a :: items)).
  rewrite filter_no_fault, map_map. reflexivity.
Qed.

(* one verdict per submitted item, in request order *)
Theorem length_and_order s tipH excess items :
  map (fun a : answer => (fst (fst a), snd (fst a))) (answers s tipH excess items) = items.
Proof.
  unfold answers. rewrite map_map. cbn. rewrite <- (map_id items) at 2. apply map_ext. intros [a b]. reflexivity.
Qed.

Lemma overall_sev_of c : overall_sev (overall_of c) = severity c.
Proof. destruct c; reflexivity. Qed.

Lemma overall_fold (l : list answer) : forall o,
  let o' := fold_left (fun o a => if overall_sev o <? severity (snd a) then overall_of (snd a) else o) l o in
  overall_sev o <= overall_sev o' /\
  (forall a, In a l -> severity (snd a) <= overall_sev o') /\
  (o' = o \/ exists a, In a l /\ overall_sev o' = severity (snd a)).
Proof.
  induction l as [|a l IH]; intros o; cbn.
  - split; [lia|]. split; [intros a []| left; reflexivity].
  - set (o1 := if overall_sev o <? severity (snd a) then overall_of (snd a) else o).
    destruct (IH o1) as (H1 & H2 & H3).
    assert (Ho1: overall_sev o <= overall_sev o1 /\ severity (snd a) <= overall_sev o1 /\ (o1 = o \/ overall_sev o1 = severity (snd a))).
    { unfold o1. destruct (Z.ltb_spec (overall_sev o) (severity (snd a))) as [Hlt|Hge].
      - rewrite overall_sev_of. split; [lia|]. split; [lia| right; reflexivity].
      - split; [lia|]. split; [lia| left; reflexivity]. }
    destruct Ho1 as (A1 & A2 & A3).
    split; [lia|]. split.
    + intros x [<-|Hx]; [lia| apply H2; exact Hx].
    + destruct H3 as [H3|(x & Hx & Ex)].
      * rewrite H3. destruct A3 as [A3|A3]; [left; exact A3| right; exists a; split; [left; reflexivity| exact A3]].
      * right. exists x. split; [right; exact Hx| exact Ex].
Qed.

(* the overall verdict is the worst individual one (CONFIRMED for an empty list) *)
Theorem overall_is_max (l : list answer) :
  (forall a, In a l -> severity (snd a) <= overall_sev (overall l)) /\
  (overall_sev (overall l) = 0 \/ exists a, In a l /\ severity (snd a) = overall_sev (overall l)).
Proof.
  destruct (overall_fold l OConfirmed) as (_ & H2 & H3). fold (overall l) in *.
  split; [exact H2|]. destruct H3 as [H3|(a & Ha & E)]; [left; rewrite H3; reflexivity| right; exists a; split; [exact Ha| symmetry; exact E]].
Qed.

Lemma overall_oracle_sound l : spec_overall_ok (overall l) l = true.
Proof.
  destruct (overall_is_max l) as [H1 H2]. unfold spec_overall_ok. apply andb_true_intro. split.
  - apply forallb_forall. intros a Ha. apply Z.leb_le. apply H1. exact Ha.
  - destruct H2 as [H2|(a & Ha & E)].
    + rewrite H2. reflexivity.
    + apply orb_true_intro. right. apply existsb_exists. exists a. split; [exact Ha| apply Z.eqb_eq; exact E].
Qed.

(* an item whose lookup fails is dropped: "one verdict per item" rests on a healthy database *)
Lemma verify_faulty_drops s excess items o l : verify_faulty s excess items = VOk o l ->
  length l = length (filter (fun ib : (N * Z) * bool => negb (snd ib)) items).
Proof.
  unfold verify_faulty. destruct items as [|a items]; [discriminate|].
  destruct (tip_height s); [|discriminate]. intros H. inversion H. rewrite map_length. reflexivity.
Qed.

(* the declarative verdict does not read labels *)
Lemma find_map_f {A B} (f : A -> B) (p : B -> bool) l : find p (map f l) = option_map f (find (fun x => p (f x)) l).
Proof. induction l as [|a l IH]; [reflexivity|]. cbn. destruct (p (f a)); [reflexivity| exact IH]. Qed.

Lemma find_ext_eq {A} (p q : A -> bool) l : (forall x, p x = q x) -> find p l = find q l.
Proof. intros H. induction l as [|a l IH]; [reflexivity|]. cbn. rewrite H, IH. reflexivity. Qed.

Lemma spec_verify1_map f s tip excess it : same_struct f -> spec_verify1 (map f s) tip excess it = spec_verify1 s tip excess it.
Proof.
  intros Hf. unfold spec_verify1, best_at. rewrite (chain_map f s tip Hf), (by_hash_map f s tip Hf), find_map_f.
  assert (E1: match option_map f (by_hash s tip) with Some t => (height t <? snd it) && (snd it - height t <=? excess) | None => false end =
              match by_hash s tip with Some t => (height t <? snd it) && (snd it - height t <=? excess) | None => false end).
  { destruct (by_hash s tip) as [t|]; cbn; [|reflexivity]. destruct (Hf t) as (_ & _ & E3 & _). rewrite E3. reflexivity. }
  rewrite E1.
  assert (E2: find (fun x => height (f x) =? snd it) (chain s tip) = find (fun x => height x =? snd it) (chain s tip)).
  { apply find_ext_eq. intros x. destruct (Hf x) as (_ & _ & E3 & _). rewrite E3. reflexivity. }
  rewrite E2. destruct (find (fun x => height x =? snd it) (chain s tip)) as [r|]; cbn; [|reflexivity].
  destruct (Hf r) as (F1 & _ & _ & _ & _ & _ & F7). unfold root. rewrite F7, F1. reflexivity.
Qed.

(* after ANY positive-work history the verdict the code computes equals the declarative verdict evaluated on
   the specification's (label-free) store and its best header *)
Theorem C02_verdict_is_spec f gid gpl hs excess it : gid <> 0%N -> positive_work hs -> nonzero_ids hs ->
  let s := run f gid gpl hs in
  let ss := spec_run_from f (init gid gpl) hs in
  exists tipH, tip_height s = Some tipH /\
               verify1 s tipH excess it = spec_verify1 ss (spec_tip ss) excess it.
Proof.
  intros Hg Hp Hn s ss.
  destruct (run_related f hs (init gid gpl) gid (init_inv2 gid gpl Hg) Hp Hn) as (tip' & HI2 & Hd).
  fold (run f gid gpl hs) in HI2, Hd. fold s in HI2, Hd.
  rewrite spec_run_dummy in Hd. fold ss in Hd.
  pose proof HI2 as [HI _]. pose proof HI as (Hwf & (t & Ht & _) & _).
  exists (height t). split; [apply (tip_height_inv s tip' t HI Ht)|].
  rewrite (verify1_spec s tip' t excess it HI Ht).
  assert (Etip: spec_tip ss = tip').
  { rewrite <- (spec_tip_dummy ss), <- Hd, spec_tip_dummy. apply (spec_tip_inv2 s tip' HI2). }
  rewrite Etip.
  rewrite <- (spec_verify1_map dummy s tip' excess it same_struct_dummy), Hd.
  apply (spec_verify1_map dummy ss tip' excess it same_struct_dummy).
Qed.

(* verdicts track the chain: CONFIRMED exactly for the root of the specification's best-path header at that height *)
Theorem C02_tracks_chain f gid gpl hs excess rt h x : gid <> 0%N -> positive_work hs -> nonzero_ids hs ->
  let s := run f gid gpl hs in
  let ss := spec_run_from f (init gid gpl) hs in
  exists tipH, tip_height s = Some tipH /\
    (verify1 s tipH excess (rt, h) = Confirmed x <->
     exists r, In r (chain ss (spec_tip ss)) /\ height r = h /\ root r = rt /\ id r = x).
Proof.
  intros Hg Hp Hn s ss.
  destruct (run_related f hs (init gid gpl) gid (init_inv2 gid gpl Hg) Hp Hn) as (tip' & HI2 & Hd).
  fold (run f gid gpl hs) in HI2, Hd. fold s in HI2, Hd.
  rewrite spec_run_dummy in Hd. fold ss in Hd.
  pose proof HI2 as [HI _]. pose proof HI as (Hwf & (t & Ht & _) & _).
  exists (height t). split; [apply (tip_height_inv s tip' t HI Ht)|].
  assert (Etip: spec_tip ss = tip').
  { rewrite <- (spec_tip_dummy ss), <- Hd, spec_tip_dummy. apply (spec_tip_inv2 s tip' HI2). }
  rewrite Etip.
  assert (Ec: map dummy (chain s tip') = map dummy (chain ss tip')).
  { rewrite <- (chain_map dummy s tip' same_struct_dummy), <- (chain_map dummy ss tip' same_struct_dummy), Hd. reflexivity. }
  assert (Hd3: forall a b : row, dummy a = dummy b -> height a = height b /\ root a = root b /\ id a = id b).
  { intros a b E. destruct (same_struct_dummy a) as (A1 & _ & A3 & _ & _ & _ & A7).
    destruct (same_struct_dummy b) as (B1 & _ & B3 & _ & _ & _ & B7). unfold root. rewrite <- A1, <- A3, <- A7, E. auto. }
  rewrite (verdict_confirmed_iff s tip' (height t) excess rt h x HI). split.
  - intros (r & Hin & HL & Hrh & Hr & Hx).
    apply (is_L_iff s tip' HI r Hin) in HL.
    assert (Hm: In (dummy r) (map dummy (chain ss tip'))) by (rewrite <- Ec; apply in_map; exact HL).
    apply in_map_iff in Hm. destruct Hm as (r' & E' & Hin').
    destruct (Hd3 r' r E') as (D1 & D2 & D3). exists r'. split; [exact Hin'|]. repeat split; congruence.
  - intros (r' & Hin' & Hrh & Hr & Hx).
    assert (Hm: In (dummy r') (map dummy (chain s tip'))) by (rewrite Ec; apply in_map; exact Hin').
    apply in_map_iff in Hm. destruct Hm as (r & E' & Hin).
    destruct (Hd3 r r' E') as (D1 & D2 & D3).
    assert (Hs: In r s) by (apply (chain_incl s tip'); exact Hin).
    exists r. split; [exact Hs|]. split; [apply (is_L_iff s tip' HI r Hs); exact Hin|]. repeat split; congruence.
Qed.

(* ---- the same, stated over [Valid] (what [reachable_valid] delivers) ---- *)
Lemma valid_inv s : Valid s -> exists tip t, Inv s tip /\ by_hash s tip = Some t.
Proof. intros (tip & HI & _). pose proof HI as (_ & (t & Ht & _) & _). exists tip, t. auto. Qed.

Theorem valid_tip_height s : Valid s -> exists t, tipB s = Some t /\ tip_height s = Some (height t).
Proof.
  intros HV. destruct (valid_inv s HV) as (tip & t & HI & Ht). exists t.
  rewrite (tipB_is_tip s tip HI). split; [exact Ht| apply (tip_height_inv s tip t HI Ht)].
Qed.

Theorem valid_longest_unique s : Valid s -> forall a b, In a s -> In b s ->
  st a = Longest -> st b = Longest -> height a = height b -> a = b.
Proof. intros HV. destruct (valid_inv s HV) as (tip & t & HI & _). apply (L_height_unique s tip HI). Qed.

Theorem valid_confirmed_iff s tipH excess rt h x : Valid s ->
  (verify1 s tipH excess (rt, h) = Confirmed x <->
   exists r, In r s /\ st r = Longest /\ height r = h /\ root r = rt /\ id r = x).
Proof. intros HV. destruct (valid_inv s HV) as (tip & t & HI & _). apply (verdict_confirmed_iff s tip). exact HI. Qed.

Theorem valid_unable_iff s tipH excess rt h : Valid s -> tip_height s = Some tipH ->
  (verify1 s tipH excess (rt, h) = UnableToVerify <-> tipH < h <= tipH + excess).
Proof. intros HV. destruct (valid_inv s HV) as (tip & t & HI & _). apply (verdict_unable_iff s tip). exact HI. Qed.

Theorem valid_invalid_otherwise s tipH excess rt h : Valid s -> tip_height s = Some tipH ->
  (verify1 s tipH excess (rt, h) = Invalid <->
   ~ (exists r, In r s /\ st r = Longest /\ height r = h /\ root r = rt) /\ ~ (tipH < h <= tipH + excess)).
Proof. intros HV. destruct (valid_inv s HV) as (tip & t & HI & _). apply (invalid_otherwise s tip). exact HI. Qed.

Theorem valid_verify_total s excess items : Valid s -> items <> [] ->
  exists tipH, tip_height s = Some tipH /\
               verify s excess items = VOk (overall (answers s tipH excess items)) (answers s tipH excess items).
Proof.
  intros HV Hne. destruct (valid_inv s HV) as (tip & t & HI & Ht). exists (height t).
  split; [apply (tip_height_inv s tip t HI Ht)| apply (verify_total s tip t excess items HI Ht Hne)].
Qed.

Theorem valid_negative_excess s tipH excess rt h : Valid s -> tip_height s = Some tipH ->
  excess < 0 -> verify1 s tipH excess (rt, h) <> UnableToVerify.
Proof. intros HV. destruct (valid_inv s HV) as (tip & t & HI & _). apply (negative_excess_never_unable s tip). exact HI. Qed.

(* ---- the same, for EVERY reachable store, any work values (zero-work headers included) ----
   [Structural s]: some connected row [tip] exists such that the stored labels are the ones derived from [chain s tip]
   (LONGEST_CHAIN rows = chain s tip).  ChainFields.reachable_inv delivers it for every history; what it does NOT say is
   that this tip is the greatest-cumulative-work header (that is Inv2 / [Valid], positive work only) - the theorems
   below never need that. *)
Definition Structural (s : store) := exists tip, Inv s tip.

Theorem reachable_structural f gid gpl hs : gid <> 0%N -> nonzero_ids hs -> Structural (run f gid gpl hs).
Proof. exact (reachable_inv f gid gpl hs). Qed.

Lemma valid_structural s : Valid s -> Structural s.
Proof. intros (tip & HI & _). exists tip. exact HI. Qed.

Lemma structural_inv s : Structural s -> exists tip t, Inv s tip /\ by_hash s tip = Some t.
Proof. intros (tip & HI). pose proof HI as (_ & (t & Ht & _) & _). exists tip, t. auto. Qed.

Theorem structural_tip_height s : Structural s -> exists t, tipB s = Some t /\ tip_height s = Some (height t).
Proof.
  intros HV. destruct (structural_inv s HV) as (tip & t & HI & Ht). exists t.
  rewrite (tipB_is_tip s tip HI). split; [exact Ht| apply (tip_height_inv s tip t HI Ht)].
Qed.

Theorem structural_longest_unique s : Structural s -> forall a b, In a s -> In b s ->
  st a = Longest -> st b = Longest -> height a = height b -> a = b.
Proof. intros HV. destruct (structural_inv s HV) as (tip & t & HI & _). apply (L_height_unique s tip HI). Qed.

Theorem structural_confirmed_iff s tipH excess rt h x : Structural s ->
  (verify1 s tipH excess (rt, h) = Confirmed x <->
   exists r, In r s /\ st r = Longest /\ height r = h /\ root r = rt /\ id r = x).
Proof. intros HV. destruct (structural_inv s HV) as (tip & t & HI & _). apply (verdict_confirmed_iff s tip). exact HI. Qed.

Theorem structural_unable_iff s tipH excess rt h : Structural s -> tip_height s = Some tipH ->
  (verify1 s tipH excess (rt, h) = UnableToVerify <-> tipH < h <= tipH + excess).
Proof. intros HV. destruct (structural_inv s HV) as (tip & t & HI & _). apply (verdict_unable_iff s tip). exact HI. Qed.

Theorem structural_invalid_otherwise s tipH excess rt h : Structural s -> tip_height s = Some tipH ->
  (verify1 s tipH excess (rt, h) = Invalid <->
   ~ (exists r, In r s /\ st r = Longest /\ height r = h /\ root r = rt) /\ ~ (tipH < h <= tipH + excess)).
Proof. intros HV. destruct (structural_inv s HV) as (tip & t & HI & _). apply (invalid_otherwise s tip). exact HI. Qed.

Theorem structural_negative_excess s tipH excess rt h : Structural s -> tip_height s = Some tipH ->
  excess < 0 -> verify1 s tipH excess (rt, h) <> UnableToVerify.
Proof. intros HV. destruct (structural_inv s HV) as (tip & t & HI & _). apply (negative_excess_never_unable s tip). exact HI. Qed.

Theorem structural_verify_total s excess items : Structural s -> items <> [] ->
  exists tipH, tip_height s = Some tipH /\
               verify s excess items = VOk (overall (answers s tipH excess items)) (answers s tipH excess items).
Proof.
  intros HV Hne. destruct (structural_inv s HV) as (tip & t & HI & Ht). exists (height t).
  split; [apply (tip_height_inv s tip t HI Ht)| apply (verify_total s tip t excess items HI Ht Hne)].
Qed.


(* ---- a concrete history: G; A, B children of G (A first: B is a stale sibling at height 1); then C on B
        (reorganisation: B, C longest, A stale) and an orphan ---- *)
Definition mk_pl (bits : Z) (m : N) : payload := {| p_bits := bits; p_ver := 1; p_merkle := m; p_ts := 0; p_nonce := 0 |}.
Definition mk_sub (i p : N) (bits : Z) (m : N) : src := {| s_id := i; s_prev := p; s_pl := mk_pl bits m |}.
Definition ex_gpl := mk_pl 486604799 1.
Definition ex_pre : list src := [mk_sub 2 1 545259519 102; mk_sub 3 1 545259519 103].
Definition ex_post : list src := ex_pre ++ [mk_sub 4 3 545259519 104; mk_sub 5 99 545259519 105].

Example ex_post_hyps : (1 <> 0)%N /\ positive_work ex_post /\ nonzero_ids ex_post.
Proof.
  split; [discriminate|]. split; intros h Hh;
    repeat (destruct Hh as [<-|Hh]; [vm_compute; try reflexivity; try discriminate|]); destruct Hh.
Qed.

Example ex_post_valid : Valid (run [] 1 ex_gpl ex_post).
Proof. destruct ex_post_hyps as (H1 & H2 & H3). apply reachable_valid; assumption. Qed.

Example ex_pre_valid : Valid (run [] 1 ex_gpl ex_pre).
Proof.
  apply reachable_valid; [discriminate| |]; intros h Hh;
    repeat (destruct Hh as [<-|Hh]; [vm_compute; try reflexivity; try discriminate|]); destruct Hh.
Qed.

(* verdicts before and after the reorganisation, on the same request list *)
Definition ex_items : list (N * Z) := [(102%N, 1); (103%N, 1); (104%N, 2); (105%N, 1); (1%N, 0); (9%N, 3); (9%N, 9); (102%N, 1)].

Example ex_verdicts_follow_reorg :
  verify (run [] 1 ex_gpl ex_pre) 6 ex_items =
    VOk OInvalid [(102%N, 1, Confirmed 2); (103%N, 1, Invalid); (104%N, 2, UnableToVerify); (105%N, 1, Invalid);
                  (1%N, 0, Confirmed 1); (9%N, 3, UnableToVerify); (9%N, 9, Invalid); (102%N, 1, Confirmed 2)] /\
  verify (run [] 1 ex_gpl ex_post) 6 ex_items =
    VOk OInvalid [(102%N, 1, Invalid); (103%N, 1, Confirmed 3); (104%N, 2, Confirmed 4); (105%N, 1, Invalid);
                  (1%N, 0, Confirmed 1); (9%N, 3, UnableToVerify); (9%N, 9, Invalid); (102%N, 1, Invalid)] /\
  verify (run [] 1 ex_gpl ex_post) 0 [(104%N, 2); (1%N, 0)] = VOk OConfirmed [(104%N, 2, Confirmed 4); (1%N, 0, Confirmed 1)] /\
  verify (run [] 1 ex_gpl ex_post) 6 [(104%N, 2); (9%N, 8)] = VOk OUnable [(104%N, 2, Confirmed 4); (9%N, 8, UnableToVerify)].
Proof. vm_compute. repeat split; reflexivity. Qed.

(* History: before fix 54e9bff int32(maxBlockHeightExcess) wrapped and the statement was refuted for excess >= 2^31
   (excess_wrap_refuted, finding C02-excess-int32-wrap).  With the repaired code the same inputs are answered as the
   statement says: *)
Example huge_excess_exact :
  let s := run [] 1 ex_gpl ex_post in
  Valid s /\ tip_height s = Some 2 /\
  verify1 s 2 2147483648 (9%N, 3) = UnableToVerify /\
  verify1 s 2 2147483648 (9%N, 2147483647) = UnableToVerify /\
  verify1 s 2 4294967297 (9%N, 4) = UnableToVerify /\
  verify1 s 2 (-1) (9%N, 3) = Invalid.
Proof. split; [exact ex_post_valid|]. vm_compute. repeat split; reflexivity. Qed.

(* a zero-work history (the C01 finding: the zero-work child of the tip becomes the tip) is Structural, and the verdicts
   are the theorem's: the longest-chain header at height 2 is the zero-work block 3 *)
Definition ex_zero : list src := [mk_sub 2 1 545259519 102; mk_sub 3 2 494927873 103; mk_sub 4 1 545259519 104].
Example ex_zero_structural :
  Structural (run [] 1 ex_gpl ex_zero) /\
  verify (run [] 1 ex_gpl ex_zero) 1 [(103%N, 2); (104%N, 1); (102%N, 1); (9%N, 3); (9%N, 4)] =
    VOk OInvalid [(103%N, 2, Confirmed 3); (104%N, 1, Invalid); (102%N, 1, Confirmed 2); (9%N, 3, UnableToVerify); (9%N, 4, Invalid)].
Proof.
  split.
  - apply reachable_structural; [discriminate|]. intros h Hh.
    repeat (destruct Hh as [<-|Hh]; [vm_compute; discriminate|]). destruct Hh.
  - vm_compute. reflexivity.
Qed.
