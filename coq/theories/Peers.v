(* C18 model, part 1: peer admission bookkeeping.
   Mirrors /repo/transports/p2p/server.go handleAddPeerMsg (171-236), handleDonePeerMsg (240-283),
   handleBanPeerMsg (287-296) and /repo/transports/p2p/peerstate.go (Count, CountIP).
   Definitions only (no proofs).

   Go maps are association lists keyed by Z; m[k]++ on a missing key yields 1 and m[k]-- yields -1
   exactly as in Go (missing key reads as 0).  A peer object is immutable for the handlers:
   {pid = sp.ID(), host = SplitHostPort(sp.Addr()), group = addrmgr.GroupKey(sp.NA()),
   kind = inbound | outbound | persistent (sp.Inbound(), sp.persistent)}.
   The limits (config.MaxPeers, config.MaxPeersPerIP) and the ban duration are fields of [cfg]:
   every theorem is proved for all values; the correspondence check passes the compiled-in values.

   Connected(): the only mutable attribute of a peer object the handlers read.  [gone s] is the set
   of pids whose peer object has been disconnected - by the outside world (event [Disc p]: remote
   close, protocol error, ...) or by handleAddPeerMsg itself when it refuses the peer
   (sp.Disconnect()).  handleDonePeerMsg does NOT touch the flag: in production peerDoneHandler
   sends the Done only after WaitForDisconnect returned, i.e. the peer is already in [gone]
   (predicate [proto]).  Since fix 1a05aed handleAddPeerMsg ignores a peer that is in [gone].

   Not modelled (constant on the reachable alphabet): the shutdown flag (0 while peerHandler
   runs), SplitHostPort failure (every peer that reached OnVersion has a host:port address), and
   the conjunct sp.VersionKnown() of handleDonePeerMsg (AddPeer is only called from OnVersion, which
   package peer invokes after it has set versionKnown - peer.go handleVersionMessage). *)
From Coq Require Import ZArith Bool List.
Import ListNotations.
Open Scope Z_scope.

Inductive kind := Inbound | Outbound | Persistent.

Record peer := mkPeer { pid : Z; host : Z; group : Z; pkind : kind }.

Record cfg := mkCfg { max_peers : Z; max_per_ip : Z; ban_dur : Z }.

(* ---- association lists ---- *)
Fixpoint aget {A} (m : list (Z * A)) (k : Z) : option A :=
  match m with
  | [] => None
  | (k', v) :: t => if k' =? k then Some v else aget t k
  end.

Fixpoint adel {A} (m : list (Z * A)) (k : Z) : list (Z * A) :=
  match m with
  | [] => []
  | (k', v) :: t => if k' =? k then adel t k else (k', v) :: adel t k
  end.

Definition aset {A} (m : list (Z * A)) (k : Z) (v : A) : list (Z * A) := (k, v) :: adel m k.

Definition cget (m : list (Z * Z)) (k : Z) : Z := match aget m k with Some v => v | None => 0 end.
Definition cincr (m : list (Z * Z)) (k : Z) := aset m k (cget m k + 1).
Definition cdecr (m : list (Z * Z)) (k : Z) := aset m k (cget m k - 1).

(* ---- peerState ---- *)
Record st := mkSt {
  inb : list (Z * peer);        (* inboundPeers *)
  outb : list (Z * peer);       (* outboundPeers *)
  pers : list (Z * peer);       (* persistentPeers *)
  banned : list (Z * Z);        (* banned: host -> expiry *)
  groups : list (Z * Z);        (* outboundGroups *)
  ccount : list (Z * Z);        (* connectionCount *)
  gone : list Z                 (* peer objects whose Connected() is false *)
}.

Definition init : st := mkSt [] [] [] [] [] [] [].

Definition zmem (k : Z) (l : list Z) : bool := existsb (Z.eqb k) l.

Definition zlen {A} (l : list A) : Z := Z.of_nat (length l).

(* peerState.Count *)
Definition total (s : st) : Z := zlen (inb s) + zlen (outb s) + zlen (pers s).

Inductive ev :=
| Add (p : peer) (now : Z)
| Done (p : peer)
| Ban (h : Z) (now : Z)
| Disc (p : peer).              (* the peer's connection drops: p.Disconnect() / remote close *)

Definition set_banned (s : st) b := mkSt (inb s) (outb s) (pers s) b (groups s) (ccount s) (gone s).
(* sp.Disconnect() *)
Definition mark_gone (s : st) (k : Z) := mkSt (inb s) (outb s) (pers s) (banned s) (groups s) (ccount s) (k :: gone s).

(* "Add the new peer": the map of its kind and the counters *)
Definition insert (s1 : st) (p : peer) : st :=
  let h := host p in
  match pkind p with
  | Inbound =>
    mkSt (aset (inb s1) (pid p) p) (outb s1) (pers s1) (banned s1) (groups s1) (cincr (ccount s1) h) (gone s1)
  | Persistent =>
    mkSt (inb s1) (outb s1) (aset (pers s1) (pid p) p) (banned s1) (cincr (groups s1) (group p)) (ccount s1) (gone s1)
  | Outbound =>
    mkSt (inb s1) (aset (outb s1) (pid p) p) (pers s1) (banned s1) (cincr (groups s1) (group p)) (cincr (ccount s1) h) (gone s1)
  end.

(* the admission part of handleAddPeerMsg, after the ban check: the two limits (a refused peer is
   disconnected), then insertion *)
Definition admit_peer (c : cfg) (s1 : st) (p : peer) : st * bool :=
  if cget (ccount s1) (host p) >=? max_per_ip c then (mark_gone s1 (pid p), false)
  else if total s1 >=? max_peers c then (mark_gone s1 (pid p), false)
  else (insert s1 p, true).

(* handleAddPeerMsg: returns the new state and the decision *)
Definition add_peer (c : cfg) (s : st) (p : peer) (now : Z) : st * bool :=
  if zmem (pid p) (gone s) then (s, false)            (* !sp.Connected(): ignored, nothing else happens *)
  else
    let h := host p in
    match aget (banned s) h with
    | Some e => if now <? e then (mark_gone s (pid p), false)
                else admit_peer c (set_banned s (adel (banned s) h)) p
    | None => admit_peer c s p
    end.

(* handleDonePeerMsg (the bookkeeping part) *)
Definition done_peer (s : st) (p : peer) : st :=
  match pkind p with
  | Persistent =>
    match aget (pers s) (pid p) with
    | Some _ => mkSt (inb s) (outb s) (adel (pers s) (pid p)) (banned s) (cdecr (groups s) (group p)) (ccount s) (gone s)
    | None => s
    end
  | Inbound =>
    match aget (inb s) (pid p) with
    | Some _ => mkSt (adel (inb s) (pid p)) (outb s) (pers s) (banned s) (groups s) (cdecr (ccount s) (host p)) (gone s)
    | None => s
    end
  | Outbound =>
    match aget (outb s) (pid p) with
    | Some _ => mkSt (inb s) (adel (outb s) (pid p)) (pers s) (banned s) (cdecr (groups s) (group p)) (cdecr (ccount s) (host p)) (gone s)
    | None => s
    end
  end.

(* handleBanPeerMsg *)
Definition ban_host (c : cfg) (s : st) (h now : Z) : st := set_banned s (aset (banned s) h (now + ban_dur c)).

Definition step (c : cfg) (s : st) (e : ev) : st * bool :=
  match e with
  | Add p now => add_peer c s p now
  | Done p => (done_peer s p, false)
  | Ban h now => (ban_host c s h now, false)
  | Disc p => (mark_gone s (pid p), false)
  end.

Definition run (c : cfg) (s : st) (evs : list ev) : st := fold_left (fun s e => fst (step c s e)) evs s.

(* the trace of (decision, state) after each event: what the correspondence check compares *)
Fixpoint trace (c : cfg) (s : st) (evs : list ev) : list (bool * st) :=
  match evs with
  | [] => []
  | e :: t => let r := step c s e in (snd r, fst r) :: trace c (fst r) t
  end.

(* ---- vocabulary of the property ---- *)
Definition hcount (h : Z) (l : list (Z * peer)) : Z :=
  zlen (filter (fun e => host (snd e) =? h) l).
Definition gcount (g : Z) (l : list (Z * peer)) : Z :=
  zlen (filter (fun e => group (snd e) =? g) l).

(* admitted peers of host h that count against the per-host limit (persistent peers are exempt) *)
Definition counted_of_host (s : st) (h : Z) : Z := hcount h (inb s) + hcount h (outb s).
Definition outbound_of_group (s : st) (g : Z) : Z := gcount g (outb s) + gcount g (pers s).

Definition admitted (s : st) (p : peer) : Prop :=
  match pkind p with
  | Inbound => aget (inb s) (pid p) = Some p
  | Outbound => aget (outb s) (pid p) = Some p
  | Persistent => aget (pers s) (pid p) = Some p
  end.

Definition in_any (s : st) (k : Z) : Prop :=
  aget (inb s) k <> None \/ aget (outb s) k <> None \/ aget (pers s) k <> None.

(* peers handed to Add so far *)
Fixpoint added (evs : list ev) : list peer :=
  match evs with
  | [] => []
  | Add p _ :: t => p :: added t
  | _ :: t => added t
  end.

Fixpoint mentioned (evs : list ev) : list peer :=
  match evs with
  | [] => []
  | Add p _ :: t => p :: mentioned t
  | Done p :: t => p :: mentioned t
  | Ban _ _ :: t => mentioned t
  | Disc p :: t => p :: mentioned t
  end.

(* well-formed history = what the server can produce: each peer object is delivered to Add at
   most once (AddPeer is called once, from OnVersion) and a pid identifies one peer object *)
Definition wf (evs : list ev) : Prop :=
  NoDup (map pid (added evs)) /\
  forall p q, In p (mentioned evs) -> In q (mentioned evs) -> pid p = pid q -> p = q.

Definition ev_time (e : ev) : option Z :=
  match e with Add _ t => Some t | Ban _ t => Some t | Done _ => None | Disc _ => None end.

(* the clock readings along a history never go backwards *)
Fixpoint time_mono (lo : Z) (evs : list ev) : Prop :=
  match evs with
  | [] => True
  | e :: t => match ev_time e with
              | Some x => lo <= x /\ time_mono x t
              | None => time_mono lo t
              end
  end.

(* the protocol of the reachable alphabet: a Done is only delivered for a peer object that is
   already disconnected (peerDoneHandler: sp.WaitForDisconnect(); s.donePeers <- sp) *)
Fixpoint proto (c : cfg) (s : st) (evs : list ev) : Prop :=
  match evs with
  | [] => True
  | e :: t => match e with Done p => zmem (pid p) (gone s) = true | _ => True end
              /\ proto c (fst (step c s e)) t
  end.

(* the admission bookkeeping proper (everything but the connected flags) *)
Definition books (s : st) := (inb s, outb s, pers s, banned s, groups s, ccount s).

(* ---- executable spec oracle, applied to OBSERVED states (implementation output) ---------------
   An observed state lists the admitted pids per map, the non-zero counters and the ban table
   (host, remaining units).  [peers] maps the pids of the case to their peer records. *)
Record ost := mkOst {
  o_n : Z; o_inb : list Z; o_outb : list Z; o_pers : list Z;
  o_hosts : list (Z * Z); o_groups : list (Z * Z); o_banned : list (Z * Z) }.

Definition pinfo (peers : list (Z * peer)) (k : Z) : option peer := aget peers k.

Definition count_where (peers : list (Z * peer)) (f : peer -> bool) (ids : list Z) : Z :=
  zlen (filter (fun k => match pinfo peers k with Some p => f p | None => false end) ids).

(* all hosts / groups that matter for a state: those of known peers plus the keys printed *)
Definition keys_of (m : list (Z * Z)) := map fst m.

Inductive verdict := VOk | VFail (cls : nat) (detail : Z).
(* classes: 1 above-total-limit  2 above-host-limit  3 host-counter-wrong  4 group-counter-wrong
            5 admitted-while-banned  6 refused-without-cause  7 decision-state-mismatch
            8 left-peer-still-admitted  9 count-field-wrong  10 admitted-after-it-left *)

Definition lookup_all (peers : list (Z * peer)) (ids : list Z) : list peer :=
  flat_map (fun k => match pinfo peers k with Some p => [p] | None => [] end) ids.
Definition count_recs (f : peer -> bool) (l : list peer) : Z := zlen (filter f l).

Definition check_state (c : cfg) (peers : list (Z * peer)) (o : ost) : verdict :=
  let counted := o_inb o ++ o_outb o in
  let outbound := o_outb o ++ o_pers o in
  let all := counted ++ o_pers o in
  if negb (o_n o =? zlen all) then VFail 9 (o_n o)
  else if zlen all >? max_peers c then VFail 1 (zlen all)
  else
    let crecs := lookup_all peers counted in
    let orecs := lookup_all peers outbound in
    (* hosts / groups that can have a non-zero count or a printed counter; an admitted pid that
       is not a peer of the case makes the printed counter exceed the count *)
    let hosts := nodup Z.eq_dec (map host crecs ++ keys_of (o_hosts o)) in
    let grps := nodup Z.eq_dec (map group orecs ++ keys_of (o_groups o)) in
    if negb (zlen crecs =? zlen counted) || negb (zlen orecs =? zlen outbound) then VFail 7 (-2)
    else
    match find (fun h => count_recs (fun p => host p =? h) crecs >? max_per_ip c) hosts with
    | Some h => VFail 2 h
    | None =>
      match find (fun h => negb (cget (o_hosts o) h =? count_recs (fun p => host p =? h) crecs)) hosts with
      | Some h => VFail 3 h
      | None =>
        match find (fun g => negb (cget (o_groups o) g =? count_recs (fun p => group p =? g) orecs)) grps with
        | Some g => VFail 4 g
        | None => VOk
        end
      end
    end.

(* is host h under a ban at time now, according to the history alone (declarative) *)
Definition active_ban (c : cfg) (hist : list ev) (h now : Z) : bool :=
  existsb (fun e => match e with Ban h' t0 => (h' =? h) && (now <? t0 + ban_dur c) | _ => false end) hist.

Definition o_in (o : ost) (p : peer) : bool :=
  match pkind p with
  | Inbound => zmem (pid p) (o_inb o)
  | Outbound => zmem (pid p) (o_outb o)
  | Persistent => zmem (pid p) (o_pers o)
  end.
Definition o_anywhere (o : ost) (k : Z) : bool := zmem k (o_inb o) || zmem k (o_outb o) || zmem k (o_pers o).

Definition empty_ost := mkOst 0 [] [] [] [] [] [].

(* the peer object had already disconnected *)
Definition was_disc (hist : list ev) (k : Z) : bool :=
  existsb (fun e => match e with Disc q => pid q =? k | _ => false end) hist.

(* one event of the history with the observed decision and the observed states before/after *)
Definition check_event (c : cfg) (peers : list (Z * peer)) (hist : list ev) (pre : ost) (e : ev) (d : bool) (post : ost) : verdict :=
  match e with
  | Add p now =>
    let banned_now := active_ban c hist (host p) now in
    if banned_now && d then VFail 5 (pid p)
    else if d && was_disc hist (pid p) then VFail 10 (pid p)
    else if negb banned_now && negb d && negb (was_disc hist (pid p))
            && (count_recs (fun q => host q =? host p) (lookup_all peers (o_inb pre ++ o_outb pre)) <? max_per_ip c)
            && (zlen (o_inb pre ++ o_outb pre ++ o_pers pre) <? max_peers c) then VFail 6 (pid p)
    else if negb (Bool.eqb d (o_in post p)) && negb (o_anywhere pre (pid p)) then VFail 7 (pid p)
    else check_state c peers post
  | Done p =>
    if o_anywhere post (pid p) then VFail 8 (pid p) else check_state c peers post
  | Ban _ _ => check_state c peers post
  | Disc _ => check_state c peers post
  end.

Fixpoint check_trace (c : cfg) (peers : list (Z * peer)) (hist : list ev) (pre : ost)
         (evs : list ev) (obs : list (bool * ost)) : verdict :=
  match evs, obs with
  | [], _ => VOk
  | e :: et, (d, post) :: ot =>
    match check_event c peers hist pre e d post with
    | VOk => check_trace c peers (hist ++ [e]) post et ot
    | v => v
    end
  | _ :: _, [] => VFail 7 (-1)
  end.
