(* C14 model, part 3: the 24-byte message header and WriteMessageWithEncodingN /
   ReadMessageWithEncodingN of /repo/internal/wire/message.go.  Definitions only.

   header = magic (uint32 LE) | command (12 bytes, zero padded) | length (uint32 LE) |
            checksum (first 4 bytes of SHA-256d of the payload)
   ReadMessage checks, in the order of the code:
     1. short header                 -> io.EOF / io.ErrUnexpectedEOF
     2. length > maxMessagePayload() -> EOversize   (payload NOT skipped)
     3. magic <> network             -> EWrongNet   (payload skipped: discardInput)
     4. command not valid UTF-8      -> EBadCmd     (payload skipped)
     5. command not in the table     -> EUnknownCmd (payload skipped)
     6. length > MaxPayloadLength    -> ETypeMax    (payload skipped)
     7. make([]byte, length); short payload -> io.EOF / io.ErrUnexpectedEOF
     8. checksum mismatch            -> EChecksum
     9. Bsvdecode of the payload (trailing payload bytes are ignored)            *)
From Coq Require Import NArith ZArith List Bool.
From BHS Require Import Sha256 WireBase WireMsg.
Import ListNotations.
Open Scope N_scope.

Definition CommandSize : nat := 12.
Definition MessageHeaderSize : nat := 24.

(* bytes.TrimRight(command, "\x00") *)
Fixpoint trim_right (bs : bytes) : bytes :=
  match bs with
  | [] => []
  | b :: r => match trim_right r with
              | [] => if b =? 0 then [] else [b]
              | t => b :: t
              end
  end.

Definition in_rng (c lo hi : N) : bool := (lo <=? c) && (c <=? hi).

(* unicode/utf8.ValidString *)
Fixpoint utf8_valid (bs : bytes) : bool :=
  match bs with
  | [] => true
  | b :: r =>
    if b <? 0x80 then utf8_valid r
    else if (b <? 0xC2) || (0xF4 <? b) then false
    else if b <? 0xE0 then
      match r with
      | c1 :: r1 => in_rng c1 0x80 0xBF && utf8_valid r1
      | _ => false
      end
    else if b <? 0xF0 then
      let lo := if b =? 0xE0 then 0xA0 else 0x80 in
      let hi := if b =? 0xED then 0x9F else 0xBF in
      match r with
      | c1 :: c2 :: r2 => in_rng c1 lo hi && in_rng c2 0x80 0xBF && utf8_valid r2
      | _ => false
      end
    else
      let lo := if b =? 0xF0 then 0x90 else 0x80 in
      let hi := if b =? 0xF4 then 0x8F else 0xBF in
      match r with
      | c1 :: c2 :: c3 :: r3 =>
        in_rng c1 lo hi && in_rng c2 0x80 0xBF && in_rng c3 0x80 0xBF && utf8_valid r3
      | _ => false
      end
  end.

(* makeEmptyMessage: the command table *)
Definition kind_of_cmd (cmd : bytes) : option kind :=
  find (fun k => list_eqb cmd (cmd_bytes k)) all_kinds.

Definition pad_cmd (cmd : bytes) : bytes := cmd ++ repeat 0 (CommandSize - length cmd)%nat.

Definition checksum (payload : bytes) : bytes := firstn 4 (sha256d payload).

Definition enc_frame_header (net : N) (cmd : bytes) (lenp : N) (ck : bytes) : bytes :=
  le_enc 4 net ++ pad_cmd cmd ++ le_enc 4 lenp ++ ck.

(* WriteMessageWithEncodingN *)
Definition write_message (pver net ebs : N) (m : msg) : res bytes :=
  match enc_msg pver m with
  | Err e => Err e
  | Ok payload =>
    let lenp := len payload in
    if max_message_payload ebs <? lenp then Err EOversize
    else if max_payload (kind_of m) pver ebs <? lenp mod 2 ^ 32 then Err ETypeMax
    else Ok (enc_frame_header net (cmd_bytes (kind_of m)) lenp (checksum payload) ++ payload)
  end.

(* discardInput: reads (and drops) n bytes or whatever is left *)
Definition discard (n : N) (bs : bytes) : bytes :=
  if N.of_nat (length bs) <=? n then [] else skipn (N.to_nat n) bs.

Inductive frame_res : Type :=
| FOk (m : msg) (payload rest : bytes)
| FErr (e : err) (rest : bytes).       (* rest = what the reader still holds afterwards *)

Definition read_message (pver net ebs : N) (bs : bytes) : frame_res :=
  match read_n MessageHeaderSize bs with
  | Err e => FErr e []
  | Ok (h, r) =>
    let magic := le_dec (firstn 4 h) in
    let cmd := trim_right (firstn CommandSize (skipn 4 h)) in
    let length := le_dec (firstn 4 (skipn 16 h)) in
    let ck := skipn 20 h in
    if max_message_payload ebs <? length then FErr EOversize r
    else if negb (magic =? net) then FErr EWrongNet (discard length r)
    else if negb (utf8_valid cmd) then FErr EBadCmd (discard length r)
    else match kind_of_cmd cmd with
         | None => FErr EUnknownCmd (discard length r)
         | Some k =>
           if max_payload k pver ebs <? length then FErr ETypeMax (discard length r)
           else match read_N length r with
                | Err e => FErr e []
                | Ok (payload, rest) =>
                  if negb (list_eqb (checksum payload) ck) then FErr EChecksum rest
                  else match dec_payload pver (max_message_payload ebs) k payload with
                       | Err e => FErr e rest
                       | Ok (m, _) => FOk m payload rest
                       end
                end
         end
  end.

(* The buffers ReadMessage asks make() for: the payload buffer (only after checks 1-6) and,
   when the checksum holds, what the payload decoder requests (WireMsg.alloc_payload);
   discardInput never asks for more than 10 KiB. *)
Definition DiscardChunk : N := 10240.

Definition alloc_frame (pver net ebs : N) (bs : bytes) : N :=
  match read_n MessageHeaderSize bs with
  | Err _ => 0
  | Ok (h, r) =>
    let magic := le_dec (firstn 4 h) in
    let cmd := trim_right (firstn CommandSize (skipn 4 h)) in
    let length := le_dec (firstn 4 (skipn 16 h)) in
    let ck := skipn 20 h in
    if max_message_payload ebs <? length then 0
    else if negb (magic =? net) || negb (utf8_valid cmd) then N.min length DiscardChunk
    else match kind_of_cmd cmd with
         | None => N.min length DiscardChunk
         | Some k =>
           if max_payload k pver ebs <? length then N.min length DiscardChunk
           else match read_N length r with
                | Err _ => length
                | Ok (payload, _) =>
                  if negb (list_eqb (checksum payload) ck) then length
                  else N.max length (alloc_payload pver (max_message_payload ebs) k payload)
                end
         end
  end.

(* the allocation limit the statement speaks of: the declared payload limit of the frame's type
   (frames that are rejected before a type is known may only use the discard chunk) *)
Definition alloc_limit (pver ebs : N) (bs : bytes) : N :=
  match read_n MessageHeaderSize bs with
  | Err _ => 0
  | Ok (h, _) =>
    match kind_of_cmd (trim_right (firstn CommandSize (skipn 4 h))) with
    | Some k => N.max DiscardChunk (max_payload k pver ebs)
    | None => DiscardChunk
    end
  end.

(* ---------- several messages on one reader ----------
   The peer loop calls ReadMessage again and again on the same connection; what one call leaves in
   the reader is what the next one parses.  read_stream folds read_message over the stream (at most
   fuel calls, stops when the reader is empty). *)
Definition frame_rest (r : frame_res) : bytes :=
  match r with FOk _ _ rest => rest | FErr _ rest => rest end.

Fixpoint read_stream (fuel : nat) (pver net ebs : N) (bs : bytes) : list frame_res :=
  match fuel with
  | O => []
  | S f =>
    match bs with
    | [] => []
    | _ :: _ =>
      let r := read_message pver net ebs bs in
      r :: read_stream f pver net ebs (frame_rest r)
    end
  end.

