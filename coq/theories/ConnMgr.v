(* C18 model, part 2: the outbound connection manager.
   Mirrors /repo/transports/p2p/connmgr/connmanager.go: connHandler (registerPending,
   handleConnected, handleDisconnected, handleFailed), NewConnReq, Connect, handleFailedConn,
   registerFailedConnectionTo (per-address failure count, BanAddress), registerFailedConnection
   (global failure count, retry timer), resetFailedAttempts, Start.  Definitions only.

   A "task" is one goroutine executing NewConnReq: it owns a fresh id (atomic counter), registers
   the id as pending, asks GetNewAddress, dials, and reports handleConnected / handleFailed.
   Events are the steps at which the outside world or the scheduler moves the system:
     Registered id | AddrOk id a | AddrFail id | DialOk id | DialFail id | Disconnect id | TimerFire.
   An event that is not enabled (no such task in that stage, unknown id, no timer) is a no-op, so
   theorems quantify over ALL event lists.

   Non-permanent requests only (Permanent requests are created solely by connectNodeMsg, which has
   no sender); GetNewAddress and BanAddress configured (as newServer does); Remove (retry=false) has
   no caller in the server but is modelled (event [Remove]); addresses are non-empty.  failedAttempts is a uint16 in Go: the
   increment wraps modulo 65536 here too. *)
From Coq Require Import ZArith Bool List.
Import ListNotations.
Open Scope Z_scope.

Inductive stage := Created | WaitAddr | Dialing (a : Z).

Record cst := mkC {
  tgt : Z;                      (* cfg.TargetOutbound *)
  maxf : Z;                     (* maxFailedAttempts *)
  hasban : bool;                (* cfg.BanAddress != nil (true in the server's configuration) *)
  next : Z;                     (* connReqCount *)
  pend : list Z;                (* pending (keys) *)
  conns : list (Z * Z);         (* conns: id -> address, in order of establishment *)
  tasks : list (Z * stage);     (* in-flight NewConnReq goroutines *)
  timers : Z;                   (* armed time.AfterFunc(RetryDuration, NewConnReq) *)
  failed : list (Z * Z);        (* failedAttempts[addr] *)
  gfailed : Z;                  (* globalFailedAttempts *)
  bans : Z;                     (* BanAddress calls *)
  canceled : Z;                 (* slots given up on behalf of a caller of the public API: requests whose id
                                   was canceled while in flight + connections removed by Remove (retry=false) *)
  dials : Z                     (* Dial calls *)
}.

Definition zlen {A} (l : list A) : Z := Z.of_nat (length l).

Fixpoint fget (m : list (Z * Z)) (k : Z) : Z :=
  match m with [] => 0 | (k', v) :: t => if k' =? k then v else fget t k end.
Fixpoint fdel (m : list (Z * Z)) (k : Z) : list (Z * Z) :=
  match m with [] => [] | (k', v) :: t => if k' =? k then fdel t k else (k', v) :: fdel t k end.
Definition fset (m : list (Z * Z)) (k v : Z) := (k, v) :: fdel m k.

Definition zmem (k : Z) (l : list Z) : bool := existsb (Z.eqb k) l.
Definition zrem (k : Z) (l : list Z) : list Z := filter (fun x => negb (x =? k)) l.
Definition zadd (k : Z) (l : list Z) : list Z := if zmem k l then l else k :: l.

Fixpoint task_stage (l : list (Z * stage)) (id : Z) : option stage :=
  match l with [] => None | (i, s) :: t => if i =? id then Some s else task_stage t id end.
Fixpoint task_del (l : list (Z * stage)) (id : Z) : list (Z * stage) :=
  match l with [] => [] | (i, s) :: t => if i =? id then t else (i, s) :: task_del t id end.
Fixpoint task_set (l : list (Z * stage)) (id : Z) (s' : stage) : list (Z * stage) :=
  match l with [] => [] | (i, s) :: t => if i =? id then (i, s') :: t else (i, s) :: task_set t id s' end.

Fixpoint conn_addr (l : list (Z * Z)) (id : Z) : option Z :=
  match l with [] => None | (i, a) :: t => if i =? id then Some a else conn_addr t id end.
Fixpoint conn_del (l : list (Z * Z)) (id : Z) : list (Z * Z) :=
  match l with [] => [] | (i, a) :: t => if i =? id then t else (i, a) :: conn_del t id end.

(* field updates *)
Definition with_tasks s t := mkC (tgt s) (maxf s) (hasban s) (next s) (pend s) (conns s) t (timers s) (failed s) (gfailed s) (bans s) (canceled s) (dials s).
Definition with_pend s p := mkC (tgt s) (maxf s) (hasban s) (next s) p (conns s) (tasks s) (timers s) (failed s) (gfailed s) (bans s) (canceled s) (dials s).

(* go cm.NewConnReq(): a new task with the next id *)
Definition spawn (s : cst) : cst :=
  mkC (tgt s) (maxf s) (hasban s) (next s + 1) (pend s) (conns s) (tasks s ++ [(next s + 1, Created)]) (timers s)
      (failed s) (gfailed s) (bans s) (canceled s) (dials s).

(* a request whose id is no longer pending ends silently *)
Definition drop_canceled (s : cst) : cst :=
  mkC (tgt s) (maxf s) (hasban s) (next s) (pend s) (conns s) (tasks s) (timers s) (failed s) (gfailed s) (bans s) (canceled s + 1) (dials s).

(* registerFailedConnectionTo: count the failure of address a; at the threshold ban it; in either
   case go NewConnReq() (since fix 7026b86 - before, the ban path returned without a successor) *)
Definition failed_to (s : cst) (a : Z) : cst :=
  let f := (fget (failed s) a + 1) mod 65536 in
  spawn (mkC (tgt s) (maxf s) (hasban s) (next s) (pend s) (conns s) (tasks s) (timers s) (fset (failed s) a f)
             (gfailed s) (if f >=? maxf s then bans s + 1 else bans s) (canceled s) (dials s)).

(* registerFailedConnection: global count; at the threshold arm the retry timer, else go NewConnReq() *)
Definition failed_global (s : cst) : cst :=
  let g := gfailed s + 1 in
  let s1 := mkC (tgt s) (maxf s) (hasban s) (next s) (pend s) (conns s) (tasks s) (timers s) (failed s) g (bans s) (canceled s) (dials s) in
  if g >=? maxf s then
    mkC (tgt s1) (maxf s1) (hasban s1) (next s1) (pend s1) (conns s1) (tasks s1) (timers s1 + 1) (failed s1) (gfailed s1)
        (bans s1) (canceled s1) (dials s1)
  else spawn s1.

(* handleFailedConn for a non-permanent request that has an address: per-address accounting when a
   BanAddress callback is configured, otherwise the global counter *)
Definition failed_conn (s : cst) (a : Z) : cst := if hasban s then failed_to s a else failed_global s.

Inductive cev :=
| Registered (id : Z)
| AddrOk (id a : Z)
| AddrFail (id : Z)
| DialOk (id : Z)
| DialFail (id : Z)
| Disconnect (id : Z)
| Remove (id : Z)               (* cm.Remove: handleDisconnected with retry = false *)
| TimerFire.

Definition cstep (s : cst) (e : cev) : cst :=
  match e with
  | Registered id =>
    match task_stage (tasks s) id with
    | Some Created => with_pend (with_tasks s (task_set (tasks s) id WaitAddr)) (zadd id (pend s))
    | _ => s
    end
  | AddrOk id a =>
    match task_stage (tasks s) id with
    | Some WaitAddr =>
      if zmem id (pend s) then
        let s1 := with_tasks s (task_set (tasks s) id (Dialing a)) in
        mkC (tgt s1) (maxf s1) (hasban s1) (next s1) (pend s1) (conns s1) (tasks s1) (timers s1) (failed s1) (gfailed s1)
            (bans s1) (canceled s1) (dials s1 + 1)
      else (* Connect: state is ConnCanceled *) drop_canceled (with_tasks s (task_del (tasks s) id))
    | _ => s
    end
  | AddrFail id =>
    match task_stage (tasks s) id with
    | Some WaitAddr =>
      let s1 := with_tasks s (task_del (tasks s) id) in
      if zmem id (pend s) then failed_global s1 else drop_canceled s1
    | _ => s
    end
  | DialOk id =>
    match task_stage (tasks s) id with
    | Some (Dialing a) =>
      let s1 := with_tasks s (task_del (tasks s) id) in
      if zmem id (pend s) then
        mkC (tgt s1) (maxf s1) (hasban s1) (next s1) (zrem id (pend s1)) (conns s1 ++ [(id, a)]) (tasks s1) (timers s1)
            (fset (failed s1) a 0) 0 (bans s1) (canceled s1) (dials s1)
      else drop_canceled s1
    | _ => s
    end
  | DialFail id =>
    match task_stage (tasks s) id with
    | Some (Dialing a) =>
      let s1 := with_tasks s (task_del (tasks s) id) in
      if zmem id (pend s) then failed_conn s1 a else drop_canceled s1
    | _ => s
    end
  | Disconnect id =>
    match conn_addr (conns s) id with
    | Some a =>
      let c' := conn_del (conns s) id in
      let s1 := mkC (tgt s) (maxf s) (hasban s) (next s) (pend s) c' (tasks s) (timers s) (failed s) (gfailed s)
                    (bans s) (canceled s) (dials s) in
      if zlen c' <? tgt s then failed_conn (with_pend s1 (zadd id (pend s1))) a else s1
    | None =>
      if zmem id (pend s) then with_pend s (zrem id (pend s)) else s
    end
  | Remove id =>
    match conn_addr (conns s) id with
    | Some a =>
      (* connection closed, "we will make no further attempts with this request" *)
      mkC (tgt s) (maxf s) (hasban s) (next s) (pend s) (conn_del (conns s) id) (tasks s) (timers s) (failed s) (gfailed s)
          (bans s) (canceled s + 1) (dials s)
    | None =>
      if zmem id (pend s) then with_pend s (zrem id (pend s)) else s
    end
  | TimerFire =>
    if timers s >? 0 then
      spawn (mkC (tgt s) (maxf s) (hasban s) (next s) (pend s) (conns s) (tasks s) (timers s - 1) (failed s) (gfailed s)
                 (bans s) (canceled s) (dials s))
    else s
  end.

Definition crun (s : cst) (evs : list cev) : cst := fold_left cstep evs s.

(* Start: TargetOutbound requests are launched *)
Fixpoint spawn_n (n : nat) (s : cst) : cst :=
  match n with O => s | S k => spawn_n k (spawn s) end.
Definition cinit (target mf : Z) (hb : bool) : cst :=
  spawn_n (Z.to_nat target) (mkC target mf hb 0 [] [] [] 0 [] 0 0 0 0).

(* no request in flight and no timer armed: the manager will not act on its own any more *)
Definition quiescent (s : cst) : Prop := tasks s = [] /\ timers s = 0.
Definition quiescentb (s : cst) : bool := match tasks s with [] => timers s =? 0 | _ => false end.

(* the reachable alphabet: the server calls Disconnect only with ids it learnt through OnConnection
   (sp.connReq), never with the id of a request that is still in flight *)
Fixpoint server_alphabet (s : cst) (evs : list cev) : Prop :=
  match evs with
  | [] => True
  | e :: t => match e with
              | Disconnect id => task_stage (tasks s) id = None
              | Remove _ => False              (* the server never calls Remove *)
              | _ => True end
              /\ server_alphabet (cstep s e) t
  end.

(* ---- script layer used by the correspondence check --------------------------------------------
   The harness blocks every GetNewAddress / Dial call until the script releases it, hence between
   script events every task sits in WaitAddr or Dialing.  [settle] performs the internal steps the
   real manager performs on its own: armed timers fire, new tasks register. *)
Inductive sev := SG (a : Z) | SE | SK (a : Z) | SF (a : Z) | SD (k : Z) | SZ | SC | SR (k : Z)
  (* bursts: several blocked calls are released at once, the manager handles the results back to
     back (retry timers armed by one result are still pending when the next one is handled) *)
  | SBE (n : Z)      (* up to n blocked GetNewAddress calls fail *)
  | SBF              (* every blocked Dial is refused *)
  | SBG (a : Z).     (* every blocked GetNewAddress call gets an address: a, a+1, ... (mod 251) *)

Fixpoint first_stage (l : list (Z * stage)) (f : stage -> bool) : option Z :=
  match l with [] => None | (i, s) :: t => if f s then Some i else first_stage t f end.

Definition is_created s := match s with Created => true | _ => false end.
Definition is_wait s := match s with WaitAddr => true | _ => false end.
Definition is_dialing a s := match s with Dialing b => a =? b | _ => false end.

Fixpoint fire_all (fuel : nat) (s : cst) : cst :=
  match fuel with O => s | S k => if timers s >? 0 then fire_all k (cstep s TimerFire) else s end.
Fixpoint register_all (fuel : nat) (s : cst) : cst :=
  match fuel with
  | O => s
  | S k => match first_stage (tasks s) is_created with
           | Some id => register_all k (cstep s (Registered id))
           | None => s
           end
  end.
Definition settle (s : cst) : cst :=
  let s1 := fire_all (Z.to_nat (timers s)) s in
  register_all (length (tasks s1)) s1.

Record sst := mkS { core : cst; lastdisc : option Z }.

(* apply f to the first task in the given stage, at most [fuel] times, without settling in between;
   returns the state and the number of applications *)
Fixpoint burst (fuel : nat) (sel : stage -> bool) (f : cst -> Z -> Z -> cev) (s : cst) (k : Z) : cst * Z :=
  match fuel with
  | O => (s, k)
  | S m => match first_stage (tasks s) sel with
           | Some id => burst m sel f (cstep s (f s id k)) (k + 1)
           | None => (s, k)
           end
  end.
Definition is_dialing_any s := match s with Dialing _ => true | _ => false end.

(* returns the new script state and whether the event applied *)
Definition sstep (x : sst) (e : sev) : sst * bool :=
  let s := core x in
  match e with
  | SG a => match first_stage (tasks s) is_wait with
            | Some id => (mkS (settle (cstep s (AddrOk id a))) (lastdisc x), true)
            | None => (x, false) end
  | SE => match first_stage (tasks s) is_wait with
          | Some id => (mkS (settle (cstep s (AddrFail id))) (lastdisc x), true)
          | None => (x, false) end
  | SK a => match first_stage (tasks s) (is_dialing a) with
            | Some id => (mkS (settle (cstep s (DialOk id))) (lastdisc x), true)
            | None => (x, false) end
  | SF a => match first_stage (tasks s) (is_dialing a) with
            | Some id => (mkS (settle (cstep s (DialFail id))) (lastdisc x), true)
            | None => (x, false) end
  | SD k => match conns s with
            | [] => (x, false)
            | _ => match nth_error (conns s) (Z.to_nat (k mod zlen (conns s))) with
                   | Some (id, _) => (mkS (settle (cstep s (Disconnect id))) (Some id), true)
                   | None => (x, false) end
            end
  | SBE n =>
    let r := burst (Z.to_nat (Z.min n (zlen (tasks s)))) is_wait (fun _ id _ => AddrFail id) s 0 in
    if snd r =? 0 then (x, false) else (mkS (settle (fst r)) (lastdisc x), true)
  | SBF =>
    let r := burst (length (tasks s)) is_dialing_any (fun _ id _ => DialFail id) s 0 in
    if snd r =? 0 then (x, false) else (mkS (settle (fst r)) (lastdisc x), true)
  | SBG a =>
    let r := burst (length (tasks s)) is_wait (fun _ id k => AddrOk id ((a + k) mod 251)) s 0 in
    if snd r =? 0 then (x, false) else (mkS (settle (fst r)) (lastdisc x), true)
  | SR k => match conns s with
            | [] => (x, false)
            | _ => match nth_error (conns s) (Z.to_nat (k mod zlen (conns s))) with
                   | Some (id, _) => (mkS (settle (cstep s (Remove id))) (Some id), true)
                   | None => (x, false) end
            end
  | SZ => match lastdisc x with
          | Some id => (mkS (settle (cstep s (Disconnect id))) (lastdisc x), true)
          | None => (x, false) end
  (* cancel: Disconnect(id) of the request in flight; the harness can name that id only when the
     target is 1 (then at most one request exists and its id is the number of requests so far) *)
  | SC => if tgt s =? 1 then
            match tasks s with
            | [(id, _)] => (mkS (settle (cstep s (Disconnect id))) (lastdisc x), true)
            | _ => (x, false)
            end
          else (x, false)
  end.

Definition sinit (target mf : Z) (hb : bool) : sst := mkS (settle (cinit target mf hb)) None.

Fixpoint strace (x : sst) (evs : list sev) : list (bool * cst) :=
  match evs with
  | [] => []
  | e :: t => let r := sstep x e in (snd r, core (fst r)) :: strace (fst r) t
  end.
Definition sfinal (x : sst) (evs : list sev) : cst := core (fold_left (fun x e => fst (sstep x e)) evs x).

(* projections printed by the driver *)
Definition n_wait (s : cst) : Z := zlen (filter (fun t => is_wait (snd t)) (tasks s)).
Definition n_dialing (s : cst) (a : Z) : Z := zlen (filter (fun t => is_dialing a (snd t)) (tasks s)).
Definition dialing_addrs (s : cst) : list Z :=
  flat_map (fun t => match snd t with Dialing a => [a] | _ => [] end) (tasks s).

(* ---- spec oracle on OBSERVED numbers (implementation output) ----------------------------------
   open connections, blocked GetNewAddress calls, blocked Dial calls, and x = the number of requests
   the script canceled while they were in flight (each of those may end without a successor).
   0 ok | 1 above-target | 3 slot-lost (fewer connections + requests than the target allows)
   | 4 too-many-requests *)
Definition cm_check (target o w d x : Z) : nat :=
  if o >? target then 1%nat
  else if o + w + d >? target then 4%nat
  else if o + w + d + x <? target then 3%nat
  else 0%nat.
