(* Model of the default sync engine at /repo HEAD (after fix commits e6f7150, 1572875 and fc399a8): SyncManager (transports/p2p/p2psync/manager.go) together with the
   duplicate-request filter of Peer.PushGetHeadersMsg and the Connected() guard of Peer.QueueMessage
   (transports/p2p/peer/peer.go).  Definitions only.  The model mirrors the code AS IT IS.

   Go heap objects:  d_objs   = the *peer.Peer objects (they outlive their peerStates entry),
                     d_states = sm.peerStates (peer -> SyncCandidate).
   startSync picks a RANDOM peer among the candidates (crypto/rand over a randomly ordered map walk):
   the model takes the observed choice as a hint and uses it when it is a legal candidate. *)
From Coq Require Import ZArith NArith List Bool.
From BHS Require Import Work Store Chain SyncNode.
Import ListNotations.
Open Scope Z_scope.

Record pobj := { po_conn : bool;              (* Connected(): connected && !disconnect *)
                 po_last : Z;                 (* LastBlock() *)
                 po_start : Z;                (* StartingHeight() *)
                 po_pb : option N;            (* prevGetHdrsBegin *)
                 po_ps : option N }.          (* prevGetHdrsStop *)

Record dcfg := { c_cps : list cp;             (* config.Checkpoints (SyncManager.checkpoints and HeaderService.checkpoints) *)
                 c_disable : bool;            (* p2p.disable_checkpoints *)
                 c_forb : list N;             (* Params.HeadersToIgnore *)
                 c_now : Z }.                 (* wall clock (only IsCurrent reads it) *)

Record dstate := { d_hfm : bool;              (* headersFirstMode *)
                   d_next : option cp;        (* nextCheckpoint *)
                   d_sync : option N;         (* syncPeer *)
                   d_objs : list (N * pobj);
                   d_states : list (N * bool);
                   d_store : store }.

Definition with_store (st : dstate) (s : store) : dstate :=
  {| d_hfm := d_hfm st; d_next := d_next st; d_sync := d_sync st; d_objs := d_objs st; d_states := d_states st; d_store := s |}.
Definition with_objs (st : dstate) (o : list (N * pobj)) : dstate :=
  {| d_hfm := d_hfm st; d_next := d_next st; d_sync := d_sync st; d_objs := o; d_states := d_states st; d_store := d_store st |}.
Definition with_states (st : dstate) (x : list (N * bool)) : dstate :=
  {| d_hfm := d_hfm st; d_next := d_next st; d_sync := d_sync st; d_objs := d_objs st; d_states := x; d_store := d_store st |}.
Definition with_sync (st : dstate) (x : option N) : dstate :=
  {| d_hfm := d_hfm st; d_next := d_next st; d_sync := x; d_objs := d_objs st; d_states := d_states st; d_store := d_store st |}.
Definition with_next (st : dstate) (x : option cp) : dstate :=
  {| d_hfm := d_hfm st; d_next := x; d_sync := d_sync st; d_objs := d_objs st; d_states := d_states st; d_store := d_store st |}.
Definition with_hfm (st : dstate) (x : bool) : dstate :=
  {| d_hfm := x; d_next := d_next st; d_sync := d_sync st; d_objs := d_objs st; d_states := d_states st; d_store := d_store st |}.

(* association lists keyed by peer id *)
Fixpoint aget {A} (p : N) (l : list (N * A)) : option A :=
  match l with [] => None | (q, a) :: r => if N.eqb q p then Some a else aget p r end.
Fixpoint aset {A} (p : N) (a : A) (l : list (N * A)) : list (N * A) :=
  match l with [] => [(p, a)] | (q, b) :: r => if N.eqb q p then (q, a) :: r else (q, b) :: aset p a r end.
Fixpoint adel {A} (p : N) (l : list (N * A)) : list (N * A) :=
  match l with [] => [] | (q, b) :: r => if N.eqb q p then adel p r else (q, b) :: adel p r end.

Definition opt_eqb (a : option N) (p : N) : bool := match a with Some q => N.eqb q p | None => false end.

(* sm.checkpoints: the configured list, nil when checkpoints are disabled (fc399a8) *)
Definition sm_cps (cfg : dcfg) : list cp := if c_disable cfg then [] else c_cps cfg.

(* SyncManager.New *)
Definition d_init (cfg : dcfg) (s : store) : dstate :=
  let nx := if c_disable cfg then None else find_next_d (c_cps cfg) (tip_height s) in
  {| d_hfm := if c_disable cfg then true else match nx with None => true | Some _ => false end;     (* e6f7150: true when disabled *)
     d_next := nx; d_sync := None; d_objs := []; d_states := []; d_store := s |}.

(* peer.Disconnect() *)
Definition disc (st : dstate) (p : N) : dstate * list eff :=
  match aget p (d_objs st) with
  | None => (st, [])
  | Some o =>
    (with_objs st (aset p {| po_conn := false; po_last := po_last o; po_start := po_start o; po_pb := po_pb o; po_ps := po_ps o |} (d_objs st)),
     if po_conn o then [Disconnect p] else [])
  end.

(* peer.PushGetHeadersMsg: back-to-back duplicate filter, then QueueMessage (dropped when not connected) *)
Definition send_gh (st : dstate) (p : N) (loc : list N) (stop : N) : dstate * list eff :=
  match aget p (d_objs st) with
  | None => (st, [])
  | Some o =>
    let b := hd_error loc in
    let dup := match po_ps o, po_pb o, b with
               | Some s0, Some b0, Some b1 => N.eqb stop s0 && N.eqb b1 b0
               | _, _, _ => false
               end in
    if dup then (st, []) else
    (with_objs st (aset p {| po_conn := po_conn o; po_last := po_last o; po_start := po_start o; po_pb := b; po_ps := Some stop |} (d_objs st)),
     if po_conn o then [GetHeaders p loc stop] else [])
  end.

Definition last_of (st : dstate) (p : N) : Z := match aget p (d_objs st) with Some o => po_last o | None => 0 end.
Definition top_block (st : dstate) (p : N) : Z :=
  match aget p (d_objs st) with Some o => Z.max (po_last o) (po_start o) | None => 0 end.

(* startSync *)
Definition start_sync (cfg : dcfg) (hint : N) (st : dstate) : dstate * list eff :=
  match d_sync st with
  | Some _ => (st, [])
  | None =>
    let best := tip_height (d_store st) in
    let cands := filter (fun pc => snd pc) (d_states st) in
    let bestp := map fst (filter (fun pc => best <? last_of st (fst pc)) cands) in
    let okp := map fst (filter (fun pc => last_of st (fst pc) =? best) cands) in
    let states' := map (fun pc => if snd pc && (last_of st (fst pc) <? best) then (fst pc, false) else pc) (d_states st) in
    let st0 := with_states st states' in
    let pick := fun l => if memN hint l then Some hint else hd_error l in
    match (match bestp with _ :: _ => pick bestp | [] => pick okp end) with
    | None => (st0, [])
    | Some p =>
      let loc := locator (d_store st0) in
      let '(st1, e1) :=
        match d_next st0 with
        | Some (H, cid) => if best <? H then send_gh (with_hfm st0 true) p loc cid else send_gh st0 p loc 0%N
        | None => send_gh st0 p loc 0%N
        end in
      (with_sync st1 (Some p), e1)
    end
  end.

(* updateSyncPeer *)
Definition update_sync_peer (cfg : dcfg) (hint : N) (st : dstate) : dstate * list eff :=
  match d_sync st with
  | None => (st, [])
  | Some sp =>
    let '(st1, e1) := disc st sp in
    let '(st2, e2) := start_sync cfg hint (with_sync st1 None) in
    (st2, e1 ++ e2)
  end.

(* handleNewPeerMsg; cand = isSyncCandidate (the peer advertises SFNodeNetwork), lb = the height of its version message *)
Definition on_new_peer (cfg : dcfg) (hint : N) (st : dstate) (p : N) (cand : bool) (lb : Z) : dstate * list eff :=
  let st1 := with_states (with_objs st (aset p {| po_conn := true; po_last := lb; po_start := lb; po_pb := None; po_ps := None |} (d_objs st)))
                         (aset p cand (d_states st)) in
  if cand && negb (match d_sync st with Some _ => true | None => false end) then start_sync cfg hint st1 else (st1, []).

(* the same registration when the connection has already been lost: serverPeer.OnVersion queues NewPeer as soon as the
   version message is read, i.e. before the verack; a peer that drops in between is registered with a dead connection
   (Connected() = false) and leaves through its done event like any other *)
Definition on_new_peer_gone (cfg : dcfg) (hint : N) (st : dstate) (p : N) (cand : bool) (lb : Z) : dstate * list eff :=
  let st1 := with_states (with_objs st (aset p {| po_conn := false; po_last := lb; po_start := lb; po_pb := None; po_ps := None |} (d_objs st)))
                         (aset p cand (d_states st)) in
  if cand && negb (match d_sync st with Some _ => true | None => false end) then start_sync cfg hint st1 else (st1, []).

(* handleDonePeerMsg *)
Definition on_done (cfg : dcfg) (hint : N) (st : dstate) (p : N) : dstate * list eff :=
  match aget p (d_states st) with
  | None => (st, [])
  | Some _ =>
    let st1 := with_states st (adel p (d_states st)) in
    if opt_eqb (d_sync st) p then update_sync_peer cfg hint st1 else (st1, [])
  end.

(* handleCheckSyncPeer; aged = the sync peer's lastBlockTime is older than maxLastBlockTime
   (the network-speed rule is off: minSyncPeerNetworkSpeed = 0 gives no violations) *)
Definition on_tick (cfg : dcfg) (hint : N) (st : dstate) (aged : bool) : dstate * list eff :=
  match d_sync st with
  | None => (st, [])
  | Some sp =>
    if negb aged then (st, [])
    else if top_block st sp =? tip_height (d_store st) then (st, [])
    else match aget sp (d_states st) with
         | None => (st, [])
         | Some _ => update_sync_peer cfg hint st
         end
  end.

(* the loop of handleHeadersMsg over one batch *)
Inductive hres := HDone (s : store) (received : bool) (final : option N) | HBan (s : store) | HMismatch (s : store).
Fixpoint hloop (f : list N) (cps : list cp) (next : option cp) (s : store) (rc : bool) (fin : option N) (hs : list src) : hres :=
  match hs with
  | [] => HDone s rc fin
  | h :: r =>
    match add f s h with
    | (s', Duplicate) => hloop f cps next s' rc fin r
    | (s', Forbidden) => HBan s'
    | (s', ErrNoTip) => hloop f cps next s' rc fin r
    | (s', Stored x) =>
      let hh := height (create_header s h) in
      let fin' := match x with Longest => Some (s_id h) | _ => fin end in
      (* verifyCheckpointHeight: the cursor's checkpoint first (orphans included, as before); otherwise any other
         configured checkpoint at that height (non-orphans only) *)
      match next with
      | Some (H, cid) =>
        if hh =? H then (if N.eqb (s_id h) cid then hloop f cps next s' true fin' r else HMismatch s')
        else if contradicts cps x hh (s_id h) then HMismatch s'
        else hloop f cps next s' rc fin' r
      | None => if contradicts cps x hh (s_id h) then HMismatch s' else hloop f cps next s' rc fin' r
      end
    end
  end.

(* handleHeadersMsg *)
Definition on_headers (cfg : dcfg) (st : dstate) (p : N) (hs : list src) : dstate * list eff :=
  match aget p (d_states st) with
  | None => (st, [])
  | Some _ =>
    if negb (d_hfm st) then disc st p
    else match hs with
    | [] => (st, [])
    | _ =>
      match hloop (c_forb cfg) (sm_cps cfg) (d_next st) (d_store st) false None hs with
      | HBan s' => let '(st1, e1) := disc (with_store st s') p in (st1, Ban p :: e1)
      | HMismatch s' => disc (with_store st s') p
      | HDone s' rc fin =>
        let st1 := with_store st s' in
        match fin with
        | None => (st1, [])
        | Some _ =>
          match (if rc then d_next st else None) with
          | Some (H, cid) =>
            match find_next_d (c_cps cfg) H with
            | Some (H', c') => send_gh (with_next st1 (Some (H', c'))) p [cid] c'
            | None => send_gh (with_next st1 None) p (locator s') 0%N
            end
          | None =>
            match d_next st with
            | None => send_gh st1 p (locator s') 0%N
            | Some (_, c) => send_gh st1 p (locator s') c
            end
          end
        end
      end
    end
  end.

(* SyncManager.current *)
Definition current (cfg : dcfg) (st : dstate) : option bool :=
  match is_current (c_cps cfg) (c_now cfg) (d_store st) with
  | None => None
  | Some false => Some false
  | Some true => match d_sync st with
                 | None => Some true
                 | Some sp => Some (negb (tip_height (d_store st) <? last_of st sp))
                 end
  end.

(* handleInvMsg *)
Definition on_inv (cfg : dcfg) (st : dstate) (p : N) (l : list (bool * N)) : dstate * list eff :=
  match aget p (d_states st) with
  | None => (st, [])
  | Some _ =>
    let lb := last_block l in
    let is_sync := opt_eqb (d_sync st) p in
    if (match lb with None => true | Some _ => false end) && is_sync then (st, [])
    else match current cfg st with
    | None => (st, [Panic])
    | Some cur =>
      if negb is_sync && negb cur then (st, [])
      else match lb with
      | None => (st, [])
      | Some h =>
        match (if cur then by_hash (d_store st) h else None) with
        | Some r =>
          (match aget p (d_objs st) with
           | Some o => with_objs st (aset p {| po_conn := po_conn o; po_last := height r; po_start := po_start o; po_pb := po_pb o; po_ps := po_ps o |} (d_objs st))
           | None => st
           end, [])
        | None => send_gh st p (locator (d_store st)) h      (* 1572875: stop = the announced block (was the zero hash) *)
        end
      end
    end
  end.

(* the events the block handler serialises *)
Inductive devent :=
| ENew (p : N) (cand : bool) (lb : Z)
| EHeaders (p : N) (hs : list src)
| EInv (p : N) (l : list (bool * N))
| EDone (p : N)
| ETick (aged : bool)
| ENewGone (p : N) (cand : bool) (lb : Z).

Definition d_step (cfg : dcfg) (hint : N) (st : dstate) (e : devent) : dstate * list eff :=
  match e with
  | ENew p cand lb => on_new_peer cfg hint st p cand lb
  | EHeaders p hs => on_headers cfg st p hs
  | EInv p l => on_inv cfg st p l
  | EDone p => on_done cfg hint st p
  | ETick aged => on_tick cfg hint st aged
  | ENewGone p cand lb => on_new_peer_gone cfg hint st p cand lb
  end.
