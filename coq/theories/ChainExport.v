(* Composition of C17 with the chain model: the longest chain of every store reachable by ingestion satisfies the
   hypotheses of C17_roundtrip (chain_ok and fields_ok), so exporting it and importing the file reproduces it. *)
From Coq Require Import ZArith NArith List Lia Bool.
From BHS Require Import Work Store Chain ChainSpec StoreProofs ChainInv ChainReorg ChainAdd ChainMain ChainFields ChainCrash.
From BHS Require ExportImport ExportImportProofs.
Import ListNotations.
Open Scope Z_scope.

Module X := ExportImport.

Definition to_xrow (r : row) : X.xrow :=
  {| X.x_hash := id r; X.x_prev := prev r; X.x_height := height r; X.x_version := p_ver (pl r);
     X.x_merkle := p_merkle (pl r); X.x_ts := p_ts (pl r); X.x_bits := p_bits (pl r); X.x_nonce := p_nonce (pl r);
     X.x_work := work r; X.x_cum := cum r |}.

(* the rows database.ExportHeaders writes: LONGEST_CHAIN rows in ascending height order *)
Definition longest_rows (s : store) (tip : N) : list X.xrow := map to_xrow (rev (chain s tip)).

(* every row's work is calc_work of its bits *)
Definition work_ok (s : store) := forall r, In r s -> work r = calc_work (p_bits (pl r)).

(* the value ranges of the Go field types of a submitted header *)
Definition payload_in_range (p : payload) : Prop :=
  - 2 ^ 31 <= p_ver p < 2 ^ 31 /\ 0 <= p_nonce p < 2 ^ 32 /\ 0 <= p_bits p < 2 ^ 32 /\
  (p_merkle p < 2 ^ 256)%N /\ - 2 ^ 63 <= p_ts p < 2 ^ 63.
Definition payloads_ok (s : store) := forall r, In r s -> payload_in_range (pl r).

Section WithHash.
  Variable hashf : X.src -> N.

  Fixpoint cf_end (p : N) (h c : Z) (rows : list X.xrow) : N * Z * Z :=
    match rows with [] => (p, h, c) | r :: rest => cf_end (X.x_hash r) (h + 1) (X.x_cum r) rest end.

  Lemma chain_from_app p h c l1 l2 :
    X.chain_from hashf p h c (l1 ++ l2) <->
    X.chain_from hashf p h c l1 /\ (let '(p', h', c') := cf_end p h c l1 in X.chain_from hashf p' h' c' l2).
  Proof.
    revert p h c. induction l1 as [|r l1 IH]; intros p h c; cbn [app X.chain_from cf_end]; [tauto|].
    rewrite IH. tauto.
  Qed.

  (* rows labelled by the hash function *)
  Definition labelled (s : store) := forall r, In r s -> hashf (X.src_of (to_xrow r)) = id r.

  Lemma chain_rows_ok s : wf s -> work_ok s -> labelled s ->
    forall rest t y, chain s t = y :: rest -> orph y = false ->
      X.chain_from hashf 0%N 0 0 (map to_xrow (rev (y :: rest))) /\
      cf_end 0%N 0 0 (map to_xrow (rev (y :: rest))) = (id y, height y + 1, cum y).
  Proof.
    intros Hwf Hw Hlab rest. revert s Hwf Hw Hlab.
    induction rest as [|b c IH]; intros s Hwf Hw Hlab t y H Hy.
    - (* y is genesis *)
      destruct (chain_connected_nonempty_last s Hwf t y [] H Hy) as (g & Hl & Hg0 & Hls). cbn in Hl. subst g.
      assert (Hys: In y s) by (apply (chain_incl s t); rewrite H; left; reflexivity).
      assert (Hgen: prev y = 0%N /\ cum y = work y).
      { (* the last row of a well-formed store is its genesis row *)
        clear - Hwf Hls Hys. induction Hwf as [g Hg | r s0 Hwf0 IH0 Hn0 Hz0 Hok0].
        - cbn in Hls. subst g. destruct Hg as (Hp & _ & _ & _ & Hc). auto.
        - destruct s0 as [|a s1]; [inversion Hwf0|]. change (last (r :: a :: s1) y) with (last (a :: s1) y) in Hls.
          apply IH0; [exact Hls|]. rewrite <- Hls. apply last_in. discriminate. }
      destruct Hgen as [Hp Hc]. cbn [rev app map X.chain_from cf_end to_xrow X.x_prev X.x_height X.x_hash X.x_work X.x_bits X.x_cum].
      split; [|rewrite Hg0; reflexivity].
      repeat split; auto; try (symmetry; apply (Hlab y Hys)); try (apply (Hw y Hys)); try (rewrite Hc; lia).
    - destruct (chain_step s Hwf t y b c H) as (Hp & Hh & Hc & Ho).
      destruct (chain_tail_is_chain _ _ _ _ H) as (s' & [pre Hpre] & Hr).
      assert (Hwf': wf s').
      { subst s. apply (wf_suffix (pre ++ [y]) s'); [rewrite <- app_assoc; exact Hwf|].
        intro E. subst s'. cbn in Hr. discriminate. }
      assert (Hsub: forall r, In r s' -> In r s) by (intros r Hr'; subst s; apply in_or_app; right; right; exact Hr').
      destruct (IH s' Hwf' (fun r Hr' => Hw r (Hsub r Hr')) (fun r Hr' => Hlab r (Hsub r Hr')) (prev y) b (eq_sym Hr) ltac:(congruence)) as [Hcf Hend].
      assert (Hys: In y s) by (apply (chain_incl s t); rewrite H; left; reflexivity).
      change (rev (y :: b :: c)) with (rev (b :: c) ++ [y]). rewrite map_app. split.
      + apply chain_from_app. split; [exact Hcf|]. rewrite Hend.
        cbn [map X.chain_from to_xrow X.x_prev X.x_height X.x_hash X.x_work X.x_bits X.x_cum].
        repeat split; auto; try lia; try (symmetry; apply (Hlab y Hys)); try (apply (Hw y Hys)).
      + assert (Hce: forall l p h c0 r, cf_end p h c0 (l ++ [r]) = (let '(p', h', _) := cf_end p h c0 l in (X.x_hash r, h' + 1, X.x_cum r))).
        { induction l as [|a l IHl]; intros p h c0 r; cbn [app cf_end]; [reflexivity| apply IHl]. }
        cbn [map]. rewrite Hce, Hend. cbn [to_xrow X.x_hash X.x_cum]. rewrite Hh. reflexivity.
  Qed.

  Theorem longest_rows_chain_ok s tip : Inv s tip -> work_ok s -> labelled s -> X.chain_ok hashf (longest_rows s tip).
  Proof.
    intros HI Hw Hlab. pose proof HI as (Hwf & (t & Ht & Hto) & _).
    destruct (by_hash_chain s tip (wf_nodup s Hwf) t Ht) as [rest Hc].
    unfold X.chain_ok, longest_rows. rewrite Hc. apply (chain_rows_ok s Hwf Hw Hlab rest tip t Hc Hto).
  Qed.

  Theorem longest_rows_fields_ok s tip : payloads_ok s -> Forall X.fields_ok (longest_rows s tip).
  Proof.
    intros Hp. unfold longest_rows. apply Forall_forall. intros x Hx. apply in_map_iff in Hx. destruct Hx as (r & <- & Hr).
    apply in_rev in Hr. apply chain_incl in Hr. exact (Hp r Hr).
  Qed.

  (* C17 composed with the chain model: export then import reproduces the longest chain of the store *)
  Theorem export_import_longest s tip : Inv s tip -> work_ok s -> labelled s -> payloads_ok s ->
    X.import hashf (X.export (longest_rows s tip)) = X.Ok (longest_rows s tip).
  Proof.
    intros HI Hw Hlab Hp. apply ExportImportProofs.roundtrip; [apply longest_rows_chain_ok; assumption| apply longest_rows_fields_ok; exact Hp].
  Qed.
End WithHash.

(* ---- the hypotheses hold for every store reachable by ingestion ---- *)
Lemma spec_run_work_ok f hs : forall a, work_ok a -> work_ok (spec_run_from f a hs).
Proof.
  induction hs as [|h hs IH]; intros a Ha; [exact Ha|]. unfold spec_run_from in *. cbn [fold_left]. apply IH.
  unfold spec_step. destruct (by_hash a (s_id h)); [exact Ha|]. destruct (memN (s_id h) f); [exact Ha|]. cbn [fst].
  intros r [<-|Hr]; [reflexivity| apply Ha; exact Hr].
Qed.

Lemma work_ok_dummy s : work_ok (map dummy s) -> work_ok s.
Proof. intros H r Hr. exact (H (dummy r) (in_map dummy s r Hr)). Qed.

Theorem reachable_work_ok f gid gpl hs : gid <> 0%N -> nonzero_ids hs -> work_ok (run f gid gpl hs).
Proof.
  intros Hg Hn. apply work_ok_dummy. rewrite (rows_are_arrival_records f gid gpl hs Hg Hn).
  apply spec_run_work_ok. intros r [<-|[]]. reflexivity.
Qed.

Lemma spec_run_payloads f hs : forall a, payloads_ok a -> (forall h, In h hs -> payload_in_range (s_pl h)) ->
  payloads_ok (spec_run_from f a hs).
Proof.
  induction hs as [|h hs IH]; intros a Ha Hh; [exact Ha|]. unfold spec_run_from in *. cbn [fold_left].
  apply IH; [|intros x Hx; apply Hh; right; exact Hx].
  unfold spec_step. destruct (by_hash a (s_id h)); [exact Ha|]. destruct (memN (s_id h) f); [exact Ha|]. cbn [fst].
  intros r [<-|Hr]; [apply Hh; left; reflexivity| apply Ha; exact Hr].
Qed.

Theorem reachable_payloads_ok f gid gpl hs : gid <> 0%N -> nonzero_ids hs ->
  payload_in_range gpl -> (forall h, In h hs -> payload_in_range (s_pl h)) -> payloads_ok (run f gid gpl hs).
Proof.
  intros Hg Hn Hgp Hh r Hr.
  assert (Hd: payloads_ok (map dummy (run f gid gpl hs))).
  { rewrite (rows_are_arrival_records f gid gpl hs Hg Hn). apply spec_run_payloads; [|exact Hh].
    intros x [<-|[]]. exact Hgp. }
  exact (Hd (dummy r) (in_map dummy _ r Hr)).
Qed.

(* the whole statement, over histories: after ANY ingestion history (in-range fields, hashes given by hashf),
   exporting the longest chain and importing the file yields exactly that chain *)
Theorem C17_over_histories (hashf : X.src -> N) f gid gpl hs : gid <> 0%N -> nonzero_ids hs ->
  payload_in_range gpl -> (forall h, In h hs -> payload_in_range (s_pl h)) ->
  labelled hashf (run f gid gpl hs) ->
  exists tip, Inv (run f gid gpl hs) tip /\
    X.import hashf (X.export (longest_rows (run f gid gpl hs) tip)) = X.Ok (longest_rows (run f gid gpl hs) tip).
Proof.
  intros Hg Hn Hgp Hh Hlab. destruct (reachable_inv f gid gpl hs Hg Hn) as [tip HI]. exists tip. split; [exact HI|].
  apply export_import_longest; auto; [apply reachable_work_ok; assumption| apply reachable_payloads_ok; assumption].
Qed.
