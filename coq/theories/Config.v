(* C20 - model of configuration resolution (config/load.go, config/defaults.go, cli/flags.go as driven by
   cmd/main.go: SetDefaults; LoadFlags; Load; Validate) and of DbConfig.Validate (config/config.go).

   What is modelled and what is not.  The precedence itself (environment over file over defaults) is implemented
   by the viper library, not by code of this repository: `resolve` below is the CONTRACT the README states, and
   `effective`/`load_model` add the parts that ARE decided by this repository's code:
     - the name of the environment variable of a key  (envConfig: prefix "bhs", replacer "." -> "_", upper-cased);
     - which keys can be overridden at all (SetDefaults registers a viper default for every leaf of the default
       struct; AutomaticEnv only sees registered keys) - the regenerated table BHSGen.ConfigKeys;
     - AutomaticEnv without AllowEmptyEnv: a variable that is set to the empty string counts as NOT set;
     - Load builds the logger from logging.level and fails for a level zerolog does not know;
     - weakly typed decoding of the textual source values into the field types (only the canonical textual
       forms listed at `canon` are claimed);
     - DbConfig.Validate: the decision tree, in the order of the source, with the result of os.Stat on the
       prepared-database path as an oracle input.
   Definitions only; proofs are in ConfigProofs.v. *)
From Coq Require Import String Ascii List Bool NArith DecimalString.
Import ListNotations.
Open Scope string_scope.

(* ------------------------------------------------------------------------------------------------ *)
(* strings *)

Fixpoint map_string (f : ascii -> ascii) (s : string) : string :=
  match s with
  | EmptyString => EmptyString
  | String c r => String (f c) (map_string f r)
  end.

Fixpoint forallb_string (p : ascii -> bool) (s : string) : bool :=
  match s with
  | EmptyString => true
  | String c r => p c && forallb_string p r
  end.

Definition in_range (lo hi : N) (c : ascii) : bool :=
  let n := N_of_ascii c in (N.leb lo n) && (N.leb n hi).

Definition is_lower (c : ascii) : bool := in_range 97 122 c.
Definition is_upper (c : ascii) : bool := in_range 65 90 c.
Definition is_digit (c : ascii) : bool := in_range 48 57 c.

Definition upper_ascii (c : ascii) : ascii :=
  if is_lower c then ascii_of_N (N_of_ascii c - 32) else c.
Definition lower_ascii (c : ascii) : ascii :=
  if is_upper c then ascii_of_N (N_of_ascii c + 32) else c.

Definition upper : string -> string := map_string upper_ascii.
Definition lower : string -> string := map_string lower_ascii.

(* strings.NewReplacer(".", "_") on a key *)
Definition replace_char (a b : ascii) : string -> string :=
  map_string (fun c => if Ascii.eqb c a then b else c).

(* envConfig: SetEnvPrefix("bhs"), SetEnvKeyReplacer(". -> _"), AutomaticEnv; viper upper-cases prefix_key *)
Definition env_name (k : string) : string := "BHS_" ++ upper (replace_char "."%char "_"%char k).

Definition is_key_char (c : ascii) : bool := is_lower c || is_digit c || Ascii.eqb c "_"%char || Ascii.eqb c "."%char.
Definition is_env_char (c : ascii) : bool := is_upper c || is_digit c || Ascii.eqb c "_"%char.

(* a well-formed variable name: BHS_ followed by at least one character, all of [A-Z0-9_] *)
Definition wf_env_name (s : string) : bool :=
  String.prefix "BHS_" s && N.ltb 4 (N.of_nat (String.length s)) && forallb_string is_env_char s.

(* ------------------------------------------------------------------------------------------------ *)
(* the contract: environment over file over defaults *)

Definition resolve {K V : Type} (env file : K -> option V) (dflt : K -> V) (k : K) : V :=
  match env k with
  | Some v => v
  | None => match file k with
            | Some v => v
            | None => dflt k
            end
  end.

(* ------------------------------------------------------------------------------------------------ *)
(* sources: the process environment and the (flattened) selected file are association lists, first
   binding wins *)

Definition assoc := list (string * string).

Fixpoint lookup (m : assoc) (k : string) : option string :=
  match m with
  | [] => None
  | (k', v) :: r => if String.eqb k' k then Some v else lookup r k
  end.

(* the code: viper's AutomaticEnv with AllowEmptyEnv off treats an empty variable as unset *)
Definition env_of (penv : assoc) (k : string) : option string :=
  match lookup penv (env_name k) with
  | Some "" => None
  | o => o
  end.

(* ------------------------------------------------------------------------------------------------ *)
(* decoding of textual source values into the field types; Some canonical-rendering or None (refused).
   Only these forms are claimed (the generator stays inside them):
     bool     strconv.ParseBool's twelve spellings, and "" (weak decoding: false)
     int      0 | [-]d..d without leading zero, within int64
     uint16   0 | d..d without leading zero, below 65536
     duration what time.ParseDuration accepts (sign, fractions, ns/us/ms/s/m/h), rendered as
              time.Duration.String does
     string, enum: any text, unchanged *)

Definition digit_val (c : ascii) : N := N_of_ascii c - 48.

Fixpoint parse_digits (s : string) (acc : N) : option N :=
  match s with
  | EmptyString => Some acc
  | String c r => if is_digit c then parse_digits r (acc * 10 + digit_val c) else None
  end.

(* canonical unsigned decimal: "0" or digits not starting with 0 *)
Definition parse_udec (s : string) : option N :=
  match s with
  | EmptyString => None
  | String c r =>
    if Ascii.eqb c "0"%char then (match r with EmptyString => Some 0%N | _ => None end)
    else parse_digits s 0
  end.

Definition canon_uint16 (s : string) : option string :=
  match parse_udec s with
  | Some n => if N.ltb n 65536 then Some s else None
  | None => None
  end.

Definition two63 : N := 9223372036854775808.

(* Some (negative?, magnitude) *)
Definition parse_int (s : string) : option (bool * N) :=
  match s with
  | String "-"%char r =>
    match parse_udec r with
    | Some n => if N.eqb n 0 then None else if N.leb n two63 then Some (true, n) else None
    | None => None
    end
  | _ =>
    match parse_udec s with
    | Some n => if N.ltb n two63 then Some (false, n) else None
    | None => None
    end
  end.

Definition canon_int (s : string) : option string :=
  match parse_int s with Some _ => Some s | None => None end.

Definition canon_bool (s : string) : option string :=
  if existsb (String.eqb s) ["1"; "t"; "T"; "TRUE"; "true"; "True"] then Some "true"
  else if existsb (String.eqb s) ["0"; "f"; "F"; "FALSE"; "false"; "False"; ""] then Some "false"
  else None.

(* --- durations: time.ParseDuration (the mapstructure hook StringToTimeDurationHookFunc) and
   time.Duration.String, on nanoseconds.
   Grammar of ParseDuration:  [-+]? ( "0" | ( digits? ("." digits?)? unit )+ )   with at least one digit per
   segment and unit in ns us (micro sign)s (mu)s ms s m h; a unit is every character up to the next digit or "."
   The fraction of a segment contributes floor(f * unit / scale) (Go computes it in float64; the two agree for
   the short fractions the generator uses).  Magnitudes above 2^63-1 ns (2^63 for a negative one) are refused. *)

Definition dec (n : N) : string := NilEmpty.string_of_uint (N.to_uint n).

Definition micro_sign_s : string := String (ascii_of_N 194) (String (ascii_of_N 181) "s").   (* U+00B5 *)
Definition greek_mu_s : string := String (ascii_of_N 206) (String (ascii_of_N 188) "s").    (* U+03BC *)

Definition unit_ns (u : string) : option N :=
  if String.eqb u "ns" then Some 1%N
  else if String.eqb u "us" then Some 1000%N
  else if String.eqb u micro_sign_s then Some 1000%N
  else if String.eqb u greek_mu_s then Some 1000%N
  else if String.eqb u "ms" then Some 1000000%N
  else if String.eqb u "s" then Some 1000000000%N
  else if String.eqb u "m" then Some 60000000000%N
  else if String.eqb u "h" then Some 3600000000000%N
  else None.

Inductive dstate := DInt | DFrac | DUnit.

(* closes a segment: total + v*unit + floor(f*unit/scale) *)
Definition close_segment (total v f scale : N) (u : string) : option N :=
  match unit_ns u with
  | Some un => Some (total + v * un + N.div (f * un) scale)%N
  | None => None
  end.

Definition snoc (s : string) (c : ascii) : string := s ++ String c EmptyString.

(* v/pre: integer part and whether it has digits; f/scale/post: fraction; u: the unit read so far *)
Fixpoint parse_dur (s : string) (st : dstate) (total v f scale : N) (pre post : bool) (u : string) : option N :=
  match s with
  | EmptyString =>
    match st with
    | DUnit => close_segment total v f scale u
    | _ => None
    end
  | String c r =>
    match st with
    | DInt =>
      if is_digit c then parse_dur r DInt total (v * 10 + digit_val c) f scale true post u
      else if Ascii.eqb c "."%char then parse_dur r DFrac total v 0 1 pre false u
      else if pre then parse_dur r DUnit total v f scale pre post (String c EmptyString)
      else None
    | DFrac =>
      if is_digit c then parse_dur r DFrac total v (f * 10 + digit_val c) (scale * 10) pre true u
      else if Ascii.eqb c "."%char then None
      else if pre || post then parse_dur r DUnit total v f scale pre post (String c EmptyString)
      else None
    | DUnit =>
      if is_digit c then
        match close_segment total v f scale u with
        | Some t => parse_dur r DInt t (digit_val c) 0 1 true false EmptyString
        | None => None
        end
      else if Ascii.eqb c "."%char then
        match close_segment total v f scale u with
        | Some t => parse_dur r DFrac t 0 0 1 false false EmptyString
        | None => None
        end
      else parse_dur r DUnit total v f scale pre post (snoc u c)
    end
  end.

(* Some (negative?, nanoseconds) *)
Definition parse_duration (s : string) : option (bool * N) :=
  let '(neg, body) :=
    match s with
    | String "-"%char r => (true, r)
    | String "+"%char r => (false, r)
    | _ => (false, s)
    end in
  if String.eqb body "0" then Some (false, 0%N)
  else
    match parse_dur body DInt 0 0 0 1 false false EmptyString with
    | Some t =>
      if N.eqb t 0 then Some (false, 0%N)
      else if neg then (if N.leb t two63 then Some (true, t) else None)
      else (if N.ltb t two63 then Some (false, t) else None)
    | None => None
    end.

Definition digit_char (d : N) : ascii := ascii_of_N (48 + d)%N.

(* fmtFrac: the low prec decimal digits of v as ".ddd" without trailing zeros ("" when all zero), and v / 10^prec *)
Fixpoint fmt_frac (v : N) (prec : nat) (printing : bool) (acc : string) : string * N :=
  match prec with
  | O => (if printing then String "."%char acc else acc, v)
  | S p =>
    let d := N.modulo v 10 in
    let pr := printing || negb (N.eqb d 0) in
    fmt_frac (N.div v 10) p pr (if pr then String (digit_char d) acc else acc)
  end.

(* time.Duration.String *)
Definition render_duration (neg : bool) (u : N) : string :=
  if N.eqb u 0 then "0s"
  else
    (if neg then "-" else "") ++
    (if N.ltb u 1000 then dec u ++ "ns"
     else if N.ltb u 1000000 then let '(fr, w) := fmt_frac u 3 false EmptyString in dec w ++ fr ++ micro_sign_s
     else if N.ltb u 1000000000 then let '(fr, w) := fmt_frac u 6 false EmptyString in dec w ++ fr ++ "ms"
     else
       let '(fr, secs) := fmt_frac u 9 false EmptyString in
       let sec := N.modulo secs 60 in
       let mins := N.div secs 60 in
       let m := N.modulo mins 60 in
       let h := N.div mins 60 in
       (if N.ltb 0 h then dec h ++ "h" ++ dec m ++ "m"
        else if N.ltb 0 m then dec m ++ "m" else "")
       ++ dec sec ++ fr ++ "s").

Definition canon_duration (s : string) : option string :=
  match parse_duration s with
  | Some (neg, t) => Some (render_duration neg t)
  | None => None
  end.

Definition canon (ty raw : string) : option string :=
  if String.eqb ty "bool" then canon_bool raw
  else if String.eqb ty "int" then canon_int raw
  else if String.eqb ty "uint16" then canon_uint16 raw
  else if String.eqb ty "duration" then canon_duration raw
  else Some raw.

(* ------------------------------------------------------------------------------------------------ *)
(* the effective configuration over a key table [(key, type, default)] *)

Definition entry := (string * string * string)%type.
Definition e_key (e : entry) : string := fst (fst e).
Definition e_type (e : entry) : string := snd (fst e).
Definition e_default (e : entry) : string := snd e.

Definition opt_bind {A B : Type} (o : option A) (f : A -> option B) : option B :=
  match o with Some a => f a | None => None end.

(* [envf] is env_of (the code) or env_of_spec (the contract).  The result is None when the winning source
   value cannot be decoded into the field's type (Load fails). *)
Definition effective (envf : assoc -> string -> option string) (penv filel : assoc) (e : entry) : option string :=
  resolve (fun k => option_map (canon (e_type e)) (envf penv k))
          (fun k => option_map (canon (e_type e)) (lookup filel k))
          (fun _ => Some (e_default e))
          (e_key e).

Fixpoint sequence {A : Type} (l : list (option A)) : option (list A) :=
  match l with
  | [] => Some []
  | None :: _ => None
  | Some a :: r => match sequence r with Some r' => Some (a :: r') | None => None end
  end.

(* zerolog.ParseLevel: a level name in any letter case, "" (NoLevel), or an integer in [-128,127] *)
Definition valid_level (s : string) : bool :=
  existsb (String.eqb (lower s)) ["trace"; "debug"; "info"; "warn"; "error"; "fatal"; "panic"; "disabled"; ""]
  || match parse_int s with
     | Some (false, n) => N.leb n 127
     | Some (true, n) => N.leb n 128
     | None => false
     end.

(* SetDefaults + LoadFlags + Load: the effective values of all keys of the table, or None (Load returns an error) *)
Definition load_with (envf : assoc -> string -> option string) (tbl : list entry) (penv filel : assoc) : option assoc :=
  match sequence (map (fun e => option_map (fun v => (e_key e, v)) (effective envf penv filel e)) tbl) with
  | Some cfg =>
    match lookup cfg "logging.level" with
    | Some l => if valid_level l then Some cfg else None
    | None => Some cfg
    end
  | None => None
  end.

(* the contract's reading of "the BHS_ variable of the key is set".  A variable that is present but EMPTY:
   for a string-typed key the empty text is a value of the key's type, and the contract says it is the
   effective value (the code ignores it: known finding env-empty-ignored); for a bool / int / uint16 / duration
   key the empty text is NOT a value of the key's type, so the variable provides no value and the file or the
   default decides - in particular a blank variable never makes Load fail and never reaches another key. *)
Definition stringy (ty : string) : bool := String.eqb ty "string" || String.eqb ty "enum".

Definition type_of (tbl : list entry) (k : string) : string :=
  match find (fun e => String.eqb (e_key e) k) tbl with
  | Some e => e_type e
  | None => "string"
  end.

Definition env_of_spec (tbl : list entry) (penv : assoc) (k : string) : option string :=
  match lookup penv (env_name k) with
  | Some "" => if stringy (type_of tbl k) then Some "" else None
  | o => o
  end.

(* SECTION-NAMED VARIABLES - HISTORY (fixed by commit 1a867b2).  Until then envConfig used viper.AutomaticEnv(), which
   treats a non-empty variable named like a PARENT path of a nested key (BHS_HTTP for http.port, BHS_DB and
   BHS_DB_POSTGRES for db.postgres.host) as shadowing that key: unless the key's own variable was set, the key
   was reported as absent, the file's entry was not consulted and the pre-populated default stayed in force
   (viper.find: isPathShadowedInAutoEnv).  Since 1a867b2 every known key is bound with viper.BindEnv(key) and a
   variable named like a section reaches no key.  `shadowed` / `visible_file` / `load_model_old` describe the OLD
   code; they are kept for the refutation lemma about it and so that the oracle can name the defect should it
   return. *)
Fixpoint section_prefixes (s acc : string) : list string :=
  match s with
  | EmptyString => []
  | String c r =>
    if Ascii.eqb c "."%char then acc :: section_prefixes r (acc ++ String c EmptyString)
    else section_prefixes r (acc ++ String c EmptyString)
  end.

Definition shadowed (penv : assoc) (k : string) : bool :=
  existsb (fun p => match lookup penv (env_name p) with
                    | Some "" => false
                    | Some _ => true
                    | None => false
                    end) (section_prefixes k EmptyString).

Definition visible_file (penv filel : assoc) : assoc :=
  filter (fun kv => negb (shadowed penv (fst kv))) filel.

Definition load_model_old (tbl : list entry) (penv filel : assoc) : option assoc :=
  load_with env_of tbl penv (visible_file penv filel).

(* the code as it is: only the key's own variable enters *)
Definition load_model := load_with env_of.
Definition load_spec (tbl : list entry) := load_with (env_of_spec tbl) tbl.

(* WHY Load refuses (beyond the file itself, see read_file below): a winning source value that cannot be decoded
   into its key's type (viper.Unmarshal fails), or a resolved logging.level that zerolog.ParseLevel rejects
   (logging.CreateLogger fails).  Nothing else in Load can fail: logging.format, instance_name and origin accept
   anything. *)
Inductive refusal := IllTypedValue | BadLogLevel.

Definition load_refusal (envf : assoc -> string -> option string) (tbl : list entry) (penv filel : assoc) : option refusal :=
  match sequence (map (fun e => option_map (fun v => (e_key e, v)) (effective envf penv filel e)) tbl) with
  | None => Some IllTypedValue
  | Some cfg =>
    match lookup cfg "logging.level" with
    | Some l => if valid_level l then None else Some BadLogLevel
    | None => None
    end
  end.

(* loadFromFile: WHICH file is read.  viper.SetConfigFile(path) reads exactly the path the user selected and
   takes the format from its extension; ReadInConfig refuses an extension outside viper.SupportedExts (in
   particular no extension).  When no file is selected, the default ./config.yaml is read if it exists - a file
   called config.<anything else> in the working directory is not the default file.
   A selection is (no option given?, extension of the file the user wrote ("" = none), its flattened content).
   Siblings of the selected file (same directory, same stem, another extension) are deliberately NOT an input
   of the model: only the selected file counts, whatever lies next to it. *)
Definition viper_exts : list string :=
  ["json"; "toml"; "yaml"; "yml"; "properties"; "props"; "prop"; "hcl"; "tfvars"; "dotenv"; "env"; "ini"].

Definition read_file (cwd_default : bool) (ext : string) (filel : assoc) : option assoc :=
  if cwd_default then Some (if String.eqb ext "yaml" then filel else [])
  else if existsb (String.eqb ext) viper_exts then Some filel else None.

Definition load_sel_with (envf : assoc -> string -> option string) (tbl : list entry) (penv : assoc)
           (sel : option (bool * string * assoc)) : option assoc :=
  match sel with
  | None => load_with envf tbl penv []
  | Some (cwd_default, ext, filel) =>
    match read_file cwd_default ext filel with
    | Some f => load_with envf tbl penv f
    | None => None
    end
  end.

(* the two files that can be read: the one named by the config-file option (-C, --config_file, BHS_CONFIG_FILE),
   if any, as (extension, content) - whatever its name and directory, be it called config.yaml or not - and the
   default ./config.yaml of the working directory, if present.  The option wins; the default file is read only
   when no file is selected. *)
Definition load_files_with (envf : assoc -> string -> option string) (tbl : list entry) (penv : assoc)
           (opt : option (string * assoc)) (cwd_default : option assoc) : option assoc :=
  match opt with
  | Some (ext, filel) => load_sel_with envf tbl penv (Some (false, ext, filel))
  | None =>
    match cwd_default with
    | Some filel => load_sel_with envf tbl penv (Some (true, "yaml", filel))
    | None => load_sel_with envf tbl penv None
    end
  end.

Definition load_files_model := load_files_with env_of.
Definition load_files_spec (tbl : list entry) := load_files_with (env_of_spec tbl) tbl.

Definition load_sel_model := load_sel_with env_of.
Definition load_sel_spec (tbl : list entry) := load_sel_with (env_of_spec tbl) tbl.

(* ------------------------------------------------------------------------------------------------ *)
(* DbConfig.Validate *)

(* the result of os.Stat on the prepared-database path: success, ENOENT, or any other error *)
Inductive stat := Found | NotExist | StatError.

Record dbcfg := mk_dbcfg {
  engine : string;
  sqlite_path : string;
  pg_host : string;
  pg_port : N;
  pg_user : string;
  pg_db : string;
  prepared : bool;
  prepared_path : string
}.

Inductive verdict :=
| Accept
| RejNil | RejPreparedPathEmpty | RejPreparedMissing | RejSqliteEmpty | RejPostgresIncomplete | RejUnsupported.

(* fileExists: `_, err := os.Stat(p); return err == nil` - any error of os.Stat means "not there".
   (History: until fix commit 63c3b28 it was `!os.IsNotExist(err)`, so ENOTDIR / ENAMETOOLONG / EACCES counted
   as "exists"; the three-valued oracle is kept so that the tie keeps exercising those answers.) *)
Definition file_exists (st : stat) : bool :=
  match st with Found => true | _ => false end.

Definition is_empty (s : string) : bool := String.eqb s "".

(* the decision tree in source order: nil receiver; prepared-db checks; then the engine switch *)
Definition db_validate (c : option dbcfg) (st : stat) : verdict :=
  match c with
  | None => RejNil
  | Some c =>
    if prepared c && is_empty (prepared_path c) then RejPreparedPathEmpty
    else if prepared c && negb (file_exists st) then RejPreparedMissing
    else if String.eqb (engine c) "sqlite" then
      (if is_empty (sqlite_path c) then RejSqliteEmpty else Accept)
    else if String.eqb (engine c) "postgres" then
      (if is_empty (pg_host c) || N.eqb (pg_port c) 0 || is_empty (pg_user c) || is_empty (pg_db c)
       then RejPostgresIncomplete else Accept)
    else RejUnsupported
  end.

(* the same with the file system as the oracle: the ONLY path Validate asks about is the prepared-database
   path - in particular not db.sqlite.file_path (whether the database file already exists is no input) *)
Definition db_validate_fs (c : option dbcfg) (fs : string -> stat) : verdict :=
  match c with
  | None => RejNil
  | Some c' => db_validate c (fs (prepared_path c'))
  end.

Definition fs_override (fs : string -> stat) (p : string) (st : stat) : string -> stat :=
  fun q => if String.eqb q p then st else fs q.

(* the declarative statement *)
Definition engine_ok (c : dbcfg) : Prop :=
  (engine c = "sqlite" /\ sqlite_path c <> "")
  \/ (engine c = "postgres" /\ pg_host c <> "" /\ pg_port c <> 0%N /\ pg_user c <> "" /\ pg_db c <> "").

Definition prepared_ok (c : dbcfg) (st : stat) : Prop :=
  prepared c = true -> prepared_path c <> "" /\ st = Found.

Definition db_ok (c : dbcfg) (st : stat) : Prop := engine_ok c /\ prepared_ok c st.

(* the same as a boolean, for the spec oracle *)
Definition stat_found (st : stat) : bool := match st with Found => true | _ => false end.

Definition db_okb (c : dbcfg) (st : stat) : bool :=
  ((String.eqb (engine c) "sqlite" && negb (is_empty (sqlite_path c)))
   || (String.eqb (engine c) "postgres" && negb (is_empty (pg_host c)) && negb (N.eqb (pg_port c) 0)
       && negb (is_empty (pg_user c)) && negb (is_empty (pg_db c))))
  && (negb (prepared c) || (negb (is_empty (prepared_path c)) && stat_found st)).

(* the database section of a loaded configuration *)
Definition get (cfg : assoc) (k : string) : string :=
  match lookup cfg k with Some v => v | None => "" end.

Definition db_of_cfg (cfg : assoc) : dbcfg :=
  mk_dbcfg (get cfg "db.engine") (get cfg "db.sqlite.file_path") (get cfg "db.postgres.host")
           (match parse_udec (get cfg "db.postgres.port") with Some n => n | None => 0%N end)
           (get cfg "db.postgres.user") (get cfg "db.postgres.db_name")
           (String.eqb (get cfg "db.prepared_db") "true") (get cfg "db.prepared_db_file_path").

(* ------------------------------------------------------------------------------------------------ *)
(* obligations over the regenerated key table (decided by computation on the finite table) *)

Fixpoint distinctb (l : list string) : bool :=
  match l with
  | [] => true
  | x :: r => negb (existsb (String.eqb x) r) && distinctb r
  end.

Definition known_type (ty : string) : bool :=
  existsb (String.eqb ty) ["bool"; "int"; "uint16"; "string"; "duration"; "enum"].

(* a key is well formed when it is non-empty text over [a-z0-9_.], its type is one the model decodes, its
   default is a canonical value of that type, its variable name is well formed, and the default struct really
   reaches the key ("<nil>" is what the table generator prints for a key below a nil section pointer of
   GetDefaultAppConfig(): SetDefaults registers no viper default for such a key, and AutomaticEnv only
   consults registered keys) *)
Definition entry_ok (e : entry) : bool :=
  negb (is_empty (e_key e)) && forallb_string is_key_char (e_key e)
  && known_type (e_type e)
  && (match canon (e_type e) (e_default e) with Some d => String.eqb d (e_default e) | None => false end)
  && wf_env_name (env_name (e_key e))
  && negb (String.eqb (e_default e) "<nil>").

Definition table_ok (tbl : list entry) : bool :=
  negb (match tbl with [] => true | _ => false end)
  && forallb entry_ok tbl
  && distinctb (map e_key tbl)
  && distinctb (map (fun e => env_name (e_key e)) tbl).
