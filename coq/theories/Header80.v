(* The 80-byte header serialisation of /repo/internal/wire/blockheader.go (writeBlockHeader:
   version int32 LE, prev 32 bytes, merkle root 32 bytes, timestamp uint32 LE, bits uint32 LE, nonce uint32 LE)
   and the block hash = SHA-256d of it.  Definitions only.  Bytes are N in [0,256). *)
From Coq Require Import ZArith NArith List.
From BHS Require Import Sha256.
Import ListNotations.
Open Scope Z_scope.

Definition byte_of (v : Z) (k : Z) : N := Z.to_N ((v / 256 ^ k) mod 256).
Definition le32 (v : Z) : list N := [byte_of v 0; byte_of v 1; byte_of v 2; byte_of v 3].
(* int32 -> its two's complement uint32 *)
Definition u32_of_i32 (v : Z) : Z := v mod 2 ^ 32.

Definition ser80 (ver : Z) (prev merkle : list N) (ts bits nonce : Z) : list N :=
  le32 (u32_of_i32 ver) ++ prev ++ merkle ++ le32 ts ++ le32 bits ++ le32 nonce.

(* chainhash.DoubleHashH; Hash.String() prints the bytes reversed *)
Definition block_hash (ver : Z) (prev merkle : list N) (ts bits nonce : Z) : list N :=
  sha256d (ser80 ver prev merkle ts bits nonce).
Definition block_hash_display (ver : Z) (prev merkle : list N) (ts bits nonce : Z) : list N :=
  rev (block_hash ver prev merkle ts bits nonce).
