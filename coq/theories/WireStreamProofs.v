(* C14 proofs, part 7: (a) the two in-memory forms of an IPv4 address encode to the same bytes and
   decode(encode m) is the message with the 16-byte mapped form; (b) several frames on one reader:
   after ANY verdict on a fully framed frame the reader stands exactly behind it, so the i-th
   ReadMessage on a stream gives the verdict of the i-th frame alone (the stream stays in step). *)
From Coq Require Import NArith ZArith List Bool Lia ZifyBool ZifyN ZifyNat.
From BHS Require Import Sha256 WireBase WireBaseProofs WireMsg WireMsgProofs WireFrame WireSpec WireSpecProofs WireFrameProofs.
Import ListNotations.
Open Scope N_scope.

(* ---------- (a) IPv4 forms ---------- *)

Lemma ip_to16_norm : forall ip, ip_to16 (norm_ip ip) = ip_to16 ip.
Proof.
  intros ip. unfold norm_ip. destruct (Nat.eqb (length ip) 4) eqn:H4; [|reflexivity].
  apply Nat.eqb_eq in H4. unfold ip_to16 at 1. rewrite app_length, H4. cbn [Nat.eqb length v4_prefix Nat.add].
  unfold ip_to16. rewrite H4. reflexivity.
Qed.

Lemma enc_netaddr_norm : forall pver ts a, enc_netaddr pver ts (norm_na a) = enc_netaddr pver ts a.
Proof. intros pver ts a. unfold enc_netaddr, norm_na. cbn [na_ts na_svc na_ip na_port]. rewrite ip_to16_norm. reflexivity. Qed.

Lemma flat_map_norm : forall pver l,
  flat_map (enc_netaddr pver true) (map norm_na l) = flat_map (enc_netaddr pver true) l.
Proof.
  intros pver l. induction l as [|a l IH]; [reflexivity|]. cbn [map flat_map]. rewrite enc_netaddr_norm, IH. reflexivity.
Qed.

Theorem enc_payload_norm : forall pver m,
  enc_payload pver (norm_msg m) = enc_payload pver m /\ enc_check pver (norm_msg m) = enc_check pver m /\
  kind_of (norm_msg m) = kind_of m.
Proof.
  intros pver m. destruct m; try (split; [reflexivity|split; reflexivity]).
  - (* version *)
    cbn [norm_msg enc_payload enc_check kind_of]. unfold enc_version.
    cbn [v_pver v_svc v_ts v_you v_me v_nonce v_ua v_lastblock v_disable_relay].
    rewrite !enc_netaddr_norm. auto.
  - (* addr *)
    cbn [norm_msg enc_payload enc_check kind_of]. unfold enc_counted, len.
    rewrite map_length, flat_map_norm. auto.
Qed.

(* decode(encode m) = the normal form of m, whenever that normal form is well-formed *)
Corollary decode_encode_norm : forall pver mmp m rest,
  mmp < 2 ^ 64 -> wf_msg pver mmp (norm_msg m) = true -> rest_ok pver (norm_msg m) rest ->
  enc_check pver m = None /\
  dec_payload pver mmp (kind_of m) (enc_payload pver m ++ rest) = Ok (norm_msg m, rest).
Proof.
  intros pver mmp m rest Hm Hwf Hr.
  destruct (enc_payload_norm pver m) as [He [Hc Hk]].
  destruct (decode_encode pver mmp (norm_msg m) rest Hm Hwf Hr) as [H1 H2].
  rewrite He, Hk in H2. rewrite Hc in H1. auto.
Qed.

Example norm_example :
  let m := MAddr [mk_na 1231006505 1 [10;0;0;1] 8333] in
  norm_msg m = MAddr [mk_na 1231006505 1 [0;0;0;0;0;0;0;0;0;0;255;255;10;0;0;1] 8333] /\
  wf_msg 70013 268435456 m = false /\ wf_msg 70013 268435456 (norm_msg m) = true.
Proof. vm_compute. auto. Qed.

(* ---------- (b) streams ---------- *)

Definition add_rest (r : frame_res) (x : bytes) : frame_res :=
  match r with FOk m p rest => FOk m p (rest ++ x) | FErr e rest => FErr e (rest ++ x) end.

Definition framed (ebs : N) (f : bytes) : Prop := fully_framed_len ebs f = Some (length f).

Lemma framed_inv : forall ebs f, framed ebs f ->
  (24 <= length f)%nat /\ hdr_len f <= max_message_payload ebs /\ length f = (24 + N.to_nat (hdr_len f))%nat.
Proof.
  intros ebs f H. unfold framed, fully_framed_len in H.
  destruct ((24 <=? len f) && (hdr_len f <=? max_message_payload ebs) && (hdr_len f <=? len f - 24)) eqn:E; [|discriminate].
  apply andb_prop in E. destruct E as [E E3]. apply andb_prop in E. destruct E as [E1 E2].
  apply N.leb_le in E1. apply N.leb_le in E2. unfold len in *. inversion H. lia.
Qed.

Lemma discard_exact : forall n (p x : bytes), N.of_nat (length p) = n -> discard n (p ++ x) = x.
Proof.
  intros n p x Hn. unfold discard. rewrite app_length.
  destruct (N.leb_spec (N.of_nat (length p + length x)) n) as [Hle|Hgt].
  - destruct x as [|b x]; [reflexivity|]. simpl in Hle. lia.
  - apply skipn_app_exact. lia.
Qed.

Lemma hdr_len_app : forall (h r : bytes), length h = 24%nat -> hdr_len (h ++ r) = le_dec (firstn 4 (skipn 16 h)).
Proof.
  intros h r Hl. unfold hdr_len.
  rewrite skipn_app, firstn_app, skipn_length.
  replace (16 - length h)%nat with 0%nat by lia.
  replace (4 - (length h - 16))%nat with 0%nat by lia.
  rewrite firstn_O, app_nil_r. reflexivity.
Qed.

(* one frame followed by anything: same verdict, the reader is left with exactly what follows *)
Theorem read_message_framed : forall pver net ebs f x, framed ebs f ->
  read_message pver net ebs (f ++ x) = add_rest (read_message pver net ebs f) x /\
  frame_rest (read_message pver net ebs f) = [].
Proof.
  intros pver net ebs f x Hf. apply framed_inv in Hf. destruct Hf as [H24 [Hmax Hlen]].
  remember (firstn 24 f) as h eqn:Eh. remember (skipn 24 f) as p eqn:Ep.
  assert (Hfs : f = h ++ p) by (subst h p; symmetry; apply firstn_skipn).
  assert (Hh : length h = 24%nat) by (subst h; apply firstn_length_le; exact H24).
  assert (Hp : N.of_nat (length p) = hdr_len f).
  { subst p. rewrite skipn_length. lia. }
  clear Eh Ep Hlen H24. subst f.
  assert (Hl : le_dec (firstn 4 (skipn 16 h)) = hdr_len (h ++ p)) by (symmetry; apply hdr_len_app; exact Hh).
  unfold read_message. rewrite <- app_assoc.
  rewrite (read_n_app' MessageHeaderSize h (p ++ x)) by exact Hh.
  assert (Hr0 : read_n MessageHeaderSize (h ++ p) = Ok (h, p)) by (apply read_n_app'; exact Hh).
  rewrite Hr0.
  assert (Hd0 : discard (hdr_len (h ++ p)) p = []).
  { pose proof (discard_exact (hdr_len (h ++ p)) p [] Hp) as Hd. rewrite app_nil_r in Hd. exact Hd. }
  assert (Hn0 : read_N (N.of_nat (length p)) p = Ok (p, [])).
  { pose proof (read_N_app p []) as Hn. rewrite app_nil_r in Hn. exact Hn. }
  cbv zeta. rewrite Hl.
  destruct (N.ltb_spec (max_message_payload ebs) (hdr_len (h ++ p))) as [Hov|_]; [lia|].
  rewrite (discard_exact (hdr_len (h ++ p)) p x Hp), Hd0.
  destruct (negb (le_dec (firstn 4 h) =? net)); [split; reflexivity|].
  destruct (negb (utf8_valid (trim_right (firstn CommandSize (skipn 4 h))))); [split; reflexivity|].
  destruct (kind_of_cmd (trim_right (firstn CommandSize (skipn 4 h)))) as [k|]; [|split; reflexivity].
  destruct (max_payload k pver ebs <? hdr_len (h ++ p)); [split; reflexivity|].
  rewrite <- Hp. rewrite read_N_app, Hn0.
  destruct (negb (list_eqb (checksum p) (skipn 20 h))); [split; reflexivity|].
  destruct (dec_payload pver (max_message_payload ebs) k p) as [[m r']|e]; split; reflexivity.
Qed.

Fixpoint expected (pver net ebs : N) (frames : list bytes) (tail : bytes) : list frame_res :=
  match frames with
  | [] => []
  | f :: fs => add_rest (read_message pver net ebs f) (concat fs ++ tail) :: expected pver net ebs fs tail
  end.

Lemma frame_rest_add : forall r x, frame_rest (add_rest r x) = frame_rest r ++ x.
Proof. intros r x. destruct r; reflexivity. Qed.

Theorem read_stream_framed : forall frames fuel pver net ebs tail,
  Forall (framed ebs) frames -> (length frames <= fuel)%nat ->
  read_stream fuel pver net ebs (concat frames ++ tail) =
  expected pver net ebs frames tail ++ read_stream (fuel - length frames) pver net ebs tail.
Proof.
  induction frames as [|f fs IH]; intros fuel pver net ebs tail Hall Hfuel.
  - simpl. rewrite Nat.sub_0_r. reflexivity.
  - inversion Hall as [|f' fs' Hf Hfs]; subst.
    destruct fuel as [|fuel]; [simpl in Hfuel; lia|].
    cbn [concat expected length]. rewrite <- app_assoc.
    destruct (read_message_framed pver net ebs f (concat fs ++ tail) Hf) as [Happ Hrest].
    pose proof (framed_inv ebs f Hf) as [H24 _].
    cbn [read_stream].
    destruct (f ++ concat fs ++ tail) as [|b bs] eqn:Hbs.
    { exfalso. apply (f_equal (@length N)) in Hbs. rewrite app_length in Hbs. simpl in Hbs. lia. }
    cbv zeta. rewrite Happ. rewrite frame_rest_add, Hrest. cbn [app].
    rewrite IH by (try assumption; simpl in Hfuel; lia).
    replace (S fuel - S (length fs))%nat with (fuel - length fs)%nat by lia. reflexivity.
Qed.

(* the cut the oracle makes: leading fully framed frames and a tail *)
Lemma hdr_len_firstn : forall n bs, (24 <= n)%nat -> (n <= length bs)%nat -> hdr_len (firstn n bs) = hdr_len bs.
Proof.
  intros n bs Hn Hl. unfold hdr_len.
  rewrite !(firstn_skipn_comm 4 16). cbn [Nat.add]. rewrite firstn_firstn.
  replace (Nat.min 20 n) with 20%nat by lia. reflexivity.
Qed.

Lemma split_frames_spec : forall fuel ebs bs,
  exists tail, bs = concat (split_frames fuel ebs bs) ++ tail /\ Forall (framed ebs) (split_frames fuel ebs bs) /\
               (length (split_frames fuel ebs bs) <= fuel)%nat.
Proof.
  induction fuel as [|fuel IH]; intros ebs bs.
  - exists bs. simpl. auto.
  - cbn [split_frames]. destruct (fully_framed_len ebs bs) as [n|] eqn:Hn.
    + destruct (IH ebs (skipn n bs)) as [tail [Hb [Hall Hlen]]].
      exists tail. cbn [concat length]. rewrite <- app_assoc, <- Hb, firstn_skipn.
      split; [reflexivity|]. split; [|lia]. constructor; [|exact Hall].
      unfold framed. unfold fully_framed_len in Hn.
      destruct ((24 <=? len bs) && (hdr_len bs <=? max_message_payload ebs) && (hdr_len bs <=? len bs - 24)) eqn:E; [|discriminate].
      apply andb_prop in E. destruct E as [E E3]. apply andb_prop in E. destruct E as [E1 E2].
      apply N.leb_le in E1. apply N.leb_le in E2. apply N.leb_le in E3. unfold len in *. injection Hn as Hn'.
      assert (Hnl : (n <= length bs)%nat) by lia.
      assert (Hfl : length (firstn n bs) = n) by (apply firstn_length_le; exact Hnl).
      unfold fully_framed_len, len. rewrite Hfl, (hdr_len_firstn n bs) by lia.
      destruct (N.leb_spec 24 (N.of_nat n)); [|lia].
      destruct (N.leb_spec (hdr_len bs) (max_message_payload ebs)); [|lia].
      destruct (N.leb_spec (hdr_len bs) (N.of_nat n - 24)); [|lia]. cbn [andb]. f_equal. lia.
    + exists bs. simpl. split; [reflexivity|]. split; [constructor|lia].
Qed.

(* what the stream oracle checks, for every byte string *)
Theorem stream_in_step : forall fuel pver net ebs bs,
  exists tail,
    bs = concat (split_frames fuel ebs bs) ++ tail /\
    read_stream fuel pver net ebs bs =
    expected pver net ebs (split_frames fuel ebs bs) tail ++
    read_stream (fuel - length (split_frames fuel ebs bs)) pver net ebs tail.
Proof.
  intros fuel pver net ebs bs. destruct (split_frames_spec fuel ebs bs) as [tail [Hb [Hall Hlen]]].
  exists tail. split; [exact Hb|]. rewrite Hb at 1. apply read_stream_framed; assumption.
Qed.

(* a ping frame with 9 payload bytes (one above its limit) followed by a verack frame: the verack is read *)
Example stream_example :
  let bad := le_enc 4 0xe8f3e1e3 ++ pad_cmd (cmd_bytes KPing) ++ le_enc 4 9 ++ checksum (repeat 7 9%nat) ++ repeat 7 9%nat in
  let ok := le_enc 4 0xe8f3e1e3 ++ pad_cmd (cmd_bytes KVerAck) ++ le_enc 4 0 ++ checksum [] in
  split_frames 16 128000000 (bad ++ ok) = [bad; ok] /\
  read_stream 16 70013 0xe8f3e1e3 128000000 (bad ++ ok) = [FErr ETypeMax ok; FOk MVerAck [] []].
Proof. vm_compute. auto. Qed.

(* ---------- the overall limit ---------- *)

Theorem header_oversize_refused : forall pver net ebs bs,
  header_oversize ebs bs = true -> read_message pver net ebs bs = FErr EOversize (skipn 24 bs).
Proof.
  intros pver net ebs bs H. unfold header_oversize in H. apply andb_prop in H. destruct H as [H24 Hov].
  apply N.leb_le in H24. apply N.ltb_lt in Hov. apply reject_oversize; assumption.
Qed.

Lemma varstring_count_over_err : forall mmp bs, varstring_count_over mmp bs = true -> dec_varstring mmp bs = Err EStrTooLong.
Proof.
  intros mmp bs H. unfold varstring_count_over in H. unfold dec_varstring.
  destruct (dec_varint bs) as [[c r]|e]; [|discriminate]. cbn [bind]. rewrite H. reflexivity.
Qed.

Theorem string_rejected : forall k pver mmp bs,
  string_over_limit k pver mmp bs = true -> dec_payload pver mmp k bs = Err EStrTooLong.
Proof.
  intros k pver mmp bs H. destruct k; cbn [string_over_limit] in H; try discriminate H.
  apply andb_prop in H. destruct H as [Hpv H]. apply N.leb_le in Hpv.
  cbn [dec_payload]. destruct (N.ltb_spec pver RejectVersion); [lia|]. unfold dec_reject.
  apply orb_prop in H. destruct H as [H|H].
  - rewrite (varstring_count_over_err _ _ H). reflexivity.
  - destruct (dec_varstring mmp bs) as [[cmd r]|e]; [|discriminate]. cbn [bind].
    destruct (read_le 1 r) as [[code r']|e]; [|discriminate]. cbn [bind].
    rewrite (varstring_count_over_err _ _ H). reflexivity.
Qed.

Example string_rejected_example :
  string_over_limit KReject 70013 268435456 [0xfe; 1; 0; 0; 0x10] = true /\
  header_oversize 128000000 (le_enc 4 0xe8f3e1e3 ++ pad_cmd (cmd_bytes KReject) ++ le_enc 4 268435457 ++ [0;0;0;0]) = true.
Proof. vm_compute. auto. Qed.

