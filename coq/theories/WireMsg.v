(* C14 model, part 2: message payload encoders / decoders of /repo/internal/wire/msg*.go and
   protoconf.go, the command table of message.go (makeEmptyMessage) and the per-type
   MaxPayloadLength table.  Definitions only.

   Fully modelled payloads: version, verack, getaddr, addr, getblocks, getheaders, headers, inv,
   getdata, notfound, ping, pong, reject, sendheaders, feefilter, mempool, filteradd, filterclear,
   filterload, protoconf and authch
   (both decode to an untouched MsgProtoconf: the payload is deliberately ignored).
   The other commands of the table (block, tx, merkleblock and the cf family) are carried through
   the frame checks with their MaxPayloadLength; their payload decoders are outside the
   model (MOpaque). *)
From Coq Require Import NArith ZArith List Bool.
From BHS Require Import WireBase.
Import ListNotations.
Open Scope N_scope.

Inductive kind : Set :=
| KVersion | KVerAck | KGetAddr | KAddr | KGetBlocks | KInv
| KGetData | KNotFound | KBlock | KTx | KGetHeaders | KHeaders
| KPing | KPong | KMemPool | KFilterAdd | KFilterClear | KFilterLoad
| KMerkleBlock | KReject | KSendHeaders | KFeeFilter | KGetCFilters | KGetCFHeaders
| KGetCFCheckpt | KCFilter | KCFHeaders | KCFCheckpt | KProtoconf | KAuthch.

Definition all_kinds : list kind :=
  [KVersion; KVerAck; KGetAddr; KAddr; KGetBlocks; KInv;
   KGetData; KNotFound; KBlock; KTx; KGetHeaders; KHeaders;
   KPing; KPong; KMemPool; KFilterAdd; KFilterClear; KFilterLoad;
   KMerkleBlock; KReject; KSendHeaders; KFeeFilter; KGetCFilters; KGetCFHeaders;
   KGetCFCheckpt; KCFilter; KCFHeaders; KCFCheckpt; KProtoconf; KAuthch].

Definition cmd_bytes (k : kind) : bytes :=
  match k with
  | KVersion => [118;101;114;115;105;111;110]  (* version *)
  | KVerAck => [118;101;114;97;99;107]  (* verack *)
  | KGetAddr => [103;101;116;97;100;100;114]  (* getaddr *)
  | KAddr => [97;100;100;114]  (* addr *)
  | KGetBlocks => [103;101;116;98;108;111;99;107;115]  (* getblocks *)
  | KInv => [105;110;118]  (* inv *)
  | KGetData => [103;101;116;100;97;116;97]  (* getdata *)
  | KNotFound => [110;111;116;102;111;117;110;100]  (* notfound *)
  | KBlock => [98;108;111;99;107]  (* block *)
  | KTx => [116;120]  (* tx *)
  | KGetHeaders => [103;101;116;104;101;97;100;101;114;115]  (* getheaders *)
  | KHeaders => [104;101;97;100;101;114;115]  (* headers *)
  | KPing => [112;105;110;103]  (* ping *)
  | KPong => [112;111;110;103]  (* pong *)
  | KMemPool => [109;101;109;112;111;111;108]  (* mempool *)
  | KFilterAdd => [102;105;108;116;101;114;97;100;100]  (* filteradd *)
  | KFilterClear => [102;105;108;116;101;114;99;108;101;97;114]  (* filterclear *)
  | KFilterLoad => [102;105;108;116;101;114;108;111;97;100]  (* filterload *)
  | KMerkleBlock => [109;101;114;107;108;101;98;108;111;99;107]  (* merkleblock *)
  | KReject => [114;101;106;101;99;116]  (* reject *)
  | KSendHeaders => [115;101;110;100;104;101;97;100;101;114;115]  (* sendheaders *)
  | KFeeFilter => [102;101;101;102;105;108;116;101;114]  (* feefilter *)
  | KGetCFilters => [103;101;116;99;102;105;108;116;101;114;115]  (* getcfilters *)
  | KGetCFHeaders => [103;101;116;99;102;104;101;97;100;101;114;115]  (* getcfheaders *)
  | KGetCFCheckpt => [103;101;116;99;102;99;104;101;99;107;112;116]  (* getcfcheckpt *)
  | KCFilter => [99;102;105;108;116;101;114]  (* cfilter *)
  | KCFHeaders => [99;102;104;101;97;100;101;114;115]  (* cfheaders *)
  | KCFCheckpt => [99;102;99;104;101;99;107;112;116]  (* cfcheckpt *)
  | KProtoconf => [112;114;111;116;111;99;111;110;102]  (* protoconf *)
  | KAuthch => [97;117;116;104;99;104]  (* authch *)
  end.

Definition kind_eqb (a b : kind) : bool :=
  match a, b with
  | KVersion, KVersion | KVerAck, KVerAck | KGetAddr, KGetAddr | KAddr, KAddr
  | KGetBlocks, KGetBlocks | KInv, KInv | KGetData, KGetData | KNotFound, KNotFound
  | KBlock, KBlock | KTx, KTx | KGetHeaders, KGetHeaders | KHeaders, KHeaders
  | KPing, KPing | KPong, KPong | KMemPool, KMemPool | KFilterAdd, KFilterAdd
  | KFilterClear, KFilterClear | KFilterLoad, KFilterLoad | KMerkleBlock, KMerkleBlock
  | KReject, KReject | KSendHeaders, KSendHeaders | KFeeFilter, KFeeFilter
  | KGetCFilters, KGetCFilters | KGetCFHeaders, KGetCFHeaders | KGetCFCheckpt, KGetCFCheckpt
  | KCFilter, KCFilter | KCFHeaders, KCFHeaders | KCFCheckpt, KCFCheckpt
  | KProtoconf, KProtoconf | KAuthch, KAuthch => true
  | _, _ => false
  end.

(* ---------- protocol constants (protocol.go, msg*.go) ---------- *)
Definition BIP0031Version : N := 60000.
Definition BIP0035Version : N := 60002.
Definition BIP0037Version : N := 70001.
Definition RejectVersion : N := 70002.
Definition SendHeadersVersion : N := 70012.
Definition FeeFilterVersion : N := 70013.
Definition ProtoconfVersion : N := 70013.

Definition MaxAddrPerMsg : N := 1000.
Definition MaxBlockLocatorsPerMsg : N := 500.
Definition MaxBlockHeadersPerMsg : N := 2000.
Definition MaxInvPerMsg : N := 50000.
Definition MaxUserAgentLen : N := 256.
Definition MaxVarIntPayload : N := 9.
Definition MaxFilterAddDataSize : N := 520.
Definition MaxFilterLoadFilterSize : N := 36000.
Definition MaxFilterLoadHashFuncs : N := 50.

(* maxMessagePayload(): uint32 arithmetic on the configured excessive block size *)
Definition max_message_payload (ebs : N) : N := (ebs / 1000000 * 1024 * 1024 * 2) mod 2 ^ 32.

(* ---------- messages ---------- *)

Record version : Type := mk_ver {
  v_pver : Z;            (* int32 *)
  v_svc : N;             (* uint64 *)
  v_ts : Z;              (* Unix seconds, int64 *)
  v_you : netaddr;
  v_me : netaddr;
  v_nonce : N;
  v_ua : bytes;
  v_lastblock : Z;       (* int32 *)
  v_disable_relay : bool }.

Inductive msg : Type :=
| MVersion (v : version)
| MVerAck
| MGetAddr
| MAddr (l : list netaddr)
| MGetBlocks (pv : N) (locs : list bytes) (stop : bytes)
| MGetHeaders (pv : N) (locs : list bytes) (stop : bytes)
| MHeaders (l : list blockheader)
| MInv (l : list invvect)
| MGetData (l : list invvect)
| MNotFound (l : list invvect)
| MPing (nonce : N)
| MPong (nonce : N)
| MReject (cmd : bytes) (code : N) (reason : bytes) (hash : bytes)
| MSendHeaders
| MFeeFilter (fee : Z)
| MMemPool
| MProtoconf (nf : N) (mrl : N)
| MFilterAdd (data : bytes)
| MFilterClear
| MFilterLoad (filter : bytes) (hashfuncs tweak flags : N)
| MOpaque (k : kind).

(* Command() of the message *)
Definition kind_of (m : msg) : kind :=
  match m with
  | MVersion _ => KVersion | MVerAck => KVerAck | MGetAddr => KGetAddr | MAddr _ => KAddr
  | MGetBlocks _ _ _ => KGetBlocks | MGetHeaders _ _ _ => KGetHeaders | MHeaders _ => KHeaders
  | MInv _ => KInv | MGetData _ => KGetData | MNotFound _ => KNotFound
  | MPing _ => KPing | MPong _ => KPong | MReject _ _ _ _ => KReject
  | MSendHeaders => KSendHeaders | MFeeFilter _ => KFeeFilter | MMemPool => KMemPool
  | MProtoconf _ _ => KProtoconf
  | MFilterAdd _ => KFilterAdd | MFilterClear => KFilterClear | MFilterLoad _ _ _ _ => KFilterLoad
  | MOpaque k => k
  end.

Fixpoint list_eqb (a b : bytes) : bool :=
  match a, b with
  | [], [] => true
  | x :: a', y :: b' => (x =? y) && list_eqb a' b'
  | _, _ => false
  end.

(* reject carries a hash only for these two commands *)
Definition reject_has_hash (cmd : bytes) : bool :=
  list_eqb cmd (cmd_bytes KBlock) || list_eqb cmd (cmd_bytes KTx).

(* ---------- encoders: the bytes BsvEncode writes when it does not refuse ---------- *)

Definition enc_header_entry (h : blockheader) : bytes := enc_blockheader h ++ enc_varint 0.

Definition enc_version (pver : N) (v : version) : bytes :=
  le_enc 4 (of_signed 32 (v_pver v)) ++ le_enc 8 (v_svc v) ++ le_enc 8 (of_signed 64 (v_ts v)) ++
  enc_netaddr pver false (v_you v) ++ enc_netaddr pver false (v_me v) ++
  le_enc 8 (v_nonce v) ++ enc_varstring (v_ua v) ++ le_enc 4 (of_signed 32 (v_lastblock v)) ++
  (if BIP0037Version <=? pver then [if v_disable_relay v then 0 else 1] else []).

Definition enc_locator (pv : N) (locs : list bytes) (stop : bytes) : bytes :=
  le_enc 4 pv ++ enc_counted (fun h : bytes => h) locs ++ stop.

Definition enc_reject (cmd : bytes) (code : N) (reason hash : bytes) : bytes :=
  enc_varstring cmd ++ le_enc 1 code ++ enc_varstring reason ++
  (if reject_has_hash cmd then hash else []).

Definition enc_payload (pver : N) (m : msg) : bytes :=
  match m with
  | MVersion v => enc_version pver v
  | MVerAck | MGetAddr | MSendHeaders | MMemPool | MFilterClear => []
  | MAddr l => enc_counted (enc_netaddr pver true) l
  | MGetBlocks pv locs stop | MGetHeaders pv locs stop => enc_locator pv locs stop
  | MHeaders l => enc_counted enc_header_entry l
  | MInv l | MGetData l | MNotFound l => enc_counted enc_invvect l
  | MPing n => if BIP0031Version <? pver then le_enc 8 n else []
  | MPong n => le_enc 8 n
  | MReject cmd code reason hash => enc_reject cmd code reason hash
  | MFeeFilter fee => le_enc 8 (of_signed 64 fee)
  | MProtoconf nf mrl => le_enc 8 nf ++ le_enc 4 mrl
  | MFilterAdd d => enc_varstring d
  | MFilterLoad f h t fl => enc_varstring f ++ le_enc 4 h ++ le_enc 4 t ++ le_enc 1 fl
  | MOpaque _ => []
  end.

Definition len (A : Type) (l : list A) : N := N.of_nat (length l).
Arguments len {A} l.

(* the refusals of BsvEncode, in the order of the code *)
Definition enc_check (pver : N) (m : msg) : option err :=
  match m with
  | MVersion v => if MaxUserAgentLen <? len (v_ua v) then Some EUALong else None
  | MAddr l =>
    if (pver <? MultipleAddressVersion) && (1 <? len l) then Some ETooMany
    else if MaxAddrPerMsg <? len l then Some ETooMany else None
  | MGetBlocks _ locs _ | MGetHeaders _ locs _ =>
    if MaxBlockLocatorsPerMsg <? len locs then Some ETooMany else None
  | MHeaders l => if MaxBlockHeadersPerMsg <? len l then Some ETooMany else None
  | MInv l | MGetData l | MNotFound l => if MaxInvPerMsg <? len l then Some ETooMany else None
  | MPong _ => if pver <=? BIP0031Version then Some EPverLow else None
  | MReject _ _ _ _ => if pver <? RejectVersion then Some EPverLow else None
  | MSendHeaders => if pver <? SendHeadersVersion then Some EPverLow else None
  | MFeeFilter _ => if pver <? FeeFilterVersion then Some EPverLow else None
  | MMemPool => if pver <? BIP0035Version then Some EPverLow else None
  | MProtoconf _ _ => if pver <? ProtoconfVersion then Some EPverLow else None
  | MFilterAdd d =>
    if pver <? BIP0037Version then Some EPverLow
    else if MaxFilterAddDataSize <? len d then Some EDataTooLarge else None
  | MFilterClear => if pver <? BIP0037Version then Some EPverLow else None
  | MFilterLoad f h _ _ =>
    if pver <? BIP0037Version then Some EPverLow
    else if MaxFilterLoadFilterSize <? len f then Some EDataTooLarge
    else if MaxFilterLoadHashFuncs <? h then Some ETooMany else None
  | MVerAck | MGetAddr | MPing _ | MOpaque _ => None
  end.

Definition enc_msg (pver : N) (m : msg) : res bytes :=
  match enc_check pver m with Some e => Err e | None => Ok (enc_payload pver m) end.

(* ---------- decoders: Bsvdecode on a fresh message of the command's type ---------- *)

Definition dec_header_entry (bs : bytes) : res (blockheader * bytes) :=
  '(h, r) <- dec_blockheader bs ;;
  '(txc, r') <- dec_varint r ;;
  if 0 <? txc then Err EHasTx else Ok (h, r').

(* version: fixed head, then fields that are "present if bytes remain" (buf.Len() > 0) *)
Definition if_more {A : Type} (r : bytes) (dflt : A) (dec : bytes -> res (A * bytes)) : res (A * bytes) :=
  match r with [] => Ok (dflt, r) | _ :: _ => dec r end.

Definition dec_version_head (pver : N) (bs : bytes) : res ((Z * N * Z * netaddr * netaddr * N) * bytes) :=
  '(pv, r) <- read_le 4 bs ;;
  '(svc, r) <- read_le 8 r ;;
  '(ts, r) <- read_le 8 r ;;
  '(you, r) <- dec_netaddr pver false zero_time r ;;
  '(me, r) <- if_more r empty_na (dec_netaddr pver false zero_time) ;;
  '(nonce, r) <- if_more r 0 (read_le 8) ;;
  Ok ((to_signed 32 pv, svc, to_signed 64 ts, you, me, nonce), r).

(* since fix ad1f9ac: ReadVarBytes(buf, pver, MaxUserAgentLen, "user agent") - the length is checked
   before anything is allocated (before: ReadVarString bounded by maxMessagePayload, then
   validateUserAgent) *)
Definition dec_user_agent (bs : bytes) : res (bytes * bytes) := dec_varbytes MaxUserAgentLen bs.

Definition dec_int32 (bs : bytes) : res (Z * bytes) :=
  '(v, r) <- read_le 4 bs ;; Ok (to_signed 32 v, r).

Definition dec_version (pver mmp : N) (bs : bytes) : res (version * bytes) :=
  '(hd, r) <- dec_version_head pver bs ;;
  let '(pv, svc, ts, you, me, nonce) := hd in
  '(ua, r) <- if_more r [] dec_user_agent ;;
  '(lb, r) <- if_more r 0%Z dec_int32 ;;
  '(dr, r) <- (match r with [] => Ok (false, r) | b :: r' => Ok (b =? 0, r') end) ;;
  Ok (mk_ver pv svc ts you me nonce ua lb dr, r).

Definition dec_locator (bs : bytes) : res ((N * list bytes * bytes) * bytes) :=
  '(pv, r) <- read_le 4 bs ;;
  '(locs, r) <- dec_counted MaxBlockLocatorsPerMsg dec_hash r ;;
  '(stop, r) <- dec_hash r ;;
  Ok ((pv, locs, stop), r).

Definition dec_reject (mmp : N) (bs : bytes) : res (msg * bytes) :=
  '(cmd, r) <- dec_varstring mmp bs ;;
  '(code, r) <- read_le 1 r ;;
  '(reason, r) <- dec_varstring mmp r ;;
  if reject_has_hash cmd
  then '(h, r') <- dec_hash r ;; Ok (MReject cmd code reason h, r')
  else Ok (MReject cmd code reason zero_hash, r).

Definition dec_filterload (bs : bytes) : res (msg * bytes) :=
  '(f, r) <- dec_varbytes MaxFilterLoadFilterSize bs ;;
  '(h, r) <- read_le 4 r ;;
  '(t, r) <- read_le 4 r ;;
  '(fl, r) <- read_le 1 r ;;
  if MaxFilterLoadHashFuncs <? h then Err ETooMany else Ok (MFilterLoad f h t fl, r).

Definition is_opaque (k : kind) : bool :=
  match k with
  | KBlock | KTx | KMerkleBlock
  | KGetCFilters | KGetCFHeaders | KGetCFCheckpt | KCFilter | KCFHeaders | KCFCheckpt => true
  | _ => false
  end.

Definition dec_payload (pver mmp : N) (k : kind) (bs : bytes) : res (msg * bytes) :=
  match k with
  | KVersion => '(v, r) <- dec_version pver mmp bs ;; Ok (MVersion v, r)
  | KVerAck => Ok (MVerAck, bs)
  | KGetAddr => Ok (MGetAddr, bs)
  | KAddr => '(l, r) <- dec_counted MaxAddrPerMsg (dec_netaddr pver true zero_time) bs ;; Ok (MAddr l, r)
  | KGetBlocks => '(x, r) <- dec_locator bs ;; let '(pv, locs, stop) := x in Ok (MGetBlocks pv locs stop, r)
  | KGetHeaders => '(x, r) <- dec_locator bs ;; let '(pv, locs, stop) := x in Ok (MGetHeaders pv locs stop, r)
  | KHeaders => '(l, r) <- dec_counted MaxBlockHeadersPerMsg dec_header_entry bs ;; Ok (MHeaders l, r)
  | KInv => '(l, r) <- dec_counted MaxInvPerMsg dec_invvect bs ;; Ok (MInv l, r)
  | KGetData => '(l, r) <- dec_counted MaxInvPerMsg dec_invvect bs ;; Ok (MGetData l, r)
  | KNotFound => '(l, r) <- dec_counted MaxInvPerMsg dec_invvect bs ;; Ok (MNotFound l, r)
  | KPing => if BIP0031Version <? pver then '(n, r) <- read_le 8 bs ;; Ok (MPing n, r) else Ok (MPing 0, bs)
  | KPong => if pver <=? BIP0031Version then Err EPverLow else '(n, r) <- read_le 8 bs ;; Ok (MPong n, r)
  | KReject => if pver <? RejectVersion then Err EPverLow else dec_reject mmp bs
  | KSendHeaders => if pver <? SendHeadersVersion then Err EPverLow else Ok (MSendHeaders, bs)
  | KFeeFilter =>
    if pver <? FeeFilterVersion then Err EPverLow
    else '(f, r) <- read_le 8 bs ;; Ok (MFeeFilter (to_signed 64 f), r)
  | KMemPool => if pver <? BIP0035Version then Err EPverLow else Ok (MMemPool, bs)
  | KProtoconf | KAuthch => if pver <? ProtoconfVersion then Err EPverLow else Ok (MProtoconf 0 0, bs)
  | KFilterAdd =>
    if pver <? BIP0037Version then Err EPverLow
    else '(d, r) <- dec_varbytes MaxFilterAddDataSize bs ;; Ok (MFilterAdd d, r)
  | KFilterClear => if pver <? BIP0037Version then Err EPverLow else Ok (MFilterClear, bs)
  | KFilterLoad => if pver <? BIP0037Version then Err EPverLow else dec_filterload bs
  | _ => Ok (MOpaque k, [])
  end.

(* ---------- MaxPayloadLength(pver) of every command's message type ---------- *)
Definition max_net_address_payload (pver : N) : N :=
  26 + (if NetAddressTimeVersion <=? pver then 4 else 0).

Definition max_payload (k : kind) (pver ebs : N) : N :=
  match k with
  | KVersion => 33 + max_net_address_payload pver * 2 + MaxVarIntPayload + MaxUserAgentLen
  | KVerAck | KGetAddr | KMemPool | KSendHeaders | KFilterClear => 0
  | KAddr =>
    if pver <? MultipleAddressVersion then MaxVarIntPayload + max_net_address_payload pver
    else MaxVarIntPayload + MaxAddrPerMsg * max_net_address_payload pver
  | KGetBlocks | KGetHeaders => 4 + MaxVarIntPayload + MaxBlockLocatorsPerMsg * 32 + 32
  | KInv | KGetData | KNotFound => MaxVarIntPayload + MaxInvPerMsg * 36
  | KBlock | KTx | KMerkleBlock => ebs
  | KHeaders => MaxVarIntPayload + 81 * MaxBlockHeadersPerMsg
  | KPing | KPong => if BIP0031Version <? pver then 8 else 0
  | KFilterAdd => 3 + MaxFilterAddDataSize
  | KFilterLoad => 3 + MaxFilterLoadFilterSize + 9
  | KReject => if pver <? RejectVersion then 0 else max_message_payload ebs
  | KFeeFilter => 8
  | KGetCFilters | KGetCFHeaders => 1 + 4 + 32
  | KGetCFCheckpt => 1 + 32
  | KCFilter => 5 + 262144 + 32 + 1
  | KCFHeaders => 1 + 32 + 32 + MaxVarIntPayload + 32 * 2000
  | KCFCheckpt => max_message_payload ebs
  | KProtoconf | KAuthch => 1048576
  end.

(* ---------- allocation requests ----------
   The largest single buffer (in wire bytes: element count x wire size of an element, or the
   string length) that Bsvdecode asks make() for before it has read the elements. *)
Definition alloc_counted (max elem : N) (bs : bytes) : N :=
  match dec_varint bs with
  | Ok (c, _) => if max <? c then 0 else c * elem
  | Err _ => 0
  end.

Definition alloc_varstring (mmp : N) (bs : bytes) : N :=
  match dec_varint bs with
  | Ok (c, _) => if mmp <? c then 0 else c
  | Err _ => 0
  end.

Definition alloc_payload (pver mmp : N) (k : kind) (bs : bytes) : N :=
  match k with
  | KAddr => alloc_counted MaxAddrPerMsg (netaddr_size pver true) bs
  | KGetBlocks | KGetHeaders =>
    match read_le 4 bs with Ok (_, r) => alloc_counted MaxBlockLocatorsPerMsg 32 r | Err _ => 0 end
  | KHeaders => alloc_counted MaxBlockHeadersPerMsg 81 bs
  | KInv | KGetData | KNotFound => alloc_counted MaxInvPerMsg 36 bs
  | KVersion =>
    match dec_version_head pver bs with
    | Ok (_, r) => match r with [] => 0 | _ :: _ => alloc_varstring MaxUserAgentLen r end
    | Err _ => 0
    end
  | KReject =>
    if pver <? RejectVersion then 0
    else N.max (alloc_varstring mmp bs)
           (match dec_varstring mmp bs with
            | Ok (_, r) => match read_le 1 r with Ok (_, r') => alloc_varstring mmp r' | Err _ => 0 end
            | Err _ => 0
            end)
  | KFilterAdd => if pver <? BIP0037Version then 0 else alloc_varstring MaxFilterAddDataSize bs
  | KFilterLoad => if pver <? BIP0037Version then 0 else alloc_varstring MaxFilterLoadFilterSize bs
  | _ => 0
  end.

(* ---------- boolean well-formedness: field ranges and counts within the per-type limits ---------- *)
Definition wf_version (pver mmp : N) (v : version) : bool :=
  sfits 32 (v_pver v) && fits 64 (v_svc v) && sfits 64 (v_ts v) &&
  wf_netaddr pver false (v_you v) && wf_netaddr pver false (v_me v) &&
  fits 64 (v_nonce v) && (len (v_ua v) <=? MaxUserAgentLen) &&
  sfits 32 (v_lastblock v) &&
  ((BIP0037Version <=? pver) || negb (v_disable_relay v)).

Definition wf_msg (pver mmp : N) (m : msg) : bool :=
  match m with
  | MVersion v => wf_version pver mmp v
  | MVerAck | MGetAddr => true
  | MAddr l =>
    (len l <=? MaxAddrPerMsg) && ((MultipleAddressVersion <=? pver) || (len l <=? 1)) &&
    forallb (wf_netaddr pver true) l
  | MGetBlocks pv locs stop | MGetHeaders pv locs stop =>
    fits 32 pv && (len locs <=? MaxBlockLocatorsPerMsg) && forallb hash_ok locs && hash_ok stop
  | MHeaders l => (len l <=? MaxBlockHeadersPerMsg) && forallb wf_blockheader l
  | MInv l | MGetData l | MNotFound l => (len l <=? MaxInvPerMsg) && forallb wf_invvect l
  | MPing n => if BIP0031Version <? pver then fits 64 n else n =? 0
  | MPong n => (BIP0031Version <? pver) && fits 64 n
  | MReject cmd code reason hash =>
    (RejectVersion <=? pver) && (len cmd <=? mmp) && fits 8 code && (len reason <=? mmp) &&
    (if reject_has_hash cmd then hash_ok hash else list_eqb hash zero_hash)
  | MSendHeaders => SendHeadersVersion <=? pver
  | MFeeFilter fee => (FeeFilterVersion <=? pver) && sfits 64 fee
  | MMemPool => BIP0035Version <=? pver
  | MProtoconf _ _ => false      (* decode ignores the payload: no round trip is claimed *)
  | MFilterAdd d => (BIP0037Version <=? pver) && (len d <=? MaxFilterAddDataSize)
  | MFilterClear => BIP0037Version <=? pver
  | MFilterLoad f h t fl =>
    (BIP0037Version <=? pver) && (len f <=? MaxFilterLoadFilterSize) && (h <=? MaxFilterLoadHashFuncs) &&
    fits 32 t && fits 8 fl
  | MOpaque _ => false
  end.
