(* Proofs about the merkle-root listing (C08) under the ingestion invariant of the chain library. *)
From Coq Require Import ZArith NArith List Lia Bool.
From BHS Require Import Work Store Chain ChainSpec StoreProofs ChainInv ChainReorg ChainAdd ChainMain Merkle MerkleProofs.
Import ListNotations.
Open Scope Z_scope.

Lemma tip_row_is_tipB s : tip_row s = tipB s.
Proof. reflexivity. Qed.

(* ------------------------------------------------------------------------------------------ *)
(* list facts                                                                                 *)
(* ------------------------------------------------------------------------------------------ *)
Lemma skipn_skipn' {A} (a b : nat) (l : list A) : skipn a (skipn b l) = skipn (b + a) l.
Proof.
  revert l. induction b as [|b IH]; intros l; [reflexivity|].
  destruct l as [|x l]; [destruct a; reflexivity|]. cbn. apply IH.
Qed.

Lemma filter_rev' {A} (p : A -> bool) l : filter p (rev l) = rev (filter p l).
Proof.
  induction l as [|a l IH]; [reflexivity|]. cbn. rewrite filter_app, IH. cbn.
  destruct (p a); cbn; [reflexivity| rewrite app_nil_r; reflexivity].
Qed.

Lemma filter_andb {A} (p q : A -> bool) l : filter (fun x => p x && q x) l = filter q (filter p l).
Proof.
  induction l as [|a l IH]; [reflexivity|]. cbn. destruct (p a); cbn; [destruct (q a); rewrite IH; reflexivity| exact IH].
Qed.

Lemma in_firstn' {A} n : forall (l : list A) x, In x (firstn n l) -> In x l.
Proof.
  induction n as [|n IH]; intros l x H; [inversion H|]. destruct l as [|a l]; [inversion H|].
  cbn in H. destruct H as [<-|H]; [left; reflexivity| right; apply IH; exact H].
Qed.

Lemma in_skipn' {A} n : forall (l : list A) x, In x (skipn n l) -> In x l.
Proof.
  induction n as [|n IH]; intros l x H; [exact H|]. destruct l as [|a l]; [inversion H|].
  cbn in H. right. apply IH. exact H.
Qed.

Lemma last_opt_nil {A} (l : list A) : last_opt l = None <-> l = [].
Proof.
  unfold last_opt. split.
  - intros H. destruct (rev l) as [|x r] eqn:E; [|discriminate].
    rewrite <- (rev_involutive l), E. reflexivity.
  - intros ->. reflexivity.
Qed.

Lemma last_opt_app {A} (l : list A) x : last_opt (l ++ [x]) = Some x.
Proof. unfold last_opt. rewrite rev_app_distr. reflexivity. Qed.

Lemma last_opt_some {A} (l : list A) x : last_opt l = Some x -> exists l', l = l' ++ [x].
Proof.
  unfold last_opt. intros H. destruct (rev l) as [|y r] eqn:E; [discriminate|]. inversion H; subst y.
  exists (rev r). rewrite <- (rev_involutive l), E. reflexivity.
Qed.

(* ------------------------------------------------------------------------------------------ *)
(* the LONGEST_CHAIN rows are the chain of the tip, with heights 0, 1, 2, ...                 *)
(* ------------------------------------------------------------------------------------------ *)
Lemma filter_chain s : NoDup (ids s) -> forall t,
  filter (fun r => memN (id r) (ids (chain s t))) s = chain s t.
Proof.
  induction s as [|r s IH]; intros Hnd t; [reflexivity|].
  inversion Hnd as [|? ? Hnotin Hnd']; subst. cbn [chain].
  destruct (N.eqb_spec (id r) t) as [E|E].
  - cbn [filter ids map memN existsb]. rewrite N.eqb_refl. cbn [orb]. f_equal.
    transitivity (filter (fun x => memN (id x) (ids (chain s (prev r)))) s); [|apply IH; exact Hnd'].
    apply filter_ext_in. intros x Hx. unfold memN.
    destruct (N.eqb_spec (id x) (id r)) as [E2|E2]; [|reflexivity].
    exfalso. apply Hnotin. rewrite <- E2. apply in_map. exact Hx.
  - cbn [filter]. rewrite (memN_false _ _ (fresh_not_in_chain s t r Hnotin)). apply IH. exact Hnd'.
Qed.

Lemma L_rows_are_chain s tip : Inv s tip -> filter is_L s = chain s tip.
Proof.
  intros HI. pose proof HI as (Hwf & _ & _).
  rewrite <- (filter_chain s (wf_nodup s Hwf) tip). apply filter_ext_in. intros r Hr.
  destruct (is_L r) eqn:E.
  - apply is_L_true in E. apply (is_L_iff s tip HI r Hr) in E. symmetry. apply memN_in. apply in_map. exact E.
  - symmetry. destruct (memN (id r) (ids (chain s tip))) eqn:E2; [|reflexivity].
    exfalso. apply is_L_false in E. apply E. apply (is_L_iff s tip HI r Hr).
    apply (inchain_in s tip r Hwf Hr). exact E2.
Qed.

Fixpoint asc_from (k : Z) (l : list row) : Prop :=
  match l with [] => True | x :: l' => height x = k /\ asc_from (k + 1) l' end.

Lemma asc_from_app k l x : asc_from k l -> height x = k + Z.of_nat (length l) -> asc_from k (l ++ [x]).
Proof.
  revert k. induction l as [|a l IH]; intros k H Hx; cbn in *.
  - split; [lia| exact I].
  - destruct H as [H1 H2]. split; [exact H1|]. apply IH; [exact H2| lia].
Qed.

Lemma asc_from_in k l x : asc_from k l -> In x l -> k <= height x < k + Z.of_nat (length l).
Proof.
  revert k. induction l as [|a l IH]; intros k H Hx; [inversion Hx|]. cbn in H. destruct H as [H1 H2].
  cbn [length]. destruct Hx as [<-|Hx]; [lia|]. specialize (IH (k + 1) H2 Hx). lia.
Qed.

Lemma asc_from_skipn i : forall k l, asc_from k l -> asc_from (k + Z.of_nat i) (skipn i l).
Proof.
  induction i as [|i IH]; intros k l H.
  - cbn. replace (k + 0) with k by lia. exact H.
  - destruct l as [|a l]; [exact I|]. cbn in H. destruct H as [_ H2]. cbn [skipn].
    replace (k + Z.of_nat (S i)) with (k + 1 + Z.of_nat i) by lia. apply IH. exact H2.
Qed.

Lemma asc_from_firstn b : forall k l, asc_from k l -> asc_from k (firstn b l).
Proof.
  induction b as [|b IH]; intros k l H; [exact I|].
  destruct l as [|a l]; [exact I|]. cbn in H. destruct H as [H1 H2]. cbn. split; [exact H1| apply IH; exact H2].
Qed.

Lemma asc_from_last k l x : asc_from k l -> last_opt l = Some x -> height x = k + Z.of_nat (length l) - 1.
Proof.
  intros H Hl. destruct (last_opt_some l x Hl) as [l' ->]. rewrite app_length. cbn.
  assert (Hin: In x (l' ++ [x])) by (apply in_or_app; right; left; reflexivity).
  clear Hl. revert k H. induction l' as [|a l' IH]; intros k H.
  - cbn in H. destruct H as [H _]. cbn. lia.
  - cbn in H. destruct H as [_ H2]. specialize (IH ltac:(apply in_or_app; right; left; reflexivity) (k + 1) H2).
    cbn [length]. lia.
Qed.

Lemma asc_from_sorted k l : asc_from k l -> sort_h l = l.
Proof.
  revert k. induction l as [|x l IH]; intros k H; [reflexivity|]. cbn in H. destruct H as [H1 H2].
  unfold sort_h in *. cbn [fold_right]. rewrite (IH (k + 1) H2).
  destruct l as [|y l']; [reflexivity|]. cbn in H2. destruct H2 as [H3 _]. cbn.
  destruct (Z.leb_spec (height x) (height y)); [reflexivity| lia].
Qed.

Lemma asc_from_filter h : forall k l, asc_from k l -> k <= h + 1 ->
  filter (fun r => h <? height r) l = skipn (Z.to_nat (h + 1 - k)) l.
Proof.
  intros k l. revert k. induction l as [|x l IH]; intros k H Hk.
  - cbn. destruct (Z.to_nat (h + 1 - k)); reflexivity.
  - pose proof H as H0. cbn in H. destruct H as [H1 H2].
    destruct (Z.eq_dec (h + 1) k) as [E|E].
    + replace (h + 1 - k) with 0 by lia. cbn [Z.to_nat skipn].
      apply filter_all. intros y Hy. pose proof (asc_from_in k (x :: l) y H0 Hy). apply Z.ltb_lt. lia.
    + cbn [filter]. destruct (Z.ltb_spec h (height x)) as [Hlt|Hge]; [lia|].
      replace (Z.to_nat (h + 1 - k)) with (S (Z.to_nat (h + 1 - (k + 1)))) by lia. cbn [skipn].
      apply IH; [exact H2| lia].
Qed.

(* the chain of a connected row, oldest first, has heights 0, 1, 2, ... *)
Lemma chain_asc s : wf s -> forall t y rest, chain s t = y :: rest -> orph y = false ->
  asc_from 0 (rev (y :: rest)) /\ Z.of_nat (length (y :: rest)) = height y + 1.
Proof.
  induction 1 as [g Hg | r s Hwf IH Hn Hz Hok]; try unfold row_ok in Hok; intros t y rest H Hy.
  - cbn in H. destruct (N.eqb (id g) t); [|discriminate]. inversion H; subst. cbn.
    destruct Hg as (_ & _ & Hh & _). split; [split; [exact Hh| exact I]| lia].
  - cbn [chain] in H. destruct (N.eqb_spec (id r) t) as [E|E].
    + inversion H; subst y rest. clear H.
      destruct (by_hash s (prev r)) as [p|] eqn:Hp; [|destruct Hok; congruence].
      destruct Hok as (Ho & Hh & _).
      destruct (by_hash_chain s (prev r) (wf_nodup s Hwf) p Hp) as [rest' Hc].
      destruct (IH (prev r) p rest' Hc ltac:(congruence)) as (Ha & Hl).
      rewrite Hc. split.
      * change (rev (r :: p :: rest')) with (rev (p :: rest') ++ [r]). apply asc_from_app; [exact Ha|].
        rewrite rev_length. lia.
      * cbn [length] in *. lia.
    + apply (IH t y rest H Hy).
Qed.

Section Listing.
  Variables (s : store) (tip : N) (t : row).
  Hypothesis HI : Inv s tip.
  Hypothesis Ht : by_hash s tip = Some t.
  Let A := asc_chain s tip.

  Lemma A_asc : asc_from 0 A /\ Z.of_nat (length A) = height t + 1 /\ exists rest, A = rev rest ++ [t].
  Proof.
    pose proof HI as (Hwf & (t' & Ht' & Ho) & _). rewrite Ht in Ht'. inversion Ht'; subst t'.
    destruct (by_hash_chain s tip (wf_nodup s Hwf) t Ht) as [rest Hc].
    destruct (chain_asc s Hwf tip t rest Hc Ho) as [H1 H2].
    unfold A, asc_chain. rewrite Hc. split; [exact H1|]. split.
    - rewrite rev_length. exact H2.
    - exists rest. reflexivity.
  Qed.

  Lemma A_in r : In r A <-> In r s /\ st r = Longest.
  Proof.
    unfold A, asc_chain. rewrite <- in_rev. split.
    - intros H. assert (Hs: In r s) by (apply (chain_incl s tip); exact H).
      split; [exact Hs| apply (is_L_iff s tip HI r Hs); exact H].
    - intros [Hs HL]. apply (is_L_iff s tip HI r Hs). exact HL.
  Qed.

  (* sqlMerkleRootsFromHeight on a valid store *)
  Lemma merkle_from_height_valid h batch : -1 <= h ->
    merkle_from_height s h batch = firstn batch (skipn (Z.to_nat (h + 1)) A).
  Proof.
    intros Hh. unfold merkle_from_height. f_equal.
    rewrite (filter_andb is_L (fun r => h <? height r)), filter_rev', (L_rows_are_chain s tip HI).
    fold (asc_chain s tip). fold A. destruct A_asc as (Ha & _ & _).
    rewrite (asc_from_filter h 0 A Ha ltac:(lia)). replace (h + 1 - 0) with (h + 1) by lia.
    apply (asc_from_sorted (0 + Z.of_nat (Z.to_nat (h + 1)))). apply asc_from_skipn. exact Ha.
  Qed.
End Listing.

(* ------------------------------------------------------------------------------------------ *)
(* the key lookup                                                                             *)
(* ------------------------------------------------------------------------------------------ *)
Lemma single_some hlt s k b : single_merkleroot hlt s k = Some b -> In b s /\ root b = k.
Proof.
  revert b. induction s as [|a s IH]; intros b H; [discriminate|]. cbn in H.
  destruct (N.eqb_spec (root a) k) as [E|E].
  - destruct (single_merkleroot hlt s k) as [b'|].
    + destruct (idx_before hlt b' a); inversion H; subst b.
      * destruct (IH b' eq_refl) as [H1 H2]. split; [right; exact H1| exact H2].
      * split; [left; reflexivity| exact E].
    + inversion H; subst b. split; [left; reflexivity| exact E].
  - destruct (IH b H) as [H1 H2]. split; [right; exact H1| exact H2].
Qed.

Lemma single_none hlt s k : single_merkleroot hlt s k = None -> forall x, In x s -> root x <> k.
Proof.
  induction s as [|a s IH]; intros H x Hx; [inversion Hx|]. cbn in H.
  destruct (N.eqb_spec (root a) k) as [E|E].
  - destruct (single_merkleroot hlt s k) as [b'|]; [destruct (idx_before hlt b' a)|]; discriminate.
  - destruct Hx as [<-|Hx]; [exact E| apply IH; assumption].
Qed.

(* whatever the hash order, the row found has the smallest state rank (LONGEST_CHAIN first) *)
Lemma single_min_rank hlt s k b : single_merkleroot hlt s k = Some b ->
  forall x, In x s -> root x = k -> state_rank (st b) <= state_rank (st x).
Proof.
  revert b. induction s as [|a s IH]; intros b H x Hx Hk; [inversion Hx|]. cbn in H.
  destruct (N.eqb_spec (root a) k) as [E|E].
  - destruct (single_merkleroot hlt s k) as [b'|] eqn:Eb.
    + unfold idx_before in H.
      destruct (Z.ltb_spec (state_rank (st b')) (state_rank (st a))) as [Hlt|Hge]; cbn [orb] in H.
      * inversion H; subst b. destruct Hx as [<-|Hx]; [lia| apply (IH b' eq_refl x Hx Hk)].
      * destruct (Z.eqb_spec (state_rank (st b')) (state_rank (st a))) as [Heq|Hne]; cbn [andb] in H.
        -- destruct (hlt (id b') (id a)); inversion H; subst b.
           ++ destruct Hx as [<-|Hx]; [lia| apply (IH b' eq_refl x Hx Hk)].
           ++ destruct Hx as [<-|Hx]; [lia| pose proof (IH b' eq_refl x Hx Hk); lia].
        -- inversion H; subst b. destruct Hx as [<-|Hx]; [lia| pose proof (IH b' eq_refl x Hx Hk); lia].
    + inversion H; subst b. destruct Hx as [<-|Hx]; [lia|]. exfalso. exact (single_none hlt s k Eb x Hx Hk).
  - destruct Hx as [<-|Hx]; [contradiction| apply (IH b H x Hx Hk)].
Qed.

Lemma single_unique hlt s k r : In r s -> root r = k -> (forall x, In x s -> root x = k -> x = r) ->
  single_merkleroot hlt s k = Some r.
Proof.
  intros Hr Hk Hu. destruct (single_merkleroot hlt s k) as [b|] eqn:E.
  - destruct (single_some hlt s k b E) as [H1 H2]. f_equal. apply Hu; assumption.
  - exfalso. exact (single_none hlt s k E r Hr Hk).
Qed.

Lemma state_rank_L x : state_rank x = 0 <-> x = Longest.
Proof. destruct x; cbn; split; intros; try reflexivity; try discriminate; lia. Qed.

(* a key that matches no block: not found *)
Theorem key_unknown hlt s batch k : (forall x, In x s -> root x <> k) -> page hlt s batch (Some k) = PErrNotFound.
Proof.
  intros H. unfold page, last_eval_height.
  destruct (single_merkleroot hlt s k) as [b|] eqn:E; [|reflexivity].
  destruct (single_some hlt s k b E) as [H1 H2]. exfalso. exact (H b H1 H2).
Qed.

(* a key carried only by blocks that are not on the longest chain: conflict *)
Theorem key_not_longest hlt s batch k r : In r s -> root r = k ->
  (forall x, In x s -> root x = k -> st x <> Longest) -> page hlt s batch (Some k) = PErrConflict.
Proof.
  intros Hr Hk Hn. unfold page, last_eval_height.
  destruct (single_merkleroot hlt s k) as [b|] eqn:E.
  - destruct (single_some hlt s k b E) as [H1 H2]. rewrite (proj2 (is_L_false b) (Hn b H1 H2)). reflexivity.
  - exfalso. exact (single_none hlt s k E r Hr Hk).
Qed.

(* ... and a key carried by a longest-chain block is never answered with an error on a valid store *)
Lemma key_longest_height hlt s k r : In r s -> root r = k -> st r = Longest ->
  exists b, In b s /\ root b = k /\ st b = Longest /\ last_eval_height hlt s (Some k) = KHeight (height b).
Proof.
  intros Hr Hk HL. unfold last_eval_height.
  destruct (single_merkleroot hlt s k) as [b|] eqn:E.
  - destruct (single_some hlt s k b E) as [H1 H2].
    pose proof (single_min_rank hlt s k b E r Hr Hk) as Hm. rewrite HL in Hm. cbn in Hm.
    assert (HbL: st b = Longest) by (apply state_rank_L; destruct (st b); cbn in *; lia).
    exists b. rewrite (proj2 (is_L_true b) HbL). auto.
  - exfalso. exact (single_none hlt s k E r Hr Hk).
Qed.

(* stale and orphan blocks never appear, on ANY store: every entry of a page is a LONGEST_CHAIN row *)
Lemma insert_h_in r l x : In x (insert_h r l) <-> x = r \/ In x l.
Proof.
  induction l as [|a l IH]; cbn; [intuition|].
  destruct (height r <=? height a); cbn; [intuition|]. rewrite IH. intuition.
Qed.

Lemma sort_h_in l x : In x (sort_h l) <-> In x l.
Proof.
  unfold sort_h. induction l as [|a l IH]; cbn; [reflexivity|]. rewrite insert_h_in, IH. intuition.
Qed.

Theorem no_stale_no_orphan hlt s batch key c k tot : page hlt s batch key = POk c k tot ->
  forall e, In e c -> exists r, In r s /\ st r = Longest /\ e = rh r.
Proof.
  unfold page. destruct (last_eval_height hlt s key) as [h| |]; try discriminate.
  destruct (tip_row s) as [t|]; [|discriminate]. intros H. inversion H; subst c. clear H.
  intros e He. apply in_map_iff in He. destruct He as (r & E & Hr). exists r.
  unfold merkle_from_height in Hr. apply in_firstn' in Hr. apply (proj1 (sort_h_in _ _)) in Hr.
  apply filter_In in Hr. destruct Hr as [Hin Hp]. apply in_rev in Hin. apply andb_prop in Hp.
  split; [exact Hin|]. split; [apply is_L_true; apply Hp| symmetry; exact E].
Qed.

(* a LIMIT above the number of stored rows is the same as rows + 1: the capped count used by [page_http] *)
Lemma insert_h_length r l : length (insert_h r l) = S (length l).
Proof. induction l as [|a l IH]; [reflexivity|]. cbn. destruct (height r <=? height a); cbn; [reflexivity| rewrite IH; reflexivity]. Qed.

Lemma sort_h_length l : length (sort_h l) = length l.
Proof. unfold sort_h. induction l as [|a l IH]; [reflexivity|]. cbn. rewrite insert_h_length, IH. reflexivity. Qed.

Lemma filter_length_le' {A} (p : A -> bool) l : (length (filter p l) <= length l)%nat.
Proof. induction l as [|a l IH]; [cbn; lia|]. cbn. destruct (p a); cbn; lia. Qed.

Lemma merkle_from_height_cap s h b : (length s < b)%nat ->
  merkle_from_height s h b = merkle_from_height s h (S (length s)).
Proof.
  intros Hb. unfold merkle_from_height.
  set (L := sort_h (filter (fun r => is_L r && (h <? height r)) (rev s))).
  assert (HL: (length L <= length s)%nat).
  { unfold L. rewrite sort_h_length. etransitivity; [apply filter_length_le'|]. rewrite rev_length. lia. }
  rewrite !firstn_all2 by lia. reflexivity.
Qed.

Lemma page_big_batch hlt s b key : (length s < b)%nat -> page hlt s b key = page hlt s (S (length s)) key.
Proof.
  intros Hb. unfold page. destruct (last_eval_height hlt s key) as [h| |]; try reflexivity.
  rewrite (merkle_from_height_cap s h b Hb). reflexivity.
Qed.

Theorem page_http_cap hlt s z key : 0 <= z -> page hlt s (cap s z) key = page hlt s (Z.to_nat z) key.
Proof.
  intros Hz. unfold cap. destruct (Z.le_gt_cases z (Z.of_nat (S (length s)))) as [Hle|Hgt].
  - rewrite Z.min_l by lia. reflexivity.
  - rewrite Z.min_r by lia. rewrite Nat2Z.id. symmetry. apply page_big_batch. lia.
Qed.

(* ------------------------------------------------------------------------------------------ *)
(* one page, positionally                                                                     *)
(* ------------------------------------------------------------------------------------------ *)
(* [key_pos A key i]: the key is empty and i = 0, or it is the root of the longest-chain block at height i-1 *)
Definition key_pos (A : list row) (key : option N) (i : nat) : Prop :=
  match key with
  | None => i = 0%nat
  | Some k => exists r, In r A /\ root r = k /\ i = S (Z.to_nat (height r))
  end.

Definition page_from (A : list row) (total : Z) (batch i : nat) : page_result :=
  let X := skipn i A in
  let P := firstn batch X in
  POk (map rh P)
      (if (length X <=? batch)%nat then None else match last_opt P with Some l => Some (root l) | None => None end)
      total.

Section Page.
  Variables (hlt : N -> N -> bool) (s : store) (tip : N) (t : row).
  Hypothesis HI : Inv s tip.
  Hypothesis Ht : by_hash s tip = Some t.
  Hypothesis Hu : roots_unique s.
  Let A := asc_chain s tip.

  Lemma key_pos_height key i : key_pos A key i -> last_eval_height hlt s key = KHeight (Z.of_nat i - 1) /\ (i <= length A)%nat.
  Proof.
    destruct (A_asc s tip t HI Ht) as (Ha & Hlen & _). fold A in Ha, Hlen.
    destruct key as [k|]; cbn.
    - intros (r & Hr & Hk & Hi). pose proof (asc_from_in 0 A r Ha Hr) as Hb.
      apply (A_in s tip HI) in Hr. destruct Hr as [Hs HL].
      rewrite (single_unique hlt s k r Hs Hk (fun x Hx Hxk => Hu r x Hs Hx HL ltac:(congruence))).
      rewrite (proj2 (is_L_true r) HL). split; [f_equal; lia| lia].
    - intros ->. split; [reflexivity| lia].
  Qed.

  Theorem page_at batch key i : key_pos A key i -> page hlt s batch key = page_from A (height t) batch i.
  Proof.
    intros Hk. destruct (key_pos_height key i Hk) as [Hh Hi].
    destruct (A_asc s tip t HI Ht) as (Ha & Hlen & (rest & HA)). fold A in Ha, Hlen, HA.
    unfold page, page_from. rewrite Hh, tip_row_is_tipB, (tipB_is_tip s tip HI), Ht.
    rewrite (merkle_from_height_valid s tip t HI Ht (Z.of_nat i - 1) batch ltac:(lia)). fold A.
    replace (Z.to_nat (Z.of_nat i - 1 + 1)) with i by lia.
    set (X := skipn i A). set (P := firstn batch X). f_equal.
    assert (HaX: asc_from (Z.of_nat i) X) by (apply (asc_from_skipn i 0 A Ha)).
    assert (HaP: asc_from (Z.of_nat i) P) by (apply asc_from_firstn; exact HaX).
    assert (HlenX: length X = (length A - i)%nat) by (apply skipn_length).
    destruct (last_opt P) as [l|] eqn:El.
    - pose proof (asc_from_last _ P l HaP El) as Hlh.
      assert (HlenP: length P = Nat.min batch (length X)) by (apply firstn_length).
      destruct (Nat.leb_spec (length X) batch) as [Hle|Hgt].
      + (* the page reaches the tip *)
        assert (EP: P = X) by (apply firstn_all2; exact Hle).
        destruct (last_opt_some P l El) as [P' EP'].
        assert (l = t).
        { assert (HXA: exists pre, A = pre ++ X) by (exists (firstn i A); symmetry; apply firstn_skipn).
          destruct HXA as [pre HXA]. rewrite <- EP, EP', HA, app_assoc in HXA.
          apply app_inj_tail in HXA. symmetry. apply HXA. }
        subst l. rewrite N.eqb_refl. reflexivity.
      + destruct (N.eqb_spec (root t) (root l)) as [E|E]; [|reflexivity].
        exfalso.
        assert (Hl: In l A).
        { destruct (last_opt_some P l El) as [P' EP']. apply (in_skipn' i A l). fold X. apply (in_firstn' batch X l). fold P.
          rewrite EP'. apply in_or_app. right. left. reflexivity. }
        apply (A_in s tip HI) in Hl. destruct Hl as [Hls _].
        destruct (tip_is_L s tip t HI Ht) as [Hts HtL].
        assert (l = t) by (apply (Hu t l Hts Hls HtL); congruence). subst l. lia.
    - apply last_opt_nil in El. destruct (Nat.leb_spec (length X) batch); reflexivity.
  Qed.
End Page.

(* ------------------------------------------------------------------------------------------ *)
(* the walk                                                                                   *)
(* ------------------------------------------------------------------------------------------ *)
Lemma firstn_plus {A} (a b : nat) (l : list A) : firstn (a + b) l = firstn a l ++ firstn b (skipn a l).
Proof.
  revert l. induction a as [|a IH]; intros l; [reflexivity|].
  destruct l as [|x l]; [destruct b; reflexivity|]. cbn. f_equal. apply IH.
Qed.

Lemma fuel_enough_nat (n batch : nat) : (1 <= batch)%nat -> (n <= S (n / batch) * batch)%nat.
Proof.
  intros Hb. pose proof (Nat.div_mod n batch ltac:(lia)) as H. pose proof (Nat.mod_upper_bound n batch ltac:(lia)) as H2.
  rewrite (Nat.mul_comm batch) in H. cbn [Nat.mul]. lia.
Qed.

Lemma contents_cons p W : contents (p :: W) = content_of p ++ contents W.
Proof. reflexivity. Qed.

Section Walk.
  Variables (hlt : N -> N -> bool) (s : store) (tip : N) (t : row).
  Hypothesis HI : Inv s tip.
  Hypothesis Ht : by_hash s tip = Some t.
  Hypothesis Hu : roots_unique s.
  Variable batch : nat.
  Hypothesis Hb : (1 <= batch)%nat.
  Let A := asc_chain s tip.
  Let n := length A.

  Lemma walk_progress : forall fuel key i, key_pos A key i -> (1 <= fuel)%nat ->
    let W := walk_from fuel hlt s batch key in
    exists i', (i <= i' <= n)%nat /\
      contents W = map rh (firstn (i' - i) (skipn i A)) /\
      Forall (fun p => is_ok p = true) W /\
      Forall (fun p => (length (content_of p) <= batch)%nat) W /\
      Forall (fun p => length (content_of p) = batch) (removelast W) /\
      (length W <= fuel)%nat /\ W <> [] /\
      match key_of (last W PErrNoTip) with None => i' = n | Some k => key_pos A (Some k) i' end /\
      ((n - i <= fuel * batch)%nat -> key_of (last W PErrNoTip) = None).
  Proof.
    induction fuel as [|f IH]; intros key i Hk Hf; [lia|].
    destruct (key_pos_height hlt s tip t HI Ht Hu key i Hk) as [_ Hi]. fold A in Hi. fold n in Hi.
    destruct (A_asc s tip t HI Ht) as (Ha & Hlen & _). fold A in Ha, Hlen.
    cbn [walk_from]. rewrite (page_at hlt s tip t HI Ht Hu batch key i Hk). fold A.
    unfold page_from. set (X := skipn i A). set (P := firstn batch X).
    assert (HlenX: length X = (n - i)%nat) by (apply skipn_length).
    assert (HlenP: length P = Nat.min batch (length X)) by (apply firstn_length).
    assert (HaP: asc_from (Z.of_nat i) P) by (apply asc_from_firstn; apply (asc_from_skipn i 0 A Ha)).
    destruct (Nat.leb_spec (length X) batch) as [Hle|Hgt].
    - (* last page *)
      exists n. split; [lia|]. split.
      { rewrite contents_cons. cbn [content_of contents concat map]. rewrite app_nil_r. f_equal.
        unfold P. rewrite firstn_all2 by lia. rewrite firstn_all2 by lia. reflexivity. }
      split; [constructor; [reflexivity| constructor]|].
      split; [constructor; [cbn; rewrite map_length; lia| constructor]|].
      split; [constructor|]. split; [cbn; lia|]. split; [discriminate|]. cbn. split; [reflexivity| intros _; reflexivity].
    - (* a full page, more to come *)
      assert (HP: length P = batch) by lia.
      destruct (last_opt P) as [l|] eqn:El; [|apply last_opt_nil in El; rewrite El in HP; cbn in HP; lia].
      pose proof (asc_from_last _ P l HaP El) as Hlh.
      assert (HlA: In l A).
      { destruct (last_opt_some P l El) as [P' EP']. apply (in_skipn' i A l). fold X. apply (in_firstn' batch X l). fold P.
        rewrite EP'. apply in_or_app. right. left. reflexivity. }
      assert (Hk': key_pos A (Some (root l)) (i + batch)).
      { exists l. split; [exact HlA|]. split; [reflexivity| lia]. }
      destruct f as [|f'].
      + cbn [walk_from]. exists (i + batch)%nat. split; [lia|]. split.
        { rewrite contents_cons. cbn [content_of contents concat map]. rewrite app_nil_r. f_equal.
          replace (i + batch - i)%nat with batch by lia. reflexivity. }
        split; [constructor; [reflexivity| constructor]|].
        split; [constructor; [cbn; rewrite map_length; lia| constructor]|].
        split; [constructor|]. split; [cbn; lia|]. split; [discriminate|]. cbn [last key_of].
        split; [exact Hk'| intros H; cbn in H; lia].
      + destruct (IH (Some (root l)) (i + batch)%nat Hk' ltac:(lia)) as (i' & Hi' & Hc & Hok & Hsz & Hfull & Hlw & Hne & Hkey & Hfuel).
        set (W' := walk_from (S f') hlt s batch (Some (root l))) in *.
        exists i'. split; [lia|]. split.
        { rewrite contents_cons, Hc. cbn [content_of]. rewrite <- map_app. f_equal.
          replace (i' - i)%nat with (batch + (i' - (i + batch)))%nat by lia.
          rewrite firstn_plus. fold P. f_equal. f_equal. unfold X. rewrite skipn_skipn'. reflexivity. }
        split; [constructor; [reflexivity| exact Hok]|].
        split; [constructor; [cbn; rewrite map_length; lia| exact Hsz]|].
        split.
        { destruct W' as [|w W'']; [contradiction|]. cbn [removelast]. constructor; [cbn; rewrite map_length; exact HP| exact Hfull]. }
        split; [cbn [length]; lia|]. split; [discriminate|].
        assert (Hlast: last (POk (map rh P) (Some (root l)) (height t) :: W') PErrNoTip = last W' PErrNoTip).
        { destruct W' as [|w W'']; [contradiction| reflexivity]. }
        rewrite Hlast. split; [exact Hkey|]. intros H. apply Hfuel. cbn in H. lia.
  Qed.

  (* completeness, page sizes and termination of the walk from the empty key *)
  Theorem walk_complete fuel : (n <= fuel * batch)%nat ->
    let W := walk_pages fuel hlt s batch in
    contents W = spec_listing s tip /\
    Forall (fun p => is_ok p = true) W /\
    Forall (fun p => (length (content_of p) <= batch)%nat) W /\
    Forall (fun p => length (content_of p) = batch) (removelast W) /\
    (length W <= fuel)%nat /\
    key_of (last W PErrNoTip) = None.
  Proof.
    intros Hfuel. destruct (A_asc s tip t HI Ht) as (Ha & Hlen & (rest & HA)). fold A in Ha, Hlen, HA.
    assert (Hn: (1 <= n)%nat) by (unfold n; rewrite HA, app_length; cbn; lia).
    assert (Hf: (1 <= fuel)%nat) by (destruct fuel; [cbn in Hfuel; lia| lia]).
    destruct (walk_progress fuel None 0%nat eq_refl Hf) as (i' & Hi' & Hc & Hok & Hsz & Hfull & Hlw & _ & Hkey & Hterm).
    unfold walk_pages. cbv zeta.
    assert (Hnone: key_of (last (walk_from fuel hlt s batch None) PErrNoTip) = None) by (apply Hterm; lia).
    rewrite Hnone in Hkey. subst i'.
    split; [|auto].
    rewrite Hc. cbn [skipn]. replace (n - 0)%nat with n by lia. unfold n. rewrite firstn_all. reflexivity.
  Qed.

End Walk.

(* every page is the declarative page *)
Theorem page_is_spec hlt s tip batch key : Inv s tip -> roots_unique s ->
  page hlt s batch key = spec_page s tip batch key.
Proof.
  intros HI Hu. pose proof HI as (Hwf & (t & Ht & _) & _).
  unfold spec_page. rewrite Ht. fold (page_from (asc_chain s tip) (height t) batch).
  destruct key as [k|].
  - destruct (find (fun r => N.eqb (root r) k) s) as [r|] eqn:Ef.
    + apply find_some in Ef. destruct Ef as [Hr Hk]. apply N.eqb_eq in Hk.
      destruct (existsb (fun x => N.eqb (id x) (id r)) (asc_chain s tip)) eqn:Ee.
      * apply existsb_exists in Ee. destruct Ee as (x & Hx & Ex). apply N.eqb_eq in Ex.
        assert (Hxs: In x s) by (apply (A_in s tip HI x); exact Hx).
        assert (x = r) by (apply (nodup_ids_in s (wf_nodup s Hwf)); assumption). subst x.
        change (page_from (asc_chain s tip) (height t) batch (S (Z.to_nat (height r)))) with
               (page_from (asc_chain s tip) (height t) batch (S (Z.to_nat (height r)))).
        apply (page_at hlt s tip t HI Ht Hu). exists r. auto.
      * apply (key_not_longest hlt s batch k r Hr Hk). intros x Hx Hxk HL.
        assert (r = x) by (apply (Hu x r Hx Hr HL); congruence). subst x.
        assert (Hin: In r (asc_chain s tip)) by (apply (A_in s tip HI r); auto).
        assert (existsb (fun x => N.eqb (id x) (id r)) (asc_chain s tip) = true)
          by (apply existsb_exists; exists r; split; [exact Hin| apply N.eqb_refl]).
        congruence.
    + apply key_unknown. intros x Hx Hk.
      pose proof (find_none _ _ Ef x Hx) as Hn. cbv beta in Hn. rewrite (proj2 (N.eqb_eq _ _) Hk) in Hn. discriminate.
  - apply (page_at hlt s tip t HI Ht Hu). reflexivity.
Qed.

(* batchSize = 0: an empty page and an empty key - indistinguishable from "end of data"; excluded from completeness *)
Theorem batch_zero hlt s tip t key i : Inv s tip -> by_hash s tip = Some t -> roots_unique s ->
  key_pos (asc_chain s tip) key i -> page hlt s 0 key = POk [] None (height t).
Proof.
  intros HI Ht Hu Hk. rewrite (page_at hlt s tip t HI Ht Hu 0 key i Hk). unfold page_from. cbn [firstn map last_opt rev].
  destruct (length (skipn i (asc_chain s tip)) <=? 0)%nat; reflexivity.
Qed.

(* extending the tip between two pages only appends: a walk interrupted on [s] after f1 pages and resumed with its
   last key on a store [s'] whose longest chain is the old one plus new blocks lists the new chain exactly once *)
Theorem walk_with_appends hlt s tip t s' tip' t' batch f1 f2 ext k :
  Inv s tip -> by_hash s tip = Some t -> roots_unique s ->
  Inv s' tip' -> by_hash s' tip' = Some t' -> roots_unique s' ->
  (1 <= batch)%nat -> (1 <= f1)%nat ->
  asc_chain s' tip' = asc_chain s tip ++ ext ->
  key_of (last (walk_from f1 hlt s batch None) PErrNoTip) = Some k ->
  (length (asc_chain s' tip') <= f2 * batch)%nat ->
  let W1 := walk_from f1 hlt s batch None in
  let W2 := walk_from f2 hlt s' batch (Some k) in
  contents W1 ++ contents W2 = spec_listing s' tip' /\
  Forall (fun p => is_ok p = true) (W1 ++ W2) /\
  key_of (last W2 PErrNoTip) = None.
Proof.
  intros HI Ht Hu HI' Ht' Hu' Hb Hf1 HA' Hk Hf2 W1 W2.
  destruct (walk_progress hlt s tip t HI Ht Hu batch Hb f1 None 0%nat eq_refl Hf1) as (i1 & Hi1 & Hc1 & Hok1 & _ & _ & _ & _ & Hkey1 & _).
  fold W1 in Hc1, Hok1, Hkey1. unfold W1 in Hkey1. rewrite Hk in Hkey1.
  assert (Hk': key_pos (asc_chain s' tip') (Some k) i1).
  { destruct Hkey1 as (r & Hr & Hrk & Hi). exists r. rewrite HA'. split; [apply in_or_app; left; exact Hr| auto]. }
  destruct (A_asc s' tip' t' HI' Ht') as (_ & _ & (rest & HAr)).
  assert (Hn': (1 <= length (asc_chain s' tip'))%nat) by (rewrite HAr, app_length; cbn; lia).
  assert (Hf2': (1 <= f2)%nat) by (destruct f2; [cbn in Hf2; lia| lia]).
  destruct (walk_progress hlt s' tip' t' HI' Ht' Hu' batch Hb f2 (Some k) i1 Hk' Hf2') as (i2 & Hi2 & Hc2 & Hok2 & _ & _ & _ & _ & Hkey2 & Hterm).
  fold W2 in Hc2, Hok2, Hkey2, Hterm.
  assert (Hnone: key_of (last W2 PErrNoTip) = None) by (apply Hterm; lia).
  rewrite Hnone in Hkey2. subst i2.
  split; [|split; [apply Forall_app; split; assumption| exact Hnone]].
  rewrite Hc1, Hc2, <- map_app. unfold spec_listing. f_equal. cbn [skipn].
  replace (i1 - 0)%nat with i1 by lia.
  rewrite (firstn_all2 (n := length (asc_chain s' tip') - i1)) by (rewrite skipn_length; lia).
  etransitivity; [|apply (firstn_skipn i1)]. f_equal.
  rewrite HA', firstn_app. replace (i1 - length (asc_chain s tip))%nat with 0%nat by lia.
  cbn [firstn]. rewrite app_nil_r. reflexivity.
Qed.

(* the hypothesis on the chains holds when a header is stored on top of the tip *)
Lemma extend_tip_asc s tip r : prev r = tip -> asc_chain (r :: s) (id r) = asc_chain s tip ++ [r].
Proof. intros Hp. unfold asc_chain. cbn [chain]. rewrite N.eqb_refl, Hp. reflexivity. Qed.

(* ---- stated over [Valid] ---- *)
Theorem valid_walk_complete hlt s batch fuel : Valid s -> roots_unique s -> (1 <= batch)%nat ->
  exists tip, Inv s tip /\
    ((length (asc_chain s tip) <= fuel * batch)%nat ->
     let W := walk_pages fuel hlt s batch in
     contents W = spec_listing s tip /\
     Forall (fun p => is_ok p = true) W /\
     Forall (fun p => (length (content_of p) <= batch)%nat) W /\
     Forall (fun p => length (content_of p) = batch) (removelast W) /\
     (length W <= fuel)%nat /\
     key_of (last W PErrNoTip) = None) /\
    (length (asc_chain s tip) <= S (length (asc_chain s tip) / batch) * batch)%nat.
Proof.
  intros HV Hu Hb. destruct (valid_inv s HV) as (tip & t & HI & Ht). exists tip. split; [exact HI|]. split.
  - intros Hf. apply (walk_complete hlt s tip t HI Ht Hu batch Hb fuel Hf).
  - apply fuel_enough_nat. exact Hb.
Qed.

(* the listing IS the set of LONGEST_CHAIN rows, ascending, heights 0..tip *)
Theorem listing_meaning s tip : Inv s tip ->
  (forall r, In r (asc_chain s tip) <-> In r s /\ st r = Longest) /\
  asc_from 0 (asc_chain s tip) /\ NoDup (asc_chain s tip).
Proof.
  intros HI. pose proof HI as (Hwf & (t & Ht & _) & _). split; [apply (A_in s tip HI)|].
  split; [apply (A_asc s tip t HI Ht)|]. unfold asc_chain. apply NoDup_rev. apply chain_nodup. apply wf_nodup. exact Hwf.
Qed.

Theorem valid_page_is_spec hlt s batch key : Valid s -> roots_unique s ->
  exists tip, Inv s tip /\ page hlt s batch key = spec_page s tip batch key.
Proof.
  intros HV Hu. destruct (valid_inv s HV) as (tip & t & HI & Ht). exists tip. split; [exact HI|].
  apply page_is_spec; assumption.
Qed.

(* ---- concrete instances ---- *)
Lemma roots_unique_dec s : nodupN (map root s) = true -> roots_unique s.
Proof.
  intros H r x Hr Hx _ E.
  assert (Hnd: NoDup (map root s)).
  { clear - H. induction (map root s) as [|a l IH]; [constructor|]. cbn in H. apply andb_prop in H. destruct H as [H1 H2].
    constructor; [|apply IH; exact H2]. intro Hin. apply negb_true_iff in H1.
    assert (existsb (N.eqb a) l = true) by (apply existsb_exists; exists a; split; [exact Hin| apply N.eqb_refl]). congruence. }
  clear H. induction s as [|a s IH]; [inversion Hr|]. cbn in Hnd. inversion Hnd as [|? ? Hn Hnd']; subst.
  destruct Hr as [<-|Hr], Hx as [<-|Hx]; auto.
  - exfalso. apply Hn. rewrite <- E. apply in_map. exact Hx.
  - exfalso. apply Hn. rewrite E. apply in_map. exact Hr.
Qed.

Definition lt_id (a b : N) : bool := N.ltb a b.
(* G; A(2), B(3) children of G; C(4) on B (reorganisation); orphan 5; then D(6) on C, E(7) on D *)
Definition ex_long : list src := ex_post ++ [mk_sub 6 4 545259519 106; mk_sub 7 6 545259519 107].

Example ex_long_valid : Valid (run [] 1 ex_gpl ex_long) /\ roots_unique (run [] 1 ex_gpl ex_long).
Proof.
  split.
  - apply reachable_valid; [discriminate| |]; intros h Hh;
      repeat (destruct Hh as [<-|Hh]; [vm_compute; try reflexivity; try discriminate|]); destruct Hh.
  - apply roots_unique_dec. vm_compute. reflexivity.
Qed.

Example ex_long_walks :
  map content_of (walk_pages 10 lt_id (run [] 1 ex_gpl ex_long) 2) =
    [[(1%N, 0); (103%N, 1)]; [(104%N, 2); (106%N, 3)]; [(107%N, 4)]] /\
  map key_of (walk_pages 10 lt_id (run [] 1 ex_gpl ex_long) 2) = [Some 103%N; Some 106%N; None] /\
  map content_of (walk_pages 10 lt_id (run [] 1 ex_gpl ex_long) 5) = [[(1%N, 0); (103%N, 1); (104%N, 2); (106%N, 3); (107%N, 4)]] /\
  page lt_id (run [] 1 ex_gpl ex_long) 2 (Some 102%N) = PErrConflict /\      (* stale sibling *)
  page lt_id (run [] 1 ex_gpl ex_long) 2 (Some 105%N) = PErrConflict /\      (* orphan *)
  page lt_id (run [] 1 ex_gpl ex_long) 2 (Some 999%N) = PErrNotFound /\
  page lt_id (run [] 1 ex_gpl ex_long) 0 None = POk [] None 4.
Proof. vm_compute. repeat split; reflexivity. Qed.

(* a walk interrupted before the reorganisation may legitimately end in a conflict: key 102 (block A) was a
   longest-chain key on [ex_pre] and is stale on [ex_post] *)
Example ex_key_conflict_after_reorg :
  map key_of (walk_from 1 lt_id (run [] 1 ex_gpl ex_pre) 2 None) = [None] /\
  key_of (page lt_id (run [] 1 ex_gpl [mk_sub 2 1 545259519 102; mk_sub 8 2 545259519 108]) 2 None) = Some 102%N /\
  page lt_id (run [] 1 ex_gpl ex_post) 2 (Some 102%N) = PErrConflict.
Proof. vm_compute. repeat split; reflexivity. Qed.

(* outside the quantifier of the property (roots NOT pairwise distinct): when the tip's root also occurs lower in the
   longest chain the end-of-data rule fires early and the walk silently stops there *)
Definition ex_shared : list src := [mk_sub 2 1 545259519 102; mk_sub 3 2 545259519 103; mk_sub 4 3 545259519 102].
Example shared_root_walk_stops_early :
  map content_of (walk_pages 10 lt_id (run [] 1 ex_gpl ex_shared) 2) = [[(1%N, 0); (102%N, 1)]] /\
  map key_of (walk_pages 10 lt_id (run [] 1 ex_gpl ex_shared) 2) = [None] /\
  spec_listing (run [] 1 ex_gpl ex_shared) 4 = [(1%N, 0); (102%N, 1); (103%N, 2); (102%N, 3)].
Proof. vm_compute. repeat split; reflexivity. Qed.

(* ---- the three parts of the walk theorem, separately ---- *)
Theorem valid_walk_lists_chain hlt s batch fuel : Valid s -> roots_unique s -> (1 <= batch)%nat ->
  exists tip, Inv s tip /\
    ((length (asc_chain s tip) <= fuel * batch)%nat ->
     contents (walk_pages fuel hlt s batch) = spec_listing s tip /\
     Forall (fun p => is_ok p = true) (walk_pages fuel hlt s batch)).
Proof.
  intros HV Hu Hb. destruct (valid_walk_complete hlt s batch fuel HV Hu Hb) as (tip & HI & H & _).
  exists tip. split; [exact HI|]. intros Hf. destruct (H Hf) as (H1 & H2 & _). auto.
Qed.

Theorem valid_walk_pages_bounded hlt s batch fuel : Valid s -> roots_unique s -> (1 <= batch)%nat ->
  exists tip, Inv s tip /\
    ((length (asc_chain s tip) <= fuel * batch)%nat ->
     Forall (fun p => (length (content_of p) <= batch)%nat) (walk_pages fuel hlt s batch) /\
     Forall (fun p => length (content_of p) = batch) (removelast (walk_pages fuel hlt s batch))).
Proof.
  intros HV Hu Hb. destruct (valid_walk_complete hlt s batch fuel HV Hu Hb) as (tip & HI & H & _).
  exists tip. split; [exact HI|]. intros Hf. destruct (H Hf) as (_ & _ & H3 & H4 & _). auto.
Qed.

Theorem valid_walk_terminates hlt s batch : Valid s -> roots_unique s -> (1 <= batch)%nat ->
  exists tip, Inv s tip /\
    let n := length (asc_chain s tip) in
    forall fuel, (S (n / batch) <= fuel)%nat ->
      (length (walk_pages fuel hlt s batch) <= S (n / batch))%nat /\
      key_of (last (walk_pages fuel hlt s batch) PErrNoTip) = None /\
      walk_pages fuel hlt s batch = walk_pages (S (n / batch)) hlt s batch.
Proof.
  intros HV Hu Hb. destruct (valid_inv s HV) as (tip & t & HI & Ht). exists tip. split; [exact HI|].
  intros n fuel Hfuel.
  pose proof (fuel_enough_nat (length (asc_chain s tip)) batch Hb) as Hen. fold n in Hen.
  destruct (walk_complete hlt s tip t HI Ht Hu batch Hb (S (n / batch)) Hen) as (_ & _ & _ & _ & Hl & Hk).
  (* more fuel does not change a walk that has ended *)
  assert (Hmono: forall f key W, walk_from f hlt s batch key = W -> key_of (last W PErrNoTip) = None -> W <> [] ->
                 forall f', (f <= f')%nat -> walk_from f' hlt s batch key = W).
  { induction f as [|f IH]; intros key W HW Hkey Hne f' Hle; [cbn in HW; congruence|].
    destruct f' as [|f'']; [lia|]. cbn [walk_from] in *.
    destruct (page hlt s batch key) as [| | |c [k|] tot] eqn:Ep; try exact HW.
    subst W. f_equal.
    destruct (walk_from f hlt s batch (Some k)) as [|w W'] eqn:EW.
    - cbn in Hkey. discriminate.
    - apply (IH (Some k) (w :: W') EW); [exact Hkey|discriminate| lia]. }
  assert (Hne: walk_pages (S (n / batch)) hlt s batch <> []) by (unfold walk_pages; cbn [walk_from]; discriminate).
  pose proof (Hmono (S (n / batch)) None _ eq_refl Hk Hne fuel Hfuel) as E.
  unfold walk_pages in *. rewrite E. auto.
Qed.
(* ---- the walk follows the history-level specification ---- *)
Lemma rh_dummy r : rh (dummy r) = rh r.
Proof. reflexivity. Qed.

Theorem walk_tracks_chain f gid gpl hs hlt batch fuel : gid <> 0%N -> positive_work hs -> nonzero_ids hs ->
  let s := run f gid gpl hs in
  let ss := spec_run_from f (init gid gpl) hs in
  roots_unique s -> (1 <= batch)%nat -> (length (chain ss (spec_tip ss)) <= fuel * batch)%nat ->
  contents (walk_pages fuel hlt s batch) = map rh (rev (chain ss (spec_tip ss))) /\
  Forall (fun p => is_ok p = true) (walk_pages fuel hlt s batch) /\
  key_of (last (walk_pages fuel hlt s batch) PErrNoTip) = None.
Proof.
  intros Hg Hp Hn s ss Hu Hb Hf.
  destruct (run_related f hs (init gid gpl) gid (init_inv2 gid gpl Hg) Hp Hn) as (tip' & HI2 & Hd).
  fold (run f gid gpl hs) in HI2, Hd. fold s in HI2, Hd.
  rewrite spec_run_dummy in Hd. fold ss in Hd.
  pose proof HI2 as [HI _]. pose proof HI as (Hwf & (t & Ht & _) & _).
  assert (Etip: spec_tip ss = tip').
  { rewrite <- (spec_tip_dummy ss), <- Hd, spec_tip_dummy. apply (spec_tip_inv2 s tip' HI2). }
  rewrite Etip in *.
  assert (Ec: map dummy (chain s tip') = map dummy (chain ss tip')).
  { rewrite <- (chain_map dummy s tip' same_struct_dummy), <- (chain_map dummy ss tip' same_struct_dummy), Hd. reflexivity. }
  assert (Erh: map rh (chain s tip') = map rh (chain ss tip')).
  { transitivity (map rh (map dummy (chain s tip'))); [rewrite map_map; apply map_ext; intros; reflexivity|].
    rewrite Ec, map_map. apply map_ext. intros; reflexivity. }
  assert (Hlen: length (asc_chain s tip') = length (chain ss tip')).
  { unfold asc_chain. rewrite rev_length, <- (map_length dummy (chain s tip')), Ec, map_length. reflexivity. }
  destruct (walk_complete hlt s tip' t HI Ht Hu batch Hb fuel ltac:(rewrite Hlen; exact Hf)) as (H1 & H2 & _ & _ & _ & H6).
  split; [|split; assumption].
  rewrite H1. unfold spec_listing, asc_chain. rewrite !map_rev, Erh. reflexivity.
Qed.

(* ---- the hypotheses of walk_with_appends are satisfiable: ex_post, then two blocks on its tip ---- *)
Example ex_appends :
  let s := run [] 1 ex_gpl ex_post in
  let s' := run [] 1 ex_gpl ex_long in
  exists t t',
    Inv s 4 /\ by_hash s 4 = Some t /\ roots_unique s /\
    Inv s' 7 /\ by_hash s' 7 = Some t' /\ roots_unique s' /\
    (exists ext, asc_chain s' 7 = asc_chain s 4 ++ ext /\ length ext = 2%nat) /\
    key_of (last (walk_from 1 lt_id s 2 None) PErrNoTip) = Some 103%N /\
    contents (walk_from 1 lt_id s 2 None) ++ contents (walk_from 5 lt_id s' 2 (Some 103%N)) = spec_listing s' 7.
Proof.
  intros s s'.
  destruct ex_post_valid as (tip & HI2). fold s in HI2.
  pose proof (spec_tip_inv2 s tip HI2) as E. vm_compute in E. subst tip.
  destruct (proj1 ex_long_valid) as (tip' & HI2'). fold s' in HI2'.
  pose proof (spec_tip_inv2 s' tip' HI2') as E'. vm_compute in E'. subst tip'.
  destruct HI2 as [HI _]. destruct HI2' as [HI' _].
  pose proof HI as (_ & (t & Ht & _) & _). pose proof HI' as (_ & (t' & Ht' & _) & _).
  exists t, t'. split; [exact HI|]. split; [exact Ht|].
  split; [apply roots_unique_dec; vm_compute; reflexivity|].
  split; [exact HI'|]. split; [exact Ht'|]. split; [exact (proj2 ex_long_valid)|].
  split; [eexists; split; [vm_compute; reflexivity| reflexivity]|].
  split; vm_compute; reflexivity.
Qed.

(* ---- the same for EVERY reachable store, any work values: only [Structural] (MerkleProofs) is needed - the listing
        theorems never use that the tip is the greatest-cumulative-work header ---- *)
Theorem structural_walk_complete hlt s batch fuel : Structural s -> roots_unique s -> (1 <= batch)%nat ->
  exists tip, Inv s tip /\
    ((length (asc_chain s tip) <= fuel * batch)%nat ->
     contents (walk_pages fuel hlt s batch) = spec_listing s tip /\
     Forall (fun p => is_ok p = true) (walk_pages fuel hlt s batch)).
Proof.
  intros HV Hu Hb. destruct (structural_inv s HV) as (tip & t & HI & Ht). exists tip. split; [exact HI|].
  intros Hf. destruct (walk_complete hlt s tip t HI Ht Hu batch Hb fuel Hf) as (H1 & H2 & _). auto.
Qed.

Theorem structural_walk_pages_bounded hlt s batch fuel : Structural s -> roots_unique s -> (1 <= batch)%nat ->
  exists tip, Inv s tip /\
    ((length (asc_chain s tip) <= fuel * batch)%nat ->
     Forall (fun p => (length (content_of p) <= batch)%nat) (walk_pages fuel hlt s batch) /\
     Forall (fun p => length (content_of p) = batch) (removelast (walk_pages fuel hlt s batch))).
Proof.
  intros HV Hu Hb. destruct (structural_inv s HV) as (tip & t & HI & Ht). exists tip. split; [exact HI|].
  intros Hf. destruct (walk_complete hlt s tip t HI Ht Hu batch Hb fuel Hf) as (_ & _ & H3 & H4 & _). auto.
Qed.

Theorem structural_walk_terminates hlt s batch : Structural s -> roots_unique s -> (1 <= batch)%nat ->
  exists tip, Inv s tip /\
    let n := length (asc_chain s tip) in
    (n <= S (n / batch) * batch)%nat /\
    (length (walk_pages (S (n / batch)) hlt s batch) <= S (n / batch))%nat /\
    key_of (last (walk_pages (S (n / batch)) hlt s batch) PErrNoTip) = None.
Proof.
  intros HV Hu Hb. destruct (structural_inv s HV) as (tip & t & HI & Ht). exists tip. split; [exact HI|].
  intros n. pose proof (fuel_enough_nat (length (asc_chain s tip)) batch Hb) as Hen. fold n in Hen. split; [exact Hen|].
  destruct (walk_complete hlt s tip t HI Ht Hu batch Hb (S (n / batch)) Hen) as (_ & _ & _ & _ & Hl & Hk). auto.
Qed.

Theorem structural_page_is_spec hlt s batch key : Structural s -> roots_unique s ->
  exists tip, Inv s tip /\ page hlt s batch key = spec_page s tip batch key.
Proof.
  intros HV Hu. destruct (structural_inv s HV) as (tip & t & HI & Ht). exists tip. split; [exact HI|].
  apply page_is_spec; assumption.
Qed.

(* the listing on a zero-work history (the zero-work child 3 of the tip is the tip): Structural, and the walk lists it *)
Example ex_zero_walk :
  Structural (run [] 1 ex_gpl ex_zero) /\ roots_unique (run [] 1 ex_gpl ex_zero) /\
  map content_of (walk_pages 5 lt_id (run [] 1 ex_gpl ex_zero) 2) = [[(1%N, 0); (102%N, 1)]; [(103%N, 2)]] /\
  page lt_id (run [] 1 ex_gpl ex_zero) 2 (Some 104%N) = PErrConflict.
Proof.
  split; [exact (proj1 ex_zero_structural)|]. split; [apply roots_unique_dec; vm_compute; reflexivity|].
  vm_compute. split; reflexivity.
Qed.
