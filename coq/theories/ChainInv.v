(* The ingestion invariant and the facts about the repository queries under it. *)
From Coq Require Import ZArith NArith List Lia Bool.
From BHS Require Import Store ChainSpec StoreProofs.
Import ListNotations.
Open Scope Z_scope.

Lemma st_eqb_eq a b : st_eqb a b = true <-> a = b.
Proof. destruct a, b; cbn; split; intros; try reflexivity; try discriminate. Qed.

Definition labels_ok (s : store) (tip : N) := forall r, In r s -> st r = derived s tip r.
Definition Inv (s : store) (tip : N) :=
  wf s /\ (exists t, by_hash s tip = Some t /\ orph t = false) /\ labels_ok s tip.

(* ---------------- basic facts ---------------- *)
Lemma memN_in i l : memN i l = true <-> In i l.
Proof.
  unfold memN. rewrite existsb_exists. split.
  - intros (x & Hx & E). apply N.eqb_eq in E. subst. exact Hx.
  - intros H. exists i. split; [exact H| apply N.eqb_refl].
Qed.

Lemma inchain_in s tip r : wf s -> In r s -> (inchain s tip r = true <-> In r (chain s tip)).
Proof.
  intros Hwf Hr. unfold inchain. rewrite memN_in. split.
  - intros H. apply in_map_iff in H. destruct H as (x & E & Hx).
    assert (x = r) by (apply (nodup_ids_in s (wf_nodup s Hwf)); auto; apply (chain_incl s tip); exact Hx).
    subst. exact Hx.
  - intros H. apply in_map. exact H.
Qed.

Lemma chain_rows_connected s tip t : wf s -> by_hash s tip = Some t -> orph t = false ->
  forall x, In x (chain s tip) -> orph x = false.
Proof.
  intros Hwf Ht Ho x Hx.
  destruct (by_hash_chain s tip (wf_nodup s Hwf) t Ht) as [rest Hc].
  rewrite Hc in Hx. destruct Hx as [<-|Hx]; [exact Ho|].
  rewrite (chain_all_orph_eq s Hwf tip t rest Hc x Hx). exact Ho.
Qed.

Lemma is_L_iff s tip : Inv s tip -> forall r, In r s -> (st r = Longest <-> In r (chain s tip)).
Proof.
  intros (Hwf & (t & Ht & Ho) & Hl) r Hr. rewrite (Hl r Hr). unfold derived.
  split.
  - destruct (orph r) eqn:E; [discriminate|]. destruct (inchain s tip r) eqn:E2; [|discriminate].
    intros _. apply (inchain_in s tip r Hwf Hr). exact E2.
  - intros H. rewrite (chain_rows_connected s tip t Hwf Ht Ho r H).
    apply (inchain_in s tip r Hwf Hr) in H. rewrite H. reflexivity.
Qed.

(* ---------------- tip query = tip of the invariant ---------------- *)
Lemma maxLh_ge s : forall r, In r s -> st r = Longest -> height r <= maxLh s.
Proof.
  induction s as [|a s IH]; intros r Hr HL; [inversion Hr|]. cbn.
  destruct Hr as [<-|Hr].
  - rewrite HL. cbn. lia.
  - specialize (IH r Hr HL). destruct (st_eqb (st a) Longest); lia.
Qed.

Lemma maxLh_attained s : maxLh s = -1 \/ exists r, In r s /\ st r = Longest /\ height r = maxLh s.
Proof.
  induction s as [|a s IH]; [left; reflexivity|]. cbn.
  destruct (st_eqb (st a) Longest) eqn:E.
  - apply st_eqb_eq in E.
    destruct (Z.max_spec (height a) (maxLh s)) as [[Hlt Hm]|[Hge Hm]]; rewrite Hm.
    + destruct IH as [IH|(r & Hr & HL & Hh)].
      * left. exact IH.
      * right. exists r. split; [right; exact Hr| split; assumption].
    + right. exists a. split; [left; reflexivity| split; [exact E| reflexivity]].
  - destruct IH as [IH|(r & Hr & HL & Hh)]; [left; exact IH| right; exists r; split; [right; exact Hr| split; assumption]].
Qed.

Lemma find_unique {A} (p : A -> bool) l t : In t l -> p t = true -> (forall x, In x l -> p x = true -> x = t) -> find p l = Some t.
Proof.
  induction l as [|a l IH]; intros Ht Hp Hu; [inversion Ht|]. cbn.
  destruct (p a) eqn:E.
  - f_equal. apply Hu; [left; reflexivity| exact E].
  - destruct Ht as [->|Ht]; [congruence|]. apply IH; auto. intros x Hx. apply Hu. right. exact Hx.
Qed.

Lemma chain_by_hash s t x rest : NoDup (ids s) -> chain s t = x :: rest -> by_hash s t = Some x.
Proof.
  revert t. induction s as [|r s IH]; intros t Hnd H; cbn in H; [discriminate|].
  inversion Hnd as [|? ? Hnotin Hnd']; subst. unfold by_hash. cbn.
  destruct (N.eqb_spec (id r) t) as [E|E]; [inversion H; reflexivity| apply IH; assumption].
Qed.

Lemma tip_height_max s tip t : Inv s tip -> by_hash s tip = Some t ->
  forall r, In r s -> st r = Longest -> r = t \/ height r < height t.
Proof.
  intros HI Ht r Hr HL. pose proof HI as (Hwf & _ & _).
  apply (is_L_iff s tip HI r Hr) in HL.
  destruct (by_hash_chain s tip (wf_nodup s Hwf) t Ht) as [rest Hc]. rewrite Hc in HL.
  destruct HL as [<-|HL]; [left; reflexivity| right; apply (chain_heights s Hwf tip t rest Hc r HL)].
Qed.

Lemma tip_is_L s tip t : Inv s tip -> by_hash s tip = Some t -> In t s /\ st t = Longest.
Proof.
  intros HI Ht. pose proof HI as (Hwf & _ & _). destruct (by_hash_in _ _ _ Ht) as [Hin _].
  split; [exact Hin|]. apply (is_L_iff s tip HI t Hin).
  destruct (by_hash_chain s tip (wf_nodup s Hwf) t Ht) as [rest Hc]. rewrite Hc. left. reflexivity.
Qed.

Lemma wf_height_nonneg s : wf s -> forall r, In r s -> 0 <= height r.
Proof.
  induction 1 as [g Hg | a s Hwf IH Hn Hz Hok]; try unfold row_ok in Hok; intros r Hr.
  - destruct Hr as [<-|[]]. destruct Hg as (_ & _ & Hh & _). lia.
  - destruct Hr as [<-|Hr]; [|apply IH; exact Hr].
    destruct (by_hash s (prev a)) as [p|] eqn:Hp.
    + destruct (by_hash_in _ _ _ Hp) as [Hpin _]. specialize (IH p Hpin). lia.
    + lia.
Qed.

Lemma tipB_is_tip s tip : Inv s tip -> tipB s = by_hash s tip.
Proof.
  intros HI. pose proof HI as (Hwf & (t & Ht & Ho) & Hl). rewrite Ht.
  destruct (tip_is_L s tip t HI Ht) as [Hin HL].
  assert (Hmax: maxLh s = height t).
  { pose proof (maxLh_ge s t Hin HL) as Hge.
    destruct (maxLh_attained s) as [Hm|(r & Hr & HrL & Hh)].
    - (* heights are >= 0? not needed: height t <= -1 and = *) 
      pose proof (wf_height_nonneg s Hwf t Hin). lia.
    - destruct (tip_height_max s tip t HI Ht r Hr HrL) as [->|Hlt]; lia. }
  unfold tipB. apply find_unique.
  - apply -> in_rev. exact Hin.
  - rewrite Hmax. apply andb_true_intro. split; [apply st_eqb_eq; exact HL| apply Z.eqb_refl].
  - intros x Hx Hp. apply in_rev in Hx. apply andb_prop in Hp. destruct Hp as [H1 H2].
    apply st_eqb_eq in H1. apply Z.eqb_eq in H2.
    destruct (tip_height_max s tip t HI Ht x Hx H1) as [->|Hlt]; [reflexivity| lia].
Qed.

(* ---------------- "parent is Longest and nothing Longest above it" means parent is the tip ---------------- *)
Lemma has_L_at_false s h : has_L_at s h = false -> forall r, In r s -> st r = Longest -> height r <> h.
Proof.
  unfold has_L_at. intros H r Hr HL E.
  assert (existsb (fun r0 => st_eqb (st r0) Longest && (height r0 =? h)) s = true).
  { apply existsb_exists. exists r. split; [exact Hr|]. apply andb_true_intro. split; [apply st_eqb_eq; exact HL| apply Z.eqb_eq; exact E]. }
  congruence.
Qed.

Lemma parent_is_tip s tip p : Inv s tip -> In p s -> st p = Longest -> has_L_at s (height p + 1) = false -> id p = tip.
Proof.
  intros HI Hp HL Hno. pose proof HI as (Hwf & _ & _).
  apply (is_L_iff s tip HI p Hp) in HL.
  destruct (in_split _ _ HL) as (pre & post & E).
  destruct pre as [|a pre].
  - cbn in E. destruct (chain_head _ _ _ _ E) as [H _]. exact H.
  - exfalso. destruct (chain_pred s Hwf tip _ eq_refl (a :: pre) p post E ltac:(discriminate)) as (y & Hy & _ & Hh).
    assert (Hyc: In y (chain s tip)) by (rewrite E; apply in_or_app; left; exact Hy).
    assert (Hys: In y s) by (apply (chain_incl s tip); exact Hyc).
    apply (has_L_at_false s _ Hno y Hys); [apply (is_L_iff s tip HI y Hys); exact Hyc| exact Hh].
Qed.

(* ---------------- hash-walk (SQL recursive CTE) = chain, for connected rows ---------------- *)
Lemma chain_nil_by_hash s t : chain s t = [] -> by_hash s t = None.
Proof.
  revert t. induction s as [|r s IH]; intros t H; [reflexivity|]. cbn in H. unfold by_hash. cbn.
  destruct (N.eqb (id r) t); [discriminate| apply IH; exact H].
Qed.

Lemma walk_chain s : wf s -> forall fuel t x rest, chain s t = x :: rest -> orph x = false ->
  (length (x :: rest) <= fuel)%nat -> walk fuel s t = x :: rest.
Proof.
  intros Hwf fuel. induction fuel as [|f IH]; intros t x rest Hc Ho Hlen; [cbn in Hlen; lia|].
  cbn [walk]. rewrite (chain_by_hash s t x rest (wf_nodup s Hwf) Hc). f_equal.
  pose proof (chain_unfold s Hwf t x rest Hc Ho) as Hr.
  destruct rest as [|y rest'].
  - destruct f; [reflexivity|]. cbn [walk]. rewrite (chain_nil_by_hash s (prev x) (eq_sym Hr)). reflexivity.
  - apply IH; [symmetry; exact Hr| | cbn in *; lia].
    rewrite (chain_all_orph_eq s Hwf t x (y :: rest') Hc y ltac:(left; reflexivity)). exact Ho.
Qed.

Lemma chain_length s t : (length (chain s t) <= length s)%nat.
Proof.
  revert t. induction s as [|r s IH]; intros t; cbn; [lia|].
  destruct (N.eqb (id r) t); cbn; [specialize (IH (prev r))| specialize (IH t)]; lia.
Qed.

(* ---------------- label updates do not disturb structure ---------------- *)
Definition same_struct (f : row -> row) := forall r,
  id (f r) = id r /\ prev (f r) = prev r /\ height (f r) = height r /\ work (f r) = work r /\ cum (f r) = cum r /\ orph (f r) = orph r /\ pl (f r) = pl r.

Lemma chain_map f s t : same_struct f -> chain (map f s) t = map f (chain s t).
Proof.
  intros Hf. revert t. induction s as [|r s IH]; intros t; [reflexivity|]. cbn.
  destruct (Hf r) as (E1 & E2 & _). rewrite E1, E2. destruct (N.eqb (id r) t); cbn; rewrite IH; reflexivity.
Qed.

Lemma by_hash_map f s t : same_struct f -> by_hash (map f s) t = option_map f (by_hash s t).
Proof.
  intros Hf. unfold by_hash. induction s as [|r s IH]; [reflexivity|]. cbn.
  destruct (Hf r) as (E1 & _). rewrite E1. destruct (N.eqb (id r) t); [reflexivity| exact IH].
Qed.

Lemma ids_map f s : same_struct f -> ids (map f s) = ids s.
Proof. intros Hf. unfold ids. rewrite map_map. apply map_ext. intros r. apply Hf. Qed.

Lemma wf_map f s : same_struct f -> wf s -> wf (map f s).
Proof.
  intros Hf. induction 1 as [g Hg | r s Hwf IH Hn Hz Hok]; try unfold row_ok in Hok; cbn.
  - apply wf_gen. destruct (Hf g) as (E1 & E2 & E3 & E4 & E5 & E6 & E7). unfold is_genesis in *. rewrite E1, E2, E3, E4, E5, E6. exact Hg.
  - destruct (Hf r) as (E1 & E2 & E3 & E4 & E5 & E6 & E7). apply wf_cons.
    + exact IH.
    + rewrite (ids_map f s Hf), E1. exact Hn.
    + rewrite E1. exact Hz.
    + unfold row_ok in *. rewrite E2, E3, E4, E5, E6, (by_hash_map f s (prev r) Hf).
      destruct (by_hash s (prev r)) as [p|]; cbn; [|exact Hok].
      destruct (Hf p) as (_ & _ & P3 & _ & P5 & P6 & _). rewrite P3, P5, P6. exact Hok.
Qed.

Lemma same_struct_upd l x : same_struct (fun r => if memN (id r) l then set_st x r else r).
Proof. intros r. destruct (memN (id r) l); cbn; repeat split; reflexivity. Qed.

Lemma update_nil s x : update_state s [] x = s.
Proof. unfold update_state. cbn. rewrite map_id. reflexivity. Qed.
Lemma chain_sorted s : wf s -> forall l1 t y l2, chain s t = l1 ++ y :: l2 -> forall x, In x l1 -> height y < height x.
Proof.
  intros Hwf l1. revert s Hwf. induction l1 as [|a l1 IH]; intros s Hwf t y l2 H x Hx; [inversion Hx|].
  cbn in H. destruct Hx as [<-|Hx].
  - apply (chain_heights s Hwf t a _ H). apply in_or_app. right. left. reflexivity.
  - destruct (chain_tail_is_chain _ _ _ _ H) as (s' & [pre Hpre] & Hr).
    assert (Hwf': wf s').
    { subst s. apply (wf_suffix (pre ++ [a]) s'); [rewrite <- app_assoc; exact Hwf|].
      intro E. subst s'. cbn in Hr. destruct l1; discriminate. }
    apply (IH s' Hwf' (prev a) y l2 (eq_sym Hr) x Hx).
Qed.

Lemma chain_sorted_tail s : wf s -> forall l1 t y l2, chain s t = l1 ++ y :: l2 -> forall x, In x l2 -> height x < height y.
Proof.
  intros Hwf l1. revert s Hwf. induction l1 as [|a l1 IH]; intros s Hwf t y l2 H x Hx.
  - cbn in H. apply (chain_heights s Hwf t y l2 H x Hx).
  - cbn in H. destruct (chain_tail_is_chain _ _ _ _ H) as (s' & [pre Hpre] & Hr).
    assert (Hwf': wf s').
    { subst s. apply (wf_suffix (pre ++ [a]) s'); [rewrite <- app_assoc; exact Hwf|].
      intro E. subst s'. cbn in Hr. destruct l1; discriminate. }
    apply (IH s' Hwf' (prev a) y l2 (eq_sym Hr) x Hx).
Qed.

Lemma chain_nodup s t : NoDup (ids s) -> NoDup (chain s t).
Proof.
  revert t. induction s as [|r s IH]; intros t Hnd; cbn; [constructor|].
  inversion Hnd as [|? ? Hnotin Hnd']; subst.
  destruct (N.eqb (id r) t); [|apply IH; exact Hnd'].
  constructor; [|apply IH; exact Hnd'].
  intro Hin. apply Hnotin. apply in_map. apply (chain_incl s (prev r)). exact Hin.
Qed.

Lemma min_height_cons a l d : min_height (a :: l) d = Z.min (height a) (min_height l d).
Proof. reflexivity. Qed.
Lemma min_height_le_d l d : min_height l d <= d.
Proof. induction l as [|a l IH]; [cbn; lia|]. rewrite min_height_cons. lia. Qed.
Lemma min_height_le_in l d x : In x l -> min_height l d <= height x.
Proof. induction l as [|a l IH]; intros H; [inversion H|]. rewrite min_height_cons. destruct H as [<-|H]; [lia| specialize (IH H); lia]. Qed.
Lemma min_height_gt l d m : m < d -> (forall x, In x l -> m < height x) -> m < min_height l d.
Proof.
  induction l as [|a l IH]; intros Hd H; [exact Hd|]. rewrite min_height_cons.
  pose proof (H a ltac:(left; reflexivity)).
  assert (m < min_height l d) by (apply IH; [exact Hd| intros x Hx; apply H; right; exact Hx]). lia.
Qed.

Lemma filter_all {A} (p : A -> bool) l : (forall x, In x l -> p x = true) -> filter p l = l.
Proof. induction l as [|a l IH]; intros H; [reflexivity|]. cbn. rewrite (H a ltac:(left; reflexivity)). f_equal. apply IH. intros x Hx. apply H. right. exact Hx. Qed.
Lemma filter_none {A} (p : A -> bool) l : (forall x, In x l -> p x = false) -> filter p l = [].
Proof. induction l as [|a l IH]; intros H; [reflexivity|]. cbn. rewrite (H a ltac:(left; reflexivity)). apply IH. intros x Hx. apply H. right. exact Hx. Qed.

(* orph <-> label Orphan *)
Lemma st_O_iff s tip r : Inv s tip -> In r s -> (st r = Orphan <-> orph r = true).
Proof.
  intros (_ & _ & Hl) Hr. rewrite (Hl r Hr). unfold derived. destruct (orph r); [split; reflexivity|].
  destruct (inchain s tip r); split; intros; discriminate.
Qed.

Lemma st_S_iff s tip r : Inv s tip -> In r s -> (st r = Stale <-> orph r = false /\ ~ In r (chain s tip)).
Proof.
  intros HI Hr. pose proof HI as (Hwf & _ & Hl). rewrite (Hl r Hr). unfold derived.
  destruct (orph r); [split; [discriminate| intros [? _]; discriminate]|].
  destruct (inchain s tip r) eqn:E.
  - split; [discriminate|]. intros [_ Hn]. exfalso. apply Hn. apply (inchain_in s tip r Hwf Hr). exact E.
  - split; [|reflexivity]. intros _. split; [reflexivity|]. intro Hin. apply (inchain_in s tip r Hwf Hr) in Hin. congruence.
Qed.

(* ---------------- inserting without reorganisation ---------------- *)
Lemma fresh_not_in_chain s t r : ~ In (id r) (ids s) -> ~ In (id r) (ids (chain s t)).
Proof. intros Hn Hin. apply Hn. apply in_map_iff in Hin. destruct Hin as (x & E & Hx). rewrite <- E. apply in_map. apply (chain_incl s t). exact Hx. Qed.

Lemma memN_false i l : ~ In i l -> memN i l = false.
Proof. intros H. destruct (memN i l) eqn:E; [|reflexivity]. apply memN_in in E. contradiction. Qed.

Lemma insert_keep s tip r : Inv s tip -> ~ In (id r) (ids s) -> id r <> 0%N -> row_ok s r ->
  st r = (if orph r then Orphan else Stale) -> Inv (r :: s) tip.
Proof.
  intros HI Hn Hz Hok Hst. pose proof HI as (Hwf & (t & Ht & Ho) & Hl).
  assert (Hne: id r <> tip). { intro E. apply Hn. rewrite E. destruct (by_hash_in _ _ _ Ht) as [Hin <-]. apply in_map. exact Hin. }
  split; [apply wf_cons; assumption|]. split.
  - exists t. split; [|exact Ho]. unfold by_hash. cbn. destruct (N.eqb_spec (id r) tip); [contradiction| exact Ht].
  - intros x Hx. unfold derived, inchain. cbn [chain]. destruct (N.eqb_spec (id r) tip); [contradiction|].
    destruct Hx as [<-|Hx]; [|apply Hl; exact Hx].
    rewrite Hst. destruct (orph r); [reflexivity|]. rewrite (memN_false _ _ (fresh_not_in_chain s tip r Hn)). reflexivity.
Qed.

Lemma insert_extend s tip r : Inv s tip -> ~ In (id r) (ids s) -> id r <> 0%N -> row_ok s r ->
  prev r = tip -> st r = Longest -> orph r = false -> Inv (r :: s) (id r).
Proof.
  intros HI Hn Hz Hok Hp Hst Hor. pose proof HI as (Hwf & (t & Ht & Ho) & Hl).
  split; [apply wf_cons; assumption|]. split.
  - exists r. split; [|exact Hor]. unfold by_hash. cbn. rewrite N.eqb_refl. reflexivity.
  - intros x Hx. unfold derived, inchain. cbn [chain]. rewrite N.eqb_refl. cbn [ids map memN existsb].
    destruct Hx as [<-|Hx].
    + rewrite Hst, Hor, N.eqb_refl. reflexivity.
    + assert (id x <> id r). { intro E. apply Hn. rewrite <- E. apply in_map. exact Hx. }
      destruct (N.eqb_spec (id x) (id r)); [contradiction|]. cbn. rewrite Hp. apply Hl. exact Hx.
Qed.
