(* C14 proofs, part 6: what a decoder consumes.  Every payload decoder of the model (version included,
   no assumption on the bytes) returns as remainder a SUFFIX of its input - it reads a prefix, never
   skips backwards or invents bytes - and ReadMessage leaves a suffix of the stream in the reader:
   on success exactly header(24) ++ payload(header length) was consumed. *)
From Coq Require Import NArith ZArith List Bool Lia ZifyBool ZifyN ZifyNat.
From BHS Require Import Sha256 WireBase WireBaseProofs WireMsg WireMsgProofs WireFrame WireSpec WireSpecProofs WireFrameProofs.
Import ListNotations.
Open Scope N_scope.

Definition sfx (bs r : bytes) : Prop := exists u, bs = u ++ r.

Lemma sfx_refl : forall bs, sfx bs bs.
Proof. intros bs. exists []. reflexivity. Qed.

Lemma sfx_trans : forall a b c, sfx a b -> sfx b c -> sfx a c.
Proof. intros a b c [u Hu] [v Hv]. exists (u ++ v). subst. rewrite app_assoc. reflexivity. Qed.

Lemma sfx_nil : forall bs, sfx bs [].
Proof. intros bs. exists bs. rewrite app_nil_r. reflexivity. Qed.

Lemma sfx_cons : forall b bs, sfx (b :: bs) bs.
Proof. intros b bs. exists [b]. reflexivity. Qed.

Lemma sfx_skipn : forall n (bs : bytes), sfx bs (skipn n bs).
Proof. intros n bs. exists (firstn n bs). symmetry. apply firstn_skipn. Qed.

Definition sdec {A : Type} (dec : bytes -> res (A * bytes)) : Prop :=
  forall bs a r, dec bs = Ok (a, r) -> sfx bs r.

Lemma read_n_sfx : forall n, sdec (read_n n).
Proof. intros n bs a r H. apply read_n_inv in H. destruct H as [H _]. exists a. exact H. Qed.

Lemma read_N_sfx : forall n, sdec (read_N n).
Proof. intros n bs a r H. apply read_N_inv in H. destruct H as [H _]. exists a. exact H. Qed.

Lemma read_le_sfx : forall k, sdec (read_le k).
Proof.
  intros k bs v r H. unfold read_le in H. bind_inv H as a r0 E. inversion H; subst.
  eapply read_n_sfx; exact E.
Qed.

Lemma read_be_sfx : forall k, sdec (read_be k).
Proof.
  intros k bs v r H. unfold read_be in H. bind_inv H as a r0 E. inversion H; subst.
  eapply read_n_sfx; exact E.
Qed.

Lemma dec_varint_sfx : sdec dec_varint.
Proof.
  intros bs v r H. unfold dec_varint in H. bind_inv H as d r0 E0.
  apply read_le_sfx in E0.
  destruct (d =? 255).
  { bind_inv H as v8 r8 E. apply read_le_sfx in E. destruct (v8 <? 4294967296); [discriminate|].
    inversion H; subst. eapply sfx_trans; eassumption. }
  destruct (d =? 254).
  { bind_inv H as v4 r4 E. apply read_le_sfx in E. destruct (v4 <? 65536); [discriminate|].
    inversion H; subst. eapply sfx_trans; eassumption. }
  destruct (d =? 253).
  { bind_inv H as v2 r2 E. apply read_le_sfx in E. destruct (v2 <? 253); [discriminate|].
    inversion H; subst. eapply sfx_trans; eassumption. }
  inversion H; subst. exact E0.
Qed.

Lemma dec_varstring_sfx : forall mmp, sdec (dec_varstring mmp).
Proof.
  intros mmp bs s r H. unfold dec_varstring in H. bind_inv H as c r0 E0. apply dec_varint_sfx in E0.
  destruct (mmp <? c); [discriminate|]. apply read_N_sfx in H. eapply sfx_trans; eassumption.
Qed.

Lemma dec_varbytes_sfx : forall max, sdec (dec_varbytes max).
Proof.
  intros max bs s r H. unfold dec_varbytes in H. bind_inv H as c r0 E0. apply dec_varint_sfx in E0.
  destruct (max <? c); [discriminate|]. apply read_N_sfx in H. eapply sfx_trans; eassumption.
Qed.

Lemma dec_hash_sfx : sdec dec_hash.
Proof. unfold dec_hash. apply read_n_sfx. Qed.

Lemma dec_list_sfx : forall (A : Type) (dec : bytes -> res (A * bytes)), sdec dec -> forall n, sdec (dec_list dec n).
Proof.
  intros A dec Hd. induction n as [|n IH]; intros bs l r H.
  - simpl in H. inversion H; subst. apply sfx_refl.
  - cbn [dec_list] in H. bind_inv H as a r0 E0. bind_inv H as l0 r1 E1. inversion H; subst.
    apply Hd in E0. apply IH in E1. eapply sfx_trans; eassumption.
Qed.

Lemma dec_counted_sfx : forall (A : Type) (dec : bytes -> res (A * bytes)) max, sdec dec -> sdec (dec_counted max dec).
Proof.
  intros A dec max Hd bs l r H. unfold dec_counted in H. bind_inv H as c r0 E0. apply dec_varint_sfx in E0.
  destruct (max <? c); [discriminate|]. apply (dec_list_sfx A dec Hd) in H. eapply sfx_trans; eassumption.
Qed.

Lemma dec_netaddr_sfx : forall pver ts t0, sdec (dec_netaddr pver ts t0).
Proof.
  intros pver ts t0 bs na r H. unfold dec_netaddr in H.
  bind_inv H as t r0 E0.
  assert (S0 : sfx bs r0).
  { destruct (has_ts pver ts).
    - bind_inv E0 as v r0' E0'. inversion E0; subst. eapply read_le_sfx; exact E0'.
    - inversion E0; subst. apply sfx_refl. }
  bind_inv H as svc r1 E1. apply read_le_sfx in E1.
  bind_inv H as ip r2 E2. apply read_n_sfx in E2.
  bind_inv H as port r3 E3. apply read_be_sfx in E3.
  inversion H; subst.
  eapply sfx_trans; [exact S0|]. eapply sfx_trans; [exact E1|]. eapply sfx_trans; eassumption.
Qed.

Lemma dec_invvect_sfx : sdec dec_invvect.
Proof.
  intros bs iv r H. unfold dec_invvect in H.
  bind_inv H as t r0 E0. apply read_le_sfx in E0.
  bind_inv H as h r1 E1. apply dec_hash_sfx in E1. inversion H; subst. eapply sfx_trans; eassumption.
Qed.

Lemma dec_blockheader_sfx : sdec dec_blockheader.
Proof.
  intros bs h r H. unfold dec_blockheader in H.
  bind_inv H as v r0 E0. apply read_le_sfx in E0.
  bind_inv H as p r1 E1. apply dec_hash_sfx in E1.
  bind_inv H as m r2 E2. apply dec_hash_sfx in E2.
  bind_inv H as t r3 E3. apply read_le_sfx in E3.
  bind_inv H as b r4 E4. apply read_le_sfx in E4.
  bind_inv H as n r5 E5. apply read_le_sfx in E5.
  inversion H; subst.
  eapply sfx_trans; [exact E0|]. eapply sfx_trans; [exact E1|]. eapply sfx_trans; [exact E2|].
  eapply sfx_trans; [exact E3|]. eapply sfx_trans; eassumption.
Qed.

Lemma dec_header_entry_sfx : sdec dec_header_entry.
Proof.
  intros bs h r H. unfold dec_header_entry in H.
  bind_inv H as h0 r0 E0. apply dec_blockheader_sfx in E0.
  bind_inv H as txc r1 E1. apply dec_varint_sfx in E1.
  destruct (0 <? txc); [discriminate|]. inversion H; subst. eapply sfx_trans; eassumption.
Qed.

Lemma dec_locator_sfx : sdec dec_locator.
Proof.
  intros bs x r H. unfold dec_locator in H.
  bind_inv H as pv r0 E0. apply read_le_sfx in E0.
  bind_inv H as locs r1 E1. apply (dec_counted_sfx bytes dec_hash _ dec_hash_sfx) in E1.
  bind_inv H as stop r2 E2. apply dec_hash_sfx in E2.
  inversion H; subst. eapply sfx_trans; [exact E0|]. eapply sfx_trans; eassumption.
Qed.

Lemma if_more_sfx : forall (A : Type) (d : A) (dec : bytes -> res (A * bytes)) bs a r,
  sdec dec -> if_more bs d dec = Ok (a, r) -> sfx bs r.
Proof.
  intros A d dec bs a r Hd H. destruct bs as [|b bs'].
  - simpl in H. inversion H; subst. apply sfx_refl.
  - rewrite if_more_cons in H. eapply Hd; exact H.
Qed.

Lemma dec_version_head_sfx : forall pver, sdec (dec_version_head pver).
Proof.
  intros pver bs x r H. unfold dec_version_head in H.
  bind_inv H as pv r0 E0. apply read_le_sfx in E0.
  bind_inv H as svc r1 E1. apply read_le_sfx in E1.
  bind_inv H as ts r2 E2. apply read_le_sfx in E2.
  bind_inv H as you r3 E3. apply dec_netaddr_sfx in E3.
  bind_inv H as me r4 E4. apply if_more_sfx in E4; [|apply dec_netaddr_sfx].
  bind_inv H as nonce r5 E5. apply if_more_sfx in E5; [|apply read_le_sfx].
  inversion H; subst.
  eapply sfx_trans; [exact E0|]. eapply sfx_trans; [exact E1|]. eapply sfx_trans; [exact E2|].
  eapply sfx_trans; [exact E3|]. eapply sfx_trans; eassumption.
Qed.

Lemma dec_int32_sfx : sdec dec_int32.
Proof.
  intros bs z r H. unfold dec_int32 in H. bind_inv H as v r0 E0. apply read_le_sfx in E0.
  inversion H; subst. exact E0.
Qed.

Lemma dec_version_sfx : forall pver mmp, sdec (dec_version pver mmp).
Proof.
  intros pver mmp bs v r H. unfold dec_version in H.
  bind_inv H as hd r0 E0. apply dec_version_head_sfx in E0.
  destruct hd as [[[[[pv svc] ts] you] me] nonce].
  bind_inv H as ua r1 E1. apply if_more_sfx in E1; [|unfold dec_user_agent; apply dec_varbytes_sfx].
  bind_inv H as lb r2 E2. apply if_more_sfx in E2; [|apply dec_int32_sfx].
  bind_inv H as dr r3 E3.
  assert (S3 : sfx r2 r3).
  { destruct r2 as [|b r2']; inversion E3; subst; [apply sfx_refl|apply sfx_cons]. }
  inversion H; subst.
  eapply sfx_trans; [exact E0|]. eapply sfx_trans; [exact E1|]. eapply sfx_trans; eassumption.
Qed.

Lemma dec_reject_sfx : forall mmp, sdec (dec_reject mmp).
Proof.
  intros mmp bs m r H. unfold dec_reject in H.
  bind_inv H as cmd r0 E0. apply dec_varstring_sfx in E0.
  bind_inv H as code r1 E1. apply read_le_sfx in E1.
  bind_inv H as reason r2 E2. apply dec_varstring_sfx in E2.
  assert (S2 : sfx bs r2) by (eapply sfx_trans; [exact E0|]; eapply sfx_trans; eassumption).
  destruct (reject_has_hash cmd).
  - bind_inv H as h r3 E3. apply dec_hash_sfx in E3. inversion H; subst. eapply sfx_trans; eassumption.
  - inversion H; subst. exact S2.
Qed.

(* every payload decoder of the table consumes a prefix of its input *)
Theorem dec_payload_sfx : forall pver mmp k, sdec (dec_payload pver mmp k).
Proof.
  intros pver mmp k bs m r H.
  destruct k; cbn [dec_payload] in H;
    try (inversion H; subst; first [apply sfx_refl | apply sfx_nil]).
  - (* version *) bind_inv H as v r0 E. inversion H; subst. eapply dec_version_sfx; exact E.
  - (* addr *) bind_inv H as l r0 E. inversion H; subst.
    eapply (dec_counted_sfx netaddr); [apply dec_netaddr_sfx|exact E].
  - (* getblocks *) bind_inv H as x r0 E. destruct x as [[pv locs] stop]. inversion H; subst.
    eapply dec_locator_sfx; exact E.
  - bind_inv H as l r0 E. inversion H; subst. eapply (dec_counted_sfx invvect); [apply dec_invvect_sfx|exact E].
  - bind_inv H as l r0 E. inversion H; subst. eapply (dec_counted_sfx invvect); [apply dec_invvect_sfx|exact E].
  - bind_inv H as l r0 E. inversion H; subst. eapply (dec_counted_sfx invvect); [apply dec_invvect_sfx|exact E].
  - (* getheaders *) bind_inv H as x r0 E. destruct x as [[pv locs] stop]. inversion H; subst.
    eapply dec_locator_sfx; exact E.
  - (* headers *) bind_inv H as l r0 E. inversion H; subst.
    eapply (dec_counted_sfx blockheader); [apply dec_header_entry_sfx|exact E].
  - (* ping *) destruct (BIP0031Version <? pver).
    + bind_inv H as n r0 E. inversion H; subst. eapply read_le_sfx; exact E.
    + inversion H; subst. apply sfx_refl.
  - (* pong *) destruct (pver <=? BIP0031Version); [discriminate|].
    bind_inv H as n r0 E. inversion H; subst. eapply read_le_sfx; exact E.
  - (* mempool *) destruct (pver <? BIP0035Version); [discriminate|]. inversion H; subst. apply sfx_refl.
  - (* filteradd *) destruct (pver <? BIP0037Version); [discriminate|].
    bind_inv H as d r0 E. inversion H; subst. eapply dec_varbytes_sfx; exact E.
  - (* filterclear *) destruct (pver <? BIP0037Version); [discriminate|]. inversion H; subst. apply sfx_refl.
  - (* filterload *) destruct (pver <? BIP0037Version); [discriminate|]. unfold dec_filterload in H.
    bind_inv H as f r0 E0. apply dec_varbytes_sfx in E0.
    bind_inv H as h r1 E1. apply read_le_sfx in E1.
    bind_inv H as t r2 E2. apply read_le_sfx in E2.
    bind_inv H as fl r3 E3. apply read_le_sfx in E3.
    destruct (MaxFilterLoadHashFuncs <? h); [discriminate|]. inversion H; subst.
    eapply sfx_trans; [exact E0|]. eapply sfx_trans; [exact E1|]. eapply sfx_trans; eassumption.
  - (* reject *) destruct (pver <? RejectVersion); [discriminate|]. eapply dec_reject_sfx; exact H.
  - (* sendheaders *) destruct (pver <? SendHeadersVersion); [discriminate|]. inversion H; subst. apply sfx_refl.
  - (* feefilter *) destruct (pver <? FeeFilterVersion); [discriminate|].
    bind_inv H as f r0 E. inversion H; subst. eapply read_le_sfx; exact E.
  - (* protoconf *) destruct (pver <? ProtoconfVersion); [discriminate|]. inversion H; subst. apply sfx_refl.
  - (* authch *) destruct (pver <? ProtoconfVersion); [discriminate|]. inversion H; subst. apply sfx_refl.
Qed.

(* ---------- the frame reader ---------- *)

Lemma discard_sfx : forall n bs, sfx bs (discard n bs).
Proof.
  intros n bs. unfold discard. destruct (N.of_nat (length bs) <=? n); [apply sfx_nil|apply sfx_skipn].
Qed.

(* whatever ReadMessage returns, the reader is left with a suffix of the stream; an accepted frame is
   exactly 24 header bytes, then the payload of the announced length, then the rest *)
Theorem read_message_consumes : forall pver net ebs bs,
  match read_message pver net ebs bs with
  | FOk m payload rest =>
    exists h, length h = 24%nat /\ bs = h ++ payload ++ rest /\ len payload = hdr_len bs /\
              hdr_len bs <= max_message_payload ebs
  | FErr e rest => sfx bs rest
  end.
Proof.
  intros pver net ebs bs. unfold read_message.
  destruct (read_n MessageHeaderSize bs) as [[h r]|e] eqn:Hrd; [|apply sfx_nil].
  pose proof Hrd as Hinv. apply read_n_inv in Hinv. destruct Hinv as [Hbs Hlen].
  assert (Hsr : sfx bs r) by (exists h; exact Hbs).
  assert (Hl : le_dec (firstn 4 (skipn 16 h)) = hdr_len bs).
  { unfold hdr_len. rewrite Hbs. unfold MessageHeaderSize in Hlen.
    rewrite skipn_app, firstn_app, skipn_length.
    replace (16 - length h)%nat with 0%nat by lia.
    replace (4 - (length h - 16))%nat with 0%nat by lia.
    rewrite firstn_O, app_nil_r. reflexivity. }
  cbv zeta. rewrite Hl.
  destruct (N.ltb_spec (max_message_payload ebs) (hdr_len bs)) as [Hov|Hfit]; [exact Hsr|].
  assert (Hd : sfx bs (discard (hdr_len bs) r)) by (eapply sfx_trans; [exact Hsr|apply discard_sfx]).
  destruct (negb (le_dec (firstn 4 h) =? net)); [exact Hd|].
  destruct (negb (utf8_valid (trim_right (firstn CommandSize (skipn 4 h))))); [exact Hd|].
  destruct (kind_of_cmd (trim_right (firstn CommandSize (skipn 4 h)))) as [k|]; [|exact Hd].
  destruct (max_payload k pver ebs <? hdr_len bs); [exact Hd|].
  destruct (read_N (hdr_len bs) r) as [[payload rest]|e] eqn:Hrn; [|apply sfx_nil].
  apply read_N_inv in Hrn. destruct Hrn as [Hr Hpl].
  assert (Hrest : sfx bs rest) by (eapply sfx_trans; [exact Hsr|]; exists payload; exact Hr).
  destruct (negb (list_eqb (checksum payload) (skipn 20 h))); [exact Hrest|].
  destruct (dec_payload pver (max_message_payload ebs) k payload) as [[m r']|e]; [|exact Hrest].
  exists h. unfold MessageHeaderSize in Hlen. split; [exact Hlen|]. split; [rewrite Hbs, Hr; reflexivity|].
  split; [exact Hpl|exact Hfit].
Qed.
