(* C04 - concrete stores: the hypotheses of the theorems are satisfiable, and the refutation witnesses. *)
From Coq Require Import ZArith NArith List Lia Bool.
From BHS Require Import Work Store Chain ChainSpec StoreProofs ChainInv ChainAdd ChainMain ChainFields Query QueryProofs QueryAncProofs QueryCaProofs.
Import ListNotations.
Open Scope Z_scope.

(* ---- store 1: ChainMain.ex_hist.  G(1); A(2),B(3) on G; C(4) on B; orphans D(5; parent 99 unknown), E(6) on D;
        A2(7) on A wins the reorganisation back.  Rows newest first: 7 L h2 | 6 O h2 | 5 O h1 | 4 S h2 | 3 S h1 | 2 L h1 | 1 L h0 *)
Definition ex_store : store := run [8%N] 1 (ex_pl 486604799) ex_hist.

Lemma ex_valid : Valid ex_store.
Proof. destruct ex_hist_hyps as [H1 H2]. apply reachable_valid; [discriminate| exact H1| exact H2]. Qed.

Lemma ex_regular t x : by_hash ex_store t = Some x -> orph x = false -> regular ex_store t.
Proof. apply connected_regular. apply valid_wf, ex_valid. Qed.

Lemma ex_regular_7 : regular ex_store 7.
Proof. eapply ex_regular; vm_compute; reflexivity. Qed.
Lemma ex_regular_2 : regular ex_store 2.
Proof. eapply ex_regular; vm_compute; reflexivity. Qed.
Lemma ex_regular_4 : regular ex_store 4.
Proof. eapply ex_regular; vm_compute; reflexivity. Qed.

Definition res_ids (r : ares) : option (list N) := match r with AOk p => Some (map id p) | AErr _ => None end.

(* the hypotheses of ancestors_spec hold on a non-trivial store, and the answers are: *)
Example ex_ancestors :
  Valid ex_store /\ regular ex_store 7 /\
  res_ids (ancestors ex_store 7 1) = Some [7; 2; 1]%N /\         (* the path tip -> genesis *)
  res_ids (ancestors ex_store 7 2) = Some [7; 2]%N /\
  res_ids (ancestors ex_store 7 7) = Some [] /\                  (* a = b *)
  ancestors ex_store 7 3 = AErr ENotSame /\                      (* other branch, lower *)
  ancestors ex_store 2 7 = AErr EHigher /\
  ancestors ex_store 7 99 = AErr ENotFound /\
  res_ids (ancestors ex_store 6 5) = Some [6; 5]%N.              (* inside an orphan chain *)
Proof. split; [exact ex_valid|]. split; [exact ex_regular_7|]. vm_compute. repeat split; reflexivity. Qed.

Definition cres_id (c : cres) : option N := match c with COk r => Some (id r) | _ => None end.

Example ex_common :
  cres_id (common_ancestor ex_store [7; 4]%N) = Some 1%N /\       (* fork at genesis *)
  cres_id (common_ancestor ex_store [7]%N) = Some 2%N /\          (* a single header: its parent *)
  cres_id (common_ancestor ex_store [4; 3]%N) = Some 1%N /\       (* strictly below the lowest: 3 itself does not count *)
  cres_id (common_ancestor ex_store [6]%N) = Some 5%N /\          (* orphan chain *)
  common_ancestor ex_store [5]%N = CErrAnc /\                     (* orphan root: nothing below *)
  common_ancestor ex_store [7; 99]%N = CErrNotFound.
Proof. vm_compute. repeat split; reflexivity. Qed.

(* the hypotheses of common_ancestor_spec are satisfiable on a fork (7 on the Longest branch, 4 on the Stale one) *)
Example ex_common_hyps :
  Valid ex_store /\ [7; 4]%N <> [] /\ (forall t, In t [7; 4]%N -> regular ex_store t) /\
  exists hs, Forall2 (fun t r => by_hash ex_store t = Some r) [7; 4]%N hs /\ min_height hs max_int32 = 2.
Proof.
  split; [exact ex_valid|]. split; [discriminate|]. split.
  - intros t [<-|[<-|[]]]; [exact ex_regular_7| exact ex_regular_4].
  - eexists. split; [constructor; [vm_compute; reflexivity| constructor; [vm_compute; reflexivity| constructor]]|].
    vm_compute. reflexivity.
Qed.

Example ex_tips : map id (tips ex_store) = [7; 4; 6]%N.
Proof. vm_compute. reflexivity. Qed.

Example ex_by_height : map id (by_height_range ex_store 1 (Some 2)) = [2; 5; 3; 7; 6; 4]%N.
Proof. vm_compute. reflexivity. Qed.

(* history (before the fix 76f1492 of /repo): when height + count - 1 did not fit a 64-bit int the Go sum wrapped and the
   window was lost: height 2, count 2^63-1 -> end -2^63 -> nothing, although the Longest header 7 has height 2;
   height -2^63, count -5 (an EMPTY window) -> end 2^63-6 -> every stored row.  (Formerly C04_by_height_overflow_refuted.) *)
Theorem by_height_overflow_refuted_before_fix :
  exists s h c r, Valid s /\ - two63 <= h < two63 /\ - two63 <= c < two63 /\
    In r s /\ st r = Longest /\ h <= height r <= h + c - 1 /\ ~ In r (by_height_range_before_fix s h (Some c)).
Proof.
  assert (E: exists r, by_hash ex_store 7 = Some r /\ st r = Longest /\ height r = 2).
  { eexists. split; [vm_compute; reflexivity| split; reflexivity]. }
  destruct E as (r & Er & HL & Hh).
  exists ex_store, 2, (two63 - 1), r. split; [exact ex_valid|].
  split; [unfold two63; lia|]. split; [unfold two63; lia|].
  split; [apply (by_hash_in _ _ _ Er)|]. split; [exact HL|]. split; [rewrite Hh; unfold two63; lia|].
  intro Hin. destruct (proj1 (by_height_before_fix_char ex_store 2 (Some (two63 - 1)) r) Hin) as [_ [_ Hle]]. rewrite Hh in Hle.
  assert (Ew: window_end_before_fix 2 (count_of (Some (two63 - 1))) = - two63) by (vm_compute; reflexivity).
  rewrite Ew in Hle. unfold two63 in Hle. lia.
Qed.

(* the same two queries on the code as it is *)
Example by_height_overflow_fixed :
  map id (by_height_range ex_store 2 (Some (two63 - 1))) = [7; 6; 4]%N /\
  by_height_range ex_store (- two63) (Some (-5)) = [] /\
  map id (by_height_range_before_fix ex_store (- two63) (Some (-5))) = [1; 2; 5; 3; 7; 6; 4]%N.
Proof. vm_compute. repeat split; reflexivity. Qed.

(* two DIFFERENT headers of equal height: the same-chain error (before the fix ed2f6a2: the empty list) *)
Example ancestors_equal_height : ancestors ex_store 2 3 = AErr ENotSame /\ ancestors_before_fix ex_store 2 3 = AOk [].
Proof. vm_compute. split; reflexivity. Qed.

(* ---- store 2: an orphan whose parent arrives later.  A(2) on G; X(3) with parent 5 (not yet stored: orphan, height 1);
        Y(4) on X (orphan, height 2); then B(5) on A (height 2, Longest).  X keeps height 1 although its parent has height 2. ---- *)
Definition late_hist : list src := [ex_sub 2 1 545259519; ex_sub 3 5 545259519; ex_sub 4 3 545259519; ex_sub 5 2 545259519].
Definition late_store : store := run [] 1 (ex_pl 486604799) late_hist.

Lemma late_valid : Valid late_store.
Proof.
  apply reachable_valid; [discriminate| |];
    intros h Hh; repeat (destruct Hh as [<-|Hh]; [vm_compute; try reflexivity; try discriminate|]); destruct Hh.
Qed.

Lemma late_not_regular : ~ regular late_store 3.
Proof.
  intros HR.
  assert (E3: exists x, by_hash late_store 3 = Some x /\ height x = 1 /\ exists p, by_hash late_store (prev x) = Some p /\ height p = 2).
  { eexists. split; [vm_compute; reflexivity|]. split; [reflexivity|]. eexists. split; [vm_compute; reflexivity| reflexivity]. }
  destruct E3 as (x & Ex & Hx & p & Ep & Hp).
  pose proof (HR x p (reach_here _ _ _ Ex) Ep). lia.
Qed.

(* refutation 1: without height-consistency the statement fails - the stored parent of an
   orphan is refused as its ancestor *)
Theorem ancestors_late_parent_refuted :
  exists s a b rb, Valid s /\ by_hash s b = Some rb /\ reach s a rb /\
    ancestors s a b = AErr EHigher /\ ~ ancestors_answer_ok s a b (ancestors s a b).
Proof.
  assert (Eb: exists rb, by_hash late_store 5 = Some rb) by (eexists; vm_compute; reflexivity).
  destruct Eb as [rb Eb].
  assert (Hr: reach late_store 3 rb).
  { apply (walk_reach late_store 2%nat). revert Eb. vm_compute. intros Eb. inversion Eb. right. left. reflexivity. }
  exists late_store, 3%N, 5%N, rb. split; [exact late_valid|]. split; [exact Eb|]. split; [exact Hr|].
  assert (E: ancestors late_store 3 5 = AErr EHigher) by (vm_compute; reflexivity).
  split; [exact E|]. rewrite E. cbv beta iota delta [ancestors_answer_ok].
  intros (ra & rb' & _ & Eb' & Hn). apply Hn. congruence.
Qed.

(* formerly refuted, repaired in /repo by 5ab472d and 5c09f8d: the empty list is refused by the handler (400 ErrBindBody),
   and "no header strictly below the lowest given height" (the list contains genesis) is answered 400 ErrAncestorNotFound *)
Example common_ancestor_empty_fixed : forall s, common_ancestor_endpoint s [] = CBind /\ cres_status (common_ancestor_endpoint s []) = 400.
Proof. intros s. split; reflexivity. Qed.

Example common_ancestor_none_fixed :
  common_ancestor_endpoint ex_store [2; 1]%N = CNil /\ cres_status (common_ancestor_endpoint ex_store [2; 1]%N) = 400.
Proof. vm_compute. split; reflexivity. Qed.

(* refutation 2: below a late-parent orphan the lock-step walk misses the real common ancestor:
   4 -> 3 -> 5 -> 2 and 5 -> 2: header 2 (height 1) is an ancestor of both 4 and 5 (both of height 2), the answer is 404 *)
Theorem common_ancestor_late_parent_refuted :
  exists s l hs, Valid s /\ l <> [] /\ Forall2 (fun t r => by_hash s t = Some r) l hs /\
    common_ancestor s l = CErrNotFound /\ ~ common_answer_ok s l (min_height hs max_int32) (common_ancestor s l).
Proof.
  assert (E4: exists r, by_hash late_store 4 = Some r /\ height r = 2) by (eexists; split; [vm_compute; reflexivity| reflexivity]).
  assert (E5: exists r, by_hash late_store 5 = Some r /\ height r = 2) by (eexists; split; [vm_compute; reflexivity| reflexivity]).
  assert (E2: exists r, by_hash late_store 2 = Some r /\ height r = 1) by (eexists; split; [vm_compute; reflexivity| reflexivity]).
  destruct E4 as (r4 & E4 & H4). destruct E5 as (r5 & E5 & H5). destruct E2 as (r2 & E2 & H2).
  exists late_store, [4; 5]%N, [r4; r5]. split; [exact late_valid|]. split; [discriminate|]. split; [repeat constructor; assumption|].
  assert (E: common_ancestor late_store [4; 5]%N = CErrNotFound) by (vm_compute; reflexivity).
  split; [exact E|]. rewrite E. cbv beta iota delta [common_answer_ok]. intros Hn. apply Hn. exists r2. split.
  - intros t [<-|[<-|[]]].
    + apply (walk_reach late_store 4%nat). revert E2. vm_compute. intros E2'. inversion E2'. right. right. right. left. reflexivity.
    + apply (walk_reach late_store 2%nat). revert E2. vm_compute. intros E2'. inversion E2'. right. left. reflexivity.
  - cbv [min_height fold_right]. rewrite H4, H5, H2. vm_compute. reflexivity.
Qed.

(* ---- store 3: a ZERO-WORK header on the tip (ChainMain.zw_hist: G; A(2) on G; Z(3) on A with work 0).  The positive-work
        hypothesis of Valid / C01 does not hold for this history, the any-work invariant does (ChainFields.reachable_inv). ---- *)
Definition zw_store : store := run [] 1 (ex_pl 486604799) zw_hist.

Lemma zw_inv : InvSome zw_store.
Proof. apply reachable_inv; [discriminate| exact (proj1 C01_zero_work_refuted)]. Qed.

Example ex_any_work :
  InvSome zw_store /\ regular zw_store 3 /\
  map id (tips zw_store) = [3]%N /\ option_map id (tip_longest zw_store) = Some 3%N /\
  res_ids (ancestors zw_store 3 1) = Some [3; 2; 1]%N /\
  cres_id (common_ancestor zw_store [3; 2]%N) = Some 1%N.
Proof.
  split; [exact zw_inv|]. split.
  - eapply connected_regular; [apply inv_wf, zw_inv| vm_compute; reflexivity| reflexivity].
  - vm_compute. repeat split; reflexivity.
Qed.
