(* C12 - proofs about the Webhook model: closed form of the repaired notify loop, the state invariant,
   the four clauses of the property for every reachable table of the repaired model, and the
   refutations (by computed witnesses) for the code as it is and for every single missing repair. *)
From Coq Require Import ZArith List Bool Lia.
From BHS Require Import Webhook.
Import ListNotations.
Open Scope Z_scope.

(* ---------- find_row ---------- *)
Lemma find_row_some : forall u tb r, find_row u tb = Some r -> In r tb /\ r_url r = u.
Proof.
  intros u tb r Hf. unfold find_row in Hf. apply find_some in Hf. destruct Hf as [Hin Heq].
  split; [exact Hin | apply Z.eqb_eq; exact Heq].
Qed.

Lemma find_row_none_notin : forall u tb, find_row u tb = None -> ~ In u (map r_url tb).
Proof.
  intros u tb Hf Hin. apply in_map_iff in Hin. destruct Hin as [r [Hu Hr]].
  unfold find_row in Hf. pose proof (find_none _ _ Hf r Hr) as Hn. simpl in Hn.
  rewrite Hu, Z.eqb_refl in Hn. discriminate.
Qed.

Lemma notin_find_row_none : forall u tb, ~ In u (map r_url tb) -> find_row u tb = None.
Proof.
  intros u tb Hn. destruct (find_row u tb) as [r|] eqn:Hf; [|reflexivity].
  apply find_row_some in Hf. destruct Hf as [Hin Hu]. exfalso. apply Hn. rewrite <- Hu. apply in_map. exact Hin.
Qed.

Lemma find_row_cons : forall u r tb, find_row u (r :: tb) = if r_url r =? u then Some r else find_row u tb.
Proof. reflexivity. Qed.

Lemma find_row_in_nodup : forall tb r, NoDup (map r_url tb) -> In r tb -> find_row (r_url r) tb = Some r.
Proof.
  induction tb as [|a tb IH]; intros r Hnd Hin; [destruct Hin|].
  simpl in Hnd. inversion Hnd as [|x l Hnotin Hnd']; subst. rewrite find_row_cons.
  destruct Hin as [Heq | Hin].
  - subst a. rewrite Z.eqb_refl. reflexivity.
  - destruct (r_url a =? r_url r) eqn:He.
    + exfalso. apply Hnotin. apply Z.eqb_eq in He. rewrite He. apply in_map. exact Hin.
    + apply IH; assumption.
Qed.

Lemma find_row_map : forall (g : row -> row) u tb, (forall r, r_url (g r) = r_url r) ->
  find_row u (map g tb) = option_map g (find_row u tb).
Proof.
  intros g u tb Hg. induction tb as [|a tb IH]; [reflexivity|].
  simpl map. rewrite !find_row_cons. rewrite Hg. destruct (r_url a =? u); [reflexivity | exact IH].
Qed.

Lemma find_row_app : forall u tb w, find_row u (tb ++ [w]) =
  match find_row u tb with Some r => Some r | None => if r_url w =? u then Some w else None end.
Proof.
  intros u tb w. induction tb as [|a tb IH]; simpl app.
  - rewrite find_row_cons. reflexivity.
  - rewrite !find_row_cons. destruct (r_url a =? u); [reflexivity | exact IH].
Qed.

(* ---------- the repaired variant: loading is the identity, the client never rejects ---------- *)
Lemma load_fixed_id : forall r, load fixed r = r.
Proof. reflexivity. Qed.

Lemma map_load_fixed : forall tb, map (load fixed) tb = tb.
Proof. intros tb. rewrite <- (map_id tb) at 2. apply map_ext. intros a. apply load_fixed_id. Qed.

Lemma headers_of_fixed_auth : forall w, headers_of fixed w = auth_headers (r_hdr w) (r_tok w).
Proof. intros w. unfold headers_of, auth_headers. simpl. destruct (r_hdr w); reflexivity. Qed.

Lemma client_call_fixed : forall prod w f,
  client_call prod (r_url w) (headers_of fixed w) f = (Some (r_url w, auth_headers (r_hdr w) (r_tok w)), f (r_url w)).
Proof.
  intros prod w f. rewrite headers_of_fixed_auth. unfold client_call, auth_headers.
  destruct (r_hdr w); simpl; rewrite ?andb_false_r; reflexivity.
Qed.

(* ---------- closed form of the notify loop (repaired variant) ---------- *)
Definition merge (r w : row) : row :=
  mkRow (r_url r) (r_hdr r) (r_tok r) (r_errors w) (r_active w) (r_lstatus w) (r_lts w).

Lemma persist_map : forall w tb, persist w tb = map (fun r => if r_url r =? r_url w then merge r w else r) tb.
Proof. reflexivity. Qed.

Lemma update_after_url : forall mx w o now, r_url (update_after mx w o now) = r_url w.
Proof. intros. unfold update_after. destruct (is_ok o); reflexivity. Qed.
Lemma update_after_hdr : forall mx w o now, r_hdr (update_after mx w o now) = r_hdr w.
Proof. intros. unfold update_after. destruct (is_ok o); reflexivity. Qed.
Lemma update_after_tok : forall mx w o now, r_tok (update_after mx w o now) = r_tok w.
Proof. intros. unfold update_after. destruct (is_ok o); reflexivity. Qed.

Lemma merge_update_after : forall mx w o now, merge w (update_after mx w o now) = update_after mx w o now.
Proof. intros. unfold merge, update_after. destruct (is_ok o); reflexivity. Qed.

Definition post_of (r : row) : post := (r_url r, auth_headers (r_hdr r) (r_tok r)).

Definition loop_upd (mt : Z) (f : Z -> outcome) (now : Z) (l : list row) (r : row) : row :=
  match find_row (r_url r) l with
  | Some w => if r_active w then merge r (update_after mt w (f (r_url w)) now) else r
  | None => r
  end.

Lemma notify_loop_fixed_closed : forall mt prod f now l tb, NoDup (map r_url l) ->
  notify_loop fixed mt prod f now l tb = (map (loop_upd mt f now l) tb, map post_of (filter r_active l)).
Proof.
  intros mt prod f now l. induction l as [|w rest IH]; intros tb Hnd.
  - simpl. f_equal. rewrite <- (map_id tb) at 1. apply map_ext. intros a. reflexivity.
  - simpl in Hnd. inversion Hnd as [|x l' Hnotin Hnd']; subst.
    pose proof (notin_find_row_none _ _ Hnotin) as Hnone.
    simpl notify_loop. destruct (r_active w) eqn:Hact.
    + rewrite client_call_fixed. rewrite (IH _ Hnd'). simpl filter. rewrite Hact. simpl. f_equal.
      rewrite persist_map, map_map. apply map_ext. intros r.
      unfold loop_upd at 2. rewrite find_row_cons. rewrite update_after_url.
      destruct (r_url r =? r_url w) eqn:He.
      * apply Z.eqb_eq in He. unfold loop_upd. simpl r_url. rewrite He, Hnone, Z.eqb_refl, Hact.
        unfold loaded_maxtries. simpl. reflexivity.
      * rewrite Z.eqb_sym, He. reflexivity.
    + rewrite (IH _ Hnd'). simpl filter. rewrite Hact. f_equal. apply map_ext. intros r.
      unfold loop_upd at 2. rewrite find_row_cons. destruct (r_url w =? r_url r) eqn:He.
      * apply Z.eqb_eq in He. unfold loop_upd. rewrite <- He, Hnone, Hact. reflexivity.
      * reflexivity.
Qed.

Definition upd (mt : Z) (f : Z -> outcome) (now : Z) (r : row) : row :=
  if r_active r then update_after mt r (f (r_url r)) now else r.

Lemma upd_url : forall mt f now r, r_url (upd mt f now r) = r_url r.
Proof. intros. unfold upd. destruct (r_active r); [apply update_after_url | reflexivity]. Qed.

Theorem notify_fixed_closed : forall mt prod f now tb, NoDup (map r_url tb) ->
  notify fixed mt prod f now tb = (map (upd mt f now) tb, map post_of (filter r_active tb)).
Proof.
  intros mt prod f now tb Hnd. unfold notify. rewrite map_load_fixed.
  rewrite (notify_loop_fixed_closed _ _ _ _ _ _ Hnd). f_equal.
  apply map_ext_in. intros r Hin. unfold loop_upd, upd. rewrite (find_row_in_nodup _ _ Hnd Hin).
  destruct (r_active r); [apply merge_update_after | reflexivity].
Qed.

Lemma posts_to_notin : forall u l, ~ In u (map r_url l) -> posts_to u (map post_of (filter r_active l)) = [].
Proof.
  intros u l. induction l as [|a l IH]; intros Hn; [reflexivity|].
  simpl in Hn. simpl filter. assert (Ha : (r_url a =? u) = false) by (apply Z.eqb_neq; intro; apply Hn; left; assumption).
  assert (Hl : ~ In u (map r_url l)) by (intro; apply Hn; right; assumption).
  destruct (r_active a); simpl; [unfold posts_to; simpl; rewrite Ha|]; apply IH; exact Hl.
Qed.

Lemma posts_to_closed : forall u tb, NoDup (map r_url tb) ->
  posts_to u (map post_of (filter r_active tb)) =
  match find_row u tb with Some r => if r_active r then [post_of r] else [] | None => [] end.
Proof.
  intros u tb. induction tb as [|a tb IH]; intros Hnd; [reflexivity|].
  simpl in Hnd. inversion Hnd as [|x l Hnotin Hnd']; subst. rewrite find_row_cons.
  destruct (r_url a =? u) eqn:He.
  - apply Z.eqb_eq in He. subst u. simpl filter. destruct (r_active a).
    + simpl map. unfold posts_to at 1. simpl filter. rewrite Z.eqb_refl. f_equal. apply (posts_to_notin _ _ Hnotin).
    + apply (posts_to_notin _ _ Hnotin).
  - simpl filter. destruct (r_active a).
    + simpl map. unfold posts_to at 1. simpl filter. rewrite He. apply (IH Hnd').
    + apply (IH Hnd').
Qed.

(* ---------- the state invariant ---------- *)
Lemma row_ok_active_lt : forall mt r, row_ok mt r -> r_active r = true -> r_errors r < mt.
Proof.
  intros mt r [Hr Hiff] Ha. destruct (Z.eq_dec (r_errors r) mt) as [He|He].
  - apply Hiff in He. rewrite He in Ha. discriminate.
  - lia.
Qed.

Lemma row_ok_update_after : forall mt r o now, 1 <= mt -> row_ok mt r -> r_active r = true ->
  row_ok mt (update_after mt r o now).
Proof.
  intros mt r o now Hmt Hok Ha. pose proof (row_ok_active_lt _ _ Hok Ha) as Hlt. destruct Hok as [Hr _].
  unfold update_after, row_ok. destruct (is_ok o); simpl.
  - split; [lia|]. split; [discriminate | lia].
  - rewrite Ha. destruct (r_errors r + 1 >=? mt) eqn:Hge.
    + apply Z.geb_le in Hge. split; [lia|]. split; [lia | reflexivity].
    + rewrite Z.geb_leb in Hge. apply Z.leb_gt in Hge. split; [lia|]. split; [discriminate | lia].
Qed.

Lemma row_ok_fresh : forall mt u h t s l, 1 <= mt -> row_ok mt (mkRow u h t 0 true s l).
Proof. intros. unfold row_ok. simpl. split; [lia|]. split; [discriminate | lia]. Qed.

Lemma nodup_snoc : forall (l : list Z) x, NoDup l -> ~ In x l -> NoDup (l ++ [x]).
Proof.
  induction l as [|a l IH]; intros x Hnd Hn; simpl.
  - constructor; [intros [] | constructor].
  - inversion Hnd as [|y l' Hna Hnd']; subst. constructor.
    + intro Hin. apply in_app_or in Hin. destruct Hin as [Hin|[Hin|[]]]; [apply Hna; exact Hin | apply Hn; left; symmetry; exact Hin].
    + apply IH; [exact Hnd' | intro; apply Hn; right; assumption].
Qed.

Lemma table_ok_nil : forall mt, table_ok mt [].
Proof. intros. split; [constructor | constructor]. Qed.

Lemma table_ok_notify : forall mt prod f now tb, 1 <= mt -> table_ok mt tb ->
  table_ok mt (fst (notify fixed mt prod f now tb)).
Proof.
  intros mt prod f now tb Hmt [Hnd Hall]. rewrite (notify_fixed_closed _ _ _ _ _ Hnd). simpl. split.
  - rewrite map_map. erewrite map_ext; [exact Hnd|]. intros a. apply upd_url.
  - apply Forall_forall. intros x Hx. apply in_map_iff in Hx. destruct Hx as [r [Hx Hr]]. subst x.
    pose proof (proj1 (Forall_forall _ _) Hall r Hr) as Hok. unfold upd. destruct (r_active r) eqn:Ha.
    + apply row_ok_update_after; assumption.
    + exact Hok.
Qed.

Lemma persist_urls : forall w tb, map r_url (persist w tb) = map r_url tb.
Proof.
  intros w tb. rewrite persist_map, map_map. apply map_ext. intros a. destruct (r_url a =? r_url w); reflexivity.
Qed.

Lemma table_ok_register : forall mt u k h t tb, 1 <= mt -> table_ok mt tb ->
  table_ok mt (fst (register fixed u k h t tb)).
Proof.
  intros mt u k h t tb Hmt [Hnd Hall]. unfold register. destruct (find_row u tb) as [r|] eqn:Hf.
  - rewrite load_fixed_id. destruct (r_active r); [split; assumption|]. simpl fst. split.
    + rewrite persist_urls. exact Hnd.
    + rewrite persist_map. apply Forall_forall. intros x Hx. apply in_map_iff in Hx. destruct Hx as [a [Hx Ha]]. subst x.
      simpl. destruct (r_url a =? r_url r).
      * unfold merge. simpl. apply row_ok_fresh. exact Hmt.
      * apply (proj1 (Forall_forall _ _) Hall a Ha).
  - destruct (rewrite_auth k h t) as [hd tk]. simpl fst. split.
    + rewrite map_app. simpl. apply nodup_snoc; [exact Hnd | apply (find_row_none_notin _ _ Hf)].
    + apply Forall_app. split; [exact Hall|]. constructor; [apply row_ok_fresh; exact Hmt | constructor].
Qed.

Lemma table_ok_delete : forall mt u tb, table_ok mt tb -> table_ok mt (fst (delete u tb)).
Proof.
  intros mt u tb [Hnd Hall]. unfold delete. destruct (find_row u tb); [|split; assumption]. simpl fst. split.
  - clear Hall. induction tb as [|a tb IH]; [constructor|].
    simpl in Hnd. inversion Hnd as [|x l Hnotin Hnd']; subst. simpl filter.
    destruct (negb (r_url a =? u)); [|apply IH; exact Hnd'].
    simpl. constructor; [|apply IH; exact Hnd'].
    intro Hin. apply Hnotin. apply in_map_iff in Hin. destruct Hin as [r0 [Hr Hin]].
    apply filter_In in Hin. rewrite <- Hr. apply in_map. apply Hin.
  - apply Forall_forall. intros x Hx. apply filter_In in Hx. apply (proj1 (Forall_forall _ _) Hall x (proj1 Hx)).
Qed.

Lemma table_ok_step : forall mt prod now o tb, 1 <= mt -> table_ok mt tb ->
  table_ok mt (fst (fst (step fixed mt prod now o tb))).
Proof.
  intros mt prod now o tb Hmt Hok. destruct o as [u k h t|u|f| |m|]; unfold step.
  - pose proof (table_ok_register mt u k h t tb Hmt Hok) as H. destruct (register fixed u k h t tb). exact H.
  - pose proof (table_ok_delete mt u tb Hok) as H. destruct (delete u tb). exact H.
  - pose proof (table_ok_notify mt prod f now tb Hmt Hok) as H. destruct (notify fixed mt prod f now tb). exact H.
  - exact Hok.
  - exact Hok.
  - exact Hok.
Qed.

Lemma next_mt_kept : forall mt o, limit_kept mt o -> next_mt mt o = mt.
Proof. intros mt o H. destruct o; try reflexivity. exact H. Qed.

Lemma table_ok_run_from : forall mt prod ops now tb, 1 <= mt -> Forall (limit_kept mt) ops -> table_ok mt tb ->
  table_ok mt (snd (run_from fixed mt prod now ops tb)).
Proof.
  intros mt prod ops. induction ops as [|o ops IH]; intros now tb Hmt Hk Hok; [exact Hok|].
  inversion Hk as [|x l Hko Hk']; subst.
  simpl run_from. rewrite (next_mt_kept _ _ Hko). pose proof (table_ok_step mt prod now o tb Hmt Hok) as Hs.
  destruct (step fixed mt prod now o tb) as [[tb' r] ps]. simpl in Hs.
  pose proof (IH (now + 1) tb' Hmt Hk' Hs) as H. destruct (run_from fixed mt prod (now + 1) ops tb'). exact H.
Qed.

(* every table the repaired model can reach under one limit satisfies the invariant *)
Theorem table_ok_reachable : forall mt prod ops, 1 <= mt -> Forall (limit_kept mt) ops ->
  table_ok mt (table_after fixed mt prod ops).
Proof. intros mt prod ops Hmt Hk. unfold table_after, run. apply table_ok_run_from; [exact Hmt | exact Hk | apply table_ok_nil]. Qed.

(* ---------- the clauses ---------- *)
Theorem notify_clause_fixed : forall mt prod tb, 1 <= mt -> table_ok mt tb -> notify_clause fixed mt prod tb.
Proof.
  intros mt prod tb Hmt [Hnd Hall] f now u. cbv zeta. rewrite (notify_fixed_closed _ _ _ _ _ Hnd). simpl fst. simpl snd.
  rewrite (posts_to_closed _ _ Hnd). rewrite (find_row_map _ u tb (upd_url mt f now)).
  destruct (find_row u tb) as [r|] eqn:Hf; [|split; reflexivity].
  apply find_row_some in Hf. destruct Hf as [Hin Hu].
  pose proof (proj1 (Forall_forall _ _) Hall r Hin) as Hok.
  destruct (r_active r) eqn:Ha.
  - split; [unfold post_of; rewrite Hu; reflexivity|].
    simpl option_map. unfold upd. rewrite Ha. eexists. split; [reflexivity|].
    rewrite update_after_url, update_after_hdr, update_after_tok. rewrite Hu.
    pose proof (row_ok_active_lt _ _ Hok Ha) as Hlt. destruct Hok as [Hr _].
    unfold update_after. destruct (is_ok (f u)) eqn:Hk; simpl.
    + repeat split; try reflexivity; intros; discriminate.
    + rewrite Ha. repeat split; try reflexivity; try (intros; discriminate).
      * intros Hfalse. destruct (r_errors r + 1 >=? mt) eqn:Hge; [|discriminate]. apply Z.geb_le in Hge. lia.
      * intros He. rewrite He. rewrite Z.geb_leb, Z.leb_refl. reflexivity.
  - split; [reflexivity|]. simpl. unfold upd. rewrite Ha. reflexivity.
Qed.

Lemma find_row_persist : forall u w tb,
  find_row u (persist w tb) = option_map (fun r => if r_url r =? r_url w then merge r w else r) (find_row u tb).
Proof.
  intros u w tb. rewrite persist_map. apply find_row_map. intros r. destruct (r_url r =? r_url w); reflexivity.
Qed.

Theorem register_clause_fixed : forall tb, register_clause fixed tb.
Proof.
  intros tb u k h t. cbv zeta. unfold register. destruct (find_row u tb) as [r|] eqn:Hf.
  - rewrite load_fixed_id. pose proof (find_row_some _ _ _ Hf) as [Hin Hu]. destruct (r_active r) eqn:Ha.
    + simpl. split; [reflexivity | split; reflexivity].
    + simpl fst. simpl snd. split.
      * intros u' Hne. rewrite find_row_persist. simpl r_url. destruct (find_row u' tb) as [r0|] eqn:Hf0; [|reflexivity].
        simpl. apply find_row_some in Hf0. destruct Hf0 as [_ Hu0].
        assert (He : (r_url r0 =? r_url r) = false) by (apply Z.eqb_neq; lia). rewrite He. reflexivity.
      * rewrite find_row_persist, Hf. simpl. rewrite Z.eqb_refl. unfold merge. simpl. rewrite Hu.
        split; reflexivity.
  - destruct (rewrite_auth k h t) as [hd tk] eqn:Hra. simpl fst. simpl snd. split.
    + intros u' Hne. rewrite find_row_app. simpl r_url. destruct (find_row u' tb); [reflexivity|].
      assert (He : (u =? u') = false) by (apply Z.eqb_neq; lia). rewrite He. reflexivity.
    + rewrite find_row_app, Hf. simpl r_url. rewrite Z.eqb_refl. split; reflexivity.
Qed.

Lemma find_row_filter_ne : forall u u' tb, u' <> u ->
  find_row u' (filter (fun r => negb (r_url r =? u)) tb) = find_row u' tb.
Proof.
  intros u u' tb Hne. induction tb as [|a tb IH]; [reflexivity|]. simpl filter. rewrite find_row_cons.
  destruct (r_url a =? u) eqn:He; cbn [negb].
  - apply Z.eqb_eq in He. assert (He' : (r_url a =? u') = false) by (apply Z.eqb_neq; lia). rewrite He'. exact IH.
  - rewrite find_row_cons. destruct (r_url a =? u'); [reflexivity | exact IH].
Qed.

Lemma find_row_filter_eq : forall u tb, find_row u (filter (fun r => negb (r_url r =? u)) tb) = None.
Proof.
  intros u tb. induction tb as [|a tb IH]; [reflexivity|]. simpl filter.
  destruct (r_url a =? u) eqn:He; cbn [negb]; [exact IH|]. rewrite find_row_cons, He. exact IH.
Qed.

Theorem delete_clause_all : forall tb, delete_clause tb.
Proof.
  intros tb u. cbv zeta. unfold delete. destruct (find_row u tb) as [r|] eqn:Hf; simpl fst; simpl snd.
  - split; [intros u' Hne; apply find_row_filter_ne; exact Hne|]. split; [apply find_row_filter_eq | reflexivity].
  - split; [reflexivity|]. split; [exact Hf | reflexivity].
Qed.

Theorem get_clause_fixed : forall tb, get_clause fixed tb.
Proof.
  intros tb u. split; [|reflexivity]. unfold get. destruct (find_row u tb); reflexivity.
Qed.

(* ---------- C12_main ---------- *)
Theorem C12_statement_fixed : C12_statement fixed.
Proof.
  intros mt prod ops Hmt Hk tb. pose proof (table_ok_reachable mt prod ops Hmt Hk) as Hok. fold tb in Hok.
  split; [exact Hok|]. split; [apply notify_clause_fixed; assumption|].
  split; [apply register_clause_fixed|]. split; [apply delete_clause_all | apply get_clause_fixed].
Qed.

(* ---------- refutations: the code as it is, and every single missing repair ---------- *)
Definition w_reg_bearer : list op := [OpRegister 0 KBearer 0 1].
Definition w_reg_none : list op := [OpRegister 0 KNone 0 0].
Definition w_reg_notify_ok : list op := [OpRegister 0 KBearer 0 1; OpNotify (fun _ => OStatus 200)].

(* without repair C12-1: max_tries = 3, one failed delivery, and the webhook is inactive with count 1 *)
Lemma maxtries_refuted_gen : forall b2 b3, ~ C12_statement (mkFixes false b2 b3).
Proof.
  intros b2 b3 H. specialize (H 3 false w_reg_bearer ltac:(lia) ltac:(repeat constructor)). cbv zeta in H.
  destruct H as (_ & Hn & _). specialize (Hn (fun _ => OStatus 503) 2 0). cbv zeta in Hn.
  destruct b2, b3; vm_compute in Hn; destruct Hn as (_ & r' & Hr' & _ & _ & _ & _ & _ & _ & Hbad);
    injection Hr' as Hr'; subst r'; destruct (Hbad eq_refl) as (_ & Hiff & _); specialize (Hiff eq_refl); discriminate.
Qed.

(* without repair C12-2: after a delivered event GET still reports "" / never, although the row has the attempt *)
Lemma lastemit_refuted_gen : forall b1 b3, ~ C12_statement (mkFixes b1 false b3).
Proof.
  intros b1 b3 H. specialize (H 3 false w_reg_notify_ok ltac:(lia) ltac:(repeat constructor)). cbv zeta in H.
  destruct H as (_ & _ & _ & _ & Hg). specialize (Hg 0). destruct Hg as [Hg _].
  destruct b1, b3; vm_compute in Hg; discriminate.
Qed.

(* without repair C12-3, production client: an active webhook without authorisation receives no POST *)
Lemma noauth_refuted_prod_gen : forall b1 b2, ~ C12_statement (mkFixes b1 b2 false).
Proof.
  intros b1 b2 H. specialize (H 3 true w_reg_none ltac:(lia) ltac:(repeat constructor)). cbv zeta in H.
  destruct H as (_ & Hn & _). specialize (Hn (fun _ => OStatus 200) 2 0). cbv zeta in Hn.
  destruct b1, b2; vm_compute in Hn; destruct Hn as (Hp & _); discriminate.
Qed.

(* without repair C12-3, scripted client: the POST of a webhook without authorisation carries the pair ""="" *)
Lemma noauth_refuted_scripted_gen : forall b1 b2,
  ~ (forall ops, notify_clause (mkFixes b1 b2 false) 3 false (table_after (mkFixes b1 b2 false) 3 false ops)).
Proof.
  intros b1 b2 H. specialize (H w_reg_none (fun _ => OStatus 200) 2 0). cbv zeta in H.
  destruct b1, b2; vm_compute in H; destruct H as (Hp & _); discriminate.
Qed.

Theorem faithful_refuted_maxtries : ~ C12_statement faithful.
Proof. exact (maxtries_refuted_gen false false). Qed.
Theorem faithful_refuted_lastemit : ~ C12_statement faithful.
Proof. exact (lastemit_refuted_gen false false). Qed.
Theorem faithful_refuted_noauth : ~ C12_statement faithful.
Proof. exact (noauth_refuted_prod_gen false false). Qed.

(* every one of the three repairs is necessary: with the other two applied the statement is still false *)
Theorem only_maxtries_missing_refuted : ~ C12_statement (mkFixes false true true).
Proof. exact (maxtries_refuted_gen true true). Qed.
Theorem only_lastemit_missing_refuted : ~ C12_statement (mkFixes true false true).
Proof. exact (lastemit_refuted_gen true true). Qed.
Theorem only_skipempty_missing_refuted : ~ C12_statement (mkFixes true true false).
Proof. exact (noauth_refuted_prod_gen true true). Qed.

(* the concrete observations of the defects on the faithful model (what the harness sees on /repo) *)
Definition fail503 : Z -> outcome := fun _ => OStatus 503.
Definition ok200 : Z -> outcome := fun _ => OStatus 200.

Example faithful_one_failure_deactivates :
  map (get faithful 0) [table_after faithful 3 false [OpRegister 0 KBearer 0 1; OpNotify fail503]]
  = [Some (1, false, SNone, 0)].
Proof. vm_compute. reflexivity. Qed.

Example faithful_row_has_attempt_but_get_hides_it :
  let tb := table_after faithful 3 false w_reg_notify_ok in
  option_map view_of (find_row 0 tb) = Some (0, true, SOut (OStatus 200), 2) /\ get faithful 0 tb = Some (0, true, SNone, 0).
Proof. vm_compute. split; reflexivity. Qed.

Example faithful_noauth_prod_no_post :
  fst (run faithful 3 true [OpRegister 0 KNone 0 0; OpNotify ok200])
  = [ (RespRow (0, true, SNone, 0), [], [Some (0, true, SNone, 0); None; None; None]);
      (RespNone, [], [Some (1, false, SNone, 0); None; None; None]) ].
Proof. vm_compute. reflexivity. Qed.

(* the spec oracle gives exactly the narrow classes on these runs, and accepts the repaired runs *)
Example oracle_class_maxtries :
  let ops := [OpRegister 0 KBearer 0 1; OpNotify fail503] in
  oracle 3 false ops (fst (run (mkFixes false true true) 3 false ops)) = [(2, FDeactivatedBeforeMax)].
Proof. vm_compute. reflexivity. Qed.
Example oracle_class_lastemit :
  oracle 3 false w_reg_notify_ok (fst (run (mkFixes true false true) 3 false w_reg_notify_ok)) = [(2, FLastEmitNotReported)].
Proof. vm_compute. reflexivity. Qed.
Example oracle_class_noauth_prod :
  let ops := [OpRegister 0 KNone 0 0; OpNotify fail503] in
  oracle 3 true ops (fst (run (mkFixes true true false) 3 true ops)) = [(2, FNoauthNotPosted)].
Proof. vm_compute. reflexivity. Qed.
Example oracle_class_noauth_scripted :
  let ops := [OpRegister 0 KNone 0 0; OpNotify ok200] in
  oracle 3 false ops (fst (run (mkFixes true true false) 3 false ops)) = [(2, FNoauthEmptyHeaderName)].
Proof. vm_compute. reflexivity. Qed.

Definition sample_ops : list op :=
  [OpRegister 0 KBearer 0 1; OpRegister 1 KCustom 2 3; OpRegister 2 KNone 0 0;
   OpNotify (fun u => if u =? 0 then OStatus 503 else if u =? 1 then OTransport else OStatus 200);
   OpNotify (fun u => if u =? 0 then OBody else OStatus 200);
   OpRestart;
   OpNotify (fun u => if u =? 2 then OStatus 404 else OStatus 200);
   OpRegister 0 KCustom 1 1; OpBad; OpRegister 1 KNone 0 0; OpDelete 2; OpDelete 2;
   OpNotify fail503; OpNotify fail503; OpRestart].

Example oracle_accepts_fixed_sample :
  oracle 2 false sample_ops (fst (run_fixed 2 false sample_ops)) = [] /\
  oracle 2 true sample_ops (fst (run_fixed 2 true sample_ops)) = [] /\
  oracle 5 true sample_ops (fst (run_fixed 5 true sample_ops)) = [].
Proof. vm_compute. repeat split; reflexivity. Qed.

(* the hypotheses of C12_main are satisfiable on a non-trivial reachable state: two webhooks, one of them one
   failure away from max_tries = 2, one inactive; the next failing event deactivates exactly the first *)
Example C12_nontrivial_state :
  let ops := [OpRegister 0 KBearer 0 1; OpRegister 1 KCustom 2 3; OpRegister 2 KNone 0 0;
              OpNotify (fun u => if u =? 0 then OStatus 503 else if u =? 1 then OTransport else OStatus 200);
              OpNotify (fun u => if u =? 0 then OStatus 200 else if u =? 1 then OTransport else OStatus 200);
              OpNotify (fun u => if u =? 0 then OBody else OStatus 200)] in
  let tb := table_after_fixed 2 true ops in
  tb = [mkRow 0 HAuthorization (TBearer 1) 1 true (SOut OBody) 6;
        mkRow 1 (HCustom 2) (TRaw 3) 2 false (SOut OTransport) 5;
        mkRow 2 HEmpty TEmpty 0 true (SOut (OStatus 200)) 6] /\
  notify_fixed 2 true fail503 7 tb =
    ([mkRow 0 HAuthorization (TBearer 1) 2 false (SOut (OStatus 503)) 7;
      mkRow 1 (HCustom 2) (TRaw 3) 2 false (SOut OTransport) 5;
      mkRow 2 HEmpty TEmpty 1 true (SOut (OStatus 503)) 7],
     [(0, [(HAuthorization, TBearer 1)]); (2, [])]).
Proof. vm_compute. split; reflexivity. Qed.

(* ---------- trace level: a streak of failed deliveries ---------- *)
Lemma posts_to_app : forall u a b, posts_to u (a ++ b) = posts_to u a ++ posts_to u b.
Proof. intros. unfold posts_to. apply filter_app. Qed.

Lemma notify_seq_cons : forall fx mt prod ev rest tb,
  notify_seq fx mt prod (ev :: rest) tb =
  (fst (notify_seq fx mt prod rest (fst (notify fx mt prod (fst ev) (snd ev) tb))),
   snd (notify fx mt prod (fst ev) (snd ev) tb) ++ snd (notify_seq fx mt prod rest (fst (notify fx mt prod (fst ev) (snd ev) tb)))).
Proof.
  intros. simpl. destruct (notify fx mt prod (fst ev) (snd ev) tb) as [tb1 ps1]. simpl.
  destruct (notify_seq fx mt prod rest tb1) as [tb2 ps2]. reflexivity.
Qed.

(* an inactive webhook is left alone by any series of events *)
Lemma inactive_stays : forall mt prod evs tb u r, 1 <= mt -> table_ok mt tb ->
  find_row u tb = Some r -> r_active r = false ->
  find_row u (fst (notify_seq fixed mt prod evs tb)) = Some r /\ posts_to u (snd (notify_seq fixed mt prod evs tb)) = [].
Proof.
  intros mt prod evs. induction evs as [|ev rest IH]; intros tb u r Hmt Hok Hf Ha.
  - simpl. split; [exact Hf | reflexivity].
  - rewrite notify_seq_cons. simpl fst. simpl snd.
    pose proof (notify_clause_fixed mt prod tb Hmt Hok (fst ev) (snd ev) u) as Hc. cbv zeta in Hc.
    rewrite Hf, Ha in Hc. destruct Hc as [Hp Hf1].
    pose proof (table_ok_notify mt prod (fst ev) (snd ev) tb Hmt Hok) as Hok1.
    destruct (IH _ u r Hmt Hok1 Hf1 Ha) as [Hf2 Hp2]. split; [exact Hf2|].
    rewrite posts_to_app, Hp, Hp2. reflexivity.
Qed.

(* n consecutive failed deliveries to an active webhook with count e: the count climbs to min(e+n, max_tries),
   the webhook is active exactly while e+n < max_tries, and it has received exactly min(n, max_tries-e) POSTs -
   i.e. it is switched off by the very event that brings the count to max_tries and is not called afterwards *)
Theorem failing_streak_fixed : forall mt prod evs tb u r, 1 <= mt -> table_ok mt tb ->
  find_row u tb = Some r -> r_active r = true ->
  Forall (fun ev => is_ok (fst ev u) = false) evs ->
  let n := Z.of_nat (length evs) in
  exists r', find_row u (fst (notify_seq fixed mt prod evs tb)) = Some r' /\
    r_errors r' = Z.min (r_errors r + n) mt /\
    r_active r' = (r_errors r + n <? mt) /\
    r_hdr r' = r_hdr r /\ r_tok r' = r_tok r /\
    Z.of_nat (length (posts_to u (snd (notify_seq fixed mt prod evs tb)))) = Z.min n (mt - r_errors r).
Proof.
  intros mt prod evs. induction evs as [|ev rest IH]; intros tb u r Hmt Hok Hf Ha Hall; cbv zeta.
  - pose proof (proj2 Hok) as Hrows. pose proof (find_row_some _ _ _ Hf) as [Hin _].
    pose proof (proj1 (Forall_forall _ _) Hrows r Hin) as Hrok.
    pose proof (row_ok_active_lt _ _ Hrok Ha) as Hlt. destruct Hrok as [Hr _].
    exists r. simpl. split; [exact Hf|]. split; [lia|]. split; [|split; [reflexivity | split; [reflexivity | lia]]].
    rewrite Ha. symmetry. apply Z.ltb_lt. lia.
  - rewrite notify_seq_cons. simpl fst. simpl snd.
    inversion Hall as [|x l Hev Hrest]; subst.
    pose proof (proj2 Hok) as Hrows. pose proof (find_row_some _ _ _ Hf) as [Hin _].
    pose proof (proj1 (Forall_forall _ _) Hrows r Hin) as Hrok.
    pose proof (row_ok_active_lt _ _ Hrok Ha) as Hlt. destruct Hrok as [Hr _].
    pose proof (notify_clause_fixed mt prod tb Hmt Hok (fst ev) (snd ev) u) as Hc. cbv zeta in Hc.
    rewrite Hf, Ha in Hc. destruct Hc as [Hp (r1 & Hf1 & _ & Hh1 & Ht1 & _ & _ & _ & Hbad)].
    destruct (Hbad Hev) as [He1 Hiff].
    pose proof (table_ok_notify mt prod (fst ev) (snd ev) tb Hmt Hok) as Hok1.
    rewrite posts_to_app, Hp, app_length. simpl length. rewrite Nat2Z.inj_succ.
    destruct (r_active r1) eqn:Ha1.
    + assert (Hne : r_errors r + 1 <> mt) by (intro Heq; apply Hiff in Heq; discriminate).
      destruct (IH _ u r1 Hmt Hok1 Hf1 Ha1 Hrest) as (r' & Hf' & He' & Ha' & Hh' & Ht' & Hp').
      cbv zeta in *. exists r'. split; [exact Hf'|]. rewrite He', Ha', Hh', Ht', He1, Hh1, Ht1.
      split; [lia|]. split; [f_equal; lia|]. split; [reflexivity|]. split; [reflexivity|].
      rewrite Nat2Z.inj_add. simpl Z.of_nat at 1. rewrite Hp', He1. lia.
    + assert (Heq : r_errors r + 1 = mt) by (apply Hiff; reflexivity).
      destruct (inactive_stays mt prod rest _ u r1 Hmt Hok1 Hf1 Ha1) as [Hf' Hp'].
      exists r1. split; [exact Hf'|]. rewrite Hp'. simpl length. rewrite He1, Ha1, Hh1, Ht1.
      split; [lia|]. split; [symmetry; apply Z.ltb_ge; lia|]. split; [reflexivity|]. split; [reflexivity|].
      simpl. lia.
Qed.

(* ====================================================================================================
   Restarts that CHANGE webhook.max_tries.  Nothing in the repaired model remembers a limit: the limit is an
   argument of every notify step, so all that is needed is the invariant-free form of the clauses (unique urls only)
   and passing the limit in force.
   ==================================================================================================== *)
Lemma nodup_notify : forall mt prod f now tb, NoDup (map r_url tb) ->
  NoDup (map r_url (fst (notify fixed mt prod f now tb))).
Proof.
  intros mt prod f now tb Hnd. rewrite (notify_fixed_closed _ _ _ _ _ Hnd). simpl.
  rewrite map_map. erewrite map_ext; [exact Hnd|]. intros a. apply upd_url.
Qed.

Lemma nodup_register : forall u k h t tb, NoDup (map r_url tb) -> NoDup (map r_url (fst (register fixed u k h t tb))).
Proof.
  intros u k h t tb Hnd. unfold register. destruct (find_row u tb) as [r|] eqn:Hf.
  - rewrite load_fixed_id. destruct (r_active r); [exact Hnd|]. simpl fst. rewrite persist_urls. exact Hnd.
  - destruct (rewrite_auth k h t) as [hd tk]. simpl fst. rewrite map_app. simpl.
    apply nodup_snoc; [exact Hnd | apply (find_row_none_notin _ _ Hf)].
Qed.

Lemma nodup_delete : forall u tb, NoDup (map r_url tb) -> NoDup (map r_url (fst (delete u tb))).
Proof.
  intros u tb Hnd. unfold delete. destruct (find_row u tb); [|exact Hnd]. simpl fst.
  induction tb as [|a tb IH]; [constructor|].
  simpl in Hnd. inversion Hnd as [|x l Hnotin Hnd']; subst. simpl filter.
  destruct (negb (r_url a =? u)); [|apply IH; exact Hnd'].
  simpl. constructor; [|apply IH; exact Hnd'].
  intro Hin. apply Hnotin. apply in_map_iff in Hin. destruct Hin as [r0 [Hr Hin]].
  apply filter_In in Hin. rewrite <- Hr. apply in_map. apply Hin.
Qed.

Lemma nodup_step : forall mt prod now o tb, NoDup (map r_url tb) ->
  NoDup (map r_url (fst (fst (step fixed mt prod now o tb)))).
Proof.
  intros mt prod now o tb Hnd. destruct o as [u k h t|u|f| |m|]; unfold step.
  - pose proof (nodup_register u k h t tb Hnd) as H. destruct (register fixed u k h t tb). exact H.
  - pose proof (nodup_delete u tb Hnd) as H. destruct (delete u tb). exact H.
  - pose proof (nodup_notify mt prod f now tb Hnd) as H. destruct (notify fixed mt prod f now tb). exact H.
  - exact Hnd.
  - exact Hnd.
  - exact Hnd.
Qed.

Lemma nodup_run_from : forall prod ops mt now tb, NoDup (map r_url tb) ->
  NoDup (map r_url (snd (run_from fixed mt prod now ops tb))).
Proof.
  intros prod ops. induction ops as [|o ops IH]; intros mt now tb Hnd; [exact Hnd|].
  simpl run_from. pose proof (nodup_step mt prod now o tb Hnd) as Hs.
  destruct (step fixed mt prod now o tb) as [[tb' r] ps]. simpl in Hs.
  pose proof (IH (next_mt mt o) (now + 1) tb' Hs) as H. destruct (run_from fixed (next_mt mt o) prod (now + 1) ops tb'). exact H.
Qed.

Theorem nodup_reachable : forall mt prod ops, NoDup (map r_url (table_after fixed mt prod ops)).
Proof. intros. unfold table_after, run. apply nodup_run_from. constructor. Qed.

Theorem notify_clause_any_fixed : forall mt prod tb, NoDup (map r_url tb) -> notify_clause_any fixed mt prod tb.
Proof.
  intros mt prod tb Hnd f now u. cbv zeta. rewrite (notify_fixed_closed _ _ _ _ _ Hnd). simpl fst. simpl snd.
  rewrite (posts_to_closed _ _ Hnd). rewrite (find_row_map _ u tb (upd_url mt f now)).
  destruct (find_row u tb) as [r|] eqn:Hf; [|split; reflexivity].
  apply find_row_some in Hf. destruct Hf as [Hin Hu].
  destruct (r_active r) eqn:Ha.
  - split; [unfold post_of; rewrite Hu; reflexivity|].
    simpl option_map. unfold upd. rewrite Ha. eexists. split; [reflexivity|].
    rewrite update_after_url, update_after_hdr, update_after_tok. rewrite Hu.
    unfold update_after. destruct (is_ok (f u)) eqn:Hk; simpl.
    + repeat split; try reflexivity; intros; discriminate.
    + rewrite Ha. repeat split; try reflexivity; try (intros; discriminate).
      * intros Hfalse. destruct (r_errors r + 1 >=? mt) eqn:Hge; [|discriminate]. apply Z.geb_le in Hge. lia.
      * intros He. assert (Hge : (r_errors r + 1 >=? mt) = true) by (apply Z.geb_le; lia). rewrite Hge. reflexivity.
  - split; [reflexivity|]. simpl. unfold upd. rewrite Ha. reflexivity.
Qed.

Theorem C12_statement_any_fixed : C12_statement_any fixed.
Proof.
  intros mt prod ops tb. pose proof (nodup_reachable mt prod ops) as Hnd. fold tb in Hnd.
  split; [exact Hnd|]. split; [apply notify_clause_any_fixed; exact Hnd|].
  split; [apply register_clause_fixed|]. split; [apply delete_clause_all | apply get_clause_fixed].
Qed.

Lemma inactive_stays_any : forall mt prod evs tb u r, NoDup (map r_url tb) ->
  find_row u tb = Some r -> r_active r = false ->
  find_row u (fst (notify_seq fixed mt prod evs tb)) = Some r /\ posts_to u (snd (notify_seq fixed mt prod evs tb)) = [].
Proof.
  intros mt prod evs. induction evs as [|ev rest IH]; intros tb u r Hnd Hf Ha.
  - simpl. split; [exact Hf | reflexivity].
  - rewrite notify_seq_cons. simpl fst. simpl snd.
    pose proof (notify_clause_any_fixed mt prod tb Hnd (fst ev) (snd ev) u) as Hc. cbv zeta in Hc.
    rewrite Hf, Ha in Hc. destruct Hc as [Hp Hf1].
    pose proof (nodup_notify mt prod (fst ev) (snd ev) tb Hnd) as Hnd1.
    destruct (IH _ u r Hnd1 Hf1 Ha) as [Hf2 Hp2]. split; [exact Hf2|].
    rewrite posts_to_app, Hp, Hp2. reflexivity.
Qed.

(* n consecutive failed deliveries under the limit mt to an active webhook whose count is e - WHATEVER e is (it may
   already be at or above mt when the limit was lowered by a restart): it receives k = min(n, max(1, mt - e)) POSTs,
   its count ends at e + k, and it is still active exactly when no event came or e + n < mt.  So it is switched off by
   the first failure that brings (or finds) the count at or above the limit in force, and never called afterwards. *)
Theorem failing_streak_any : forall mt prod evs tb u r, NoDup (map r_url tb) ->
  find_row u tb = Some r -> r_active r = true ->
  Forall (fun ev => is_ok (fst ev u) = false) evs ->
  let n := Z.of_nat (length evs) in
  let k := Z.min n (Z.max 1 (mt - r_errors r)) in
  exists r', find_row u (fst (notify_seq fixed mt prod evs tb)) = Some r' /\
    r_errors r' = r_errors r + k /\
    (r_active r' = true <-> (n = 0 \/ r_errors r + n < mt)) /\
    r_hdr r' = r_hdr r /\ r_tok r' = r_tok r /\
    Z.of_nat (length (posts_to u (snd (notify_seq fixed mt prod evs tb)))) = k.
Proof.
  intros mt prod evs. induction evs as [|ev rest IH]; intros tb u r Hnd Hf Ha Hall; cbv zeta.
  - exists r. simpl. split; [exact Hf|]. split; [lia|]. split; [|split; [reflexivity | split; [reflexivity | lia]]].
    split; [intros _; left; reflexivity | intros _; exact Ha].
  - rewrite notify_seq_cons. simpl fst. simpl snd.
    inversion Hall as [|x l Hev Hrest]; subst.
    pose proof (notify_clause_any_fixed mt prod tb Hnd (fst ev) (snd ev) u) as Hc. cbv zeta in Hc.
    rewrite Hf, Ha in Hc. destruct Hc as [Hp (r1 & Hf1 & _ & Hh1 & Ht1 & _ & _ & _ & Hbad)].
    destruct (Hbad Hev) as [He1 Hiff].
    pose proof (nodup_notify mt prod (fst ev) (snd ev) tb Hnd) as Hnd1.
    rewrite posts_to_app, Hp, app_length. simpl length. rewrite Nat2Z.inj_succ.
    destruct (r_active r1) eqn:Ha1.
    + assert (Hlt : r_errors r + 1 < mt).
      { destruct (Z_lt_le_dec (r_errors r + 1) mt) as [Hl|Hl]; [exact Hl|]. apply Hiff in Hl. discriminate. }
      destruct (IH _ u r1 Hnd1 Hf1 Ha1 Hrest) as (r' & Hf' & He' & Ha' & Hh' & Ht' & Hp').
      cbv zeta in *. exists r'. split; [exact Hf'|]. rewrite He', Hh', Ht', He1, Hh1, Ht1.
      split; [lia|]. split; [rewrite Ha', He1; lia|]. split; [reflexivity|]. split; [reflexivity|].
      rewrite Nat2Z.inj_add. simpl Z.of_nat at 1. rewrite Hp', He1. lia.
    + assert (Hge : mt <= r_errors r + 1) by (apply Hiff; reflexivity).
      destruct (inactive_stays_any mt prod rest _ u r1 Hnd1 Hf1 Ha1) as [Hf' Hp'].
      exists r1. split; [exact Hf'|]. rewrite Hp'. simpl length. rewrite He1, Ha1, Hh1, Ht1.
      split; [lia|]. split; [split; [discriminate | lia]|]. split; [reflexivity|]. split; [reflexivity|].
      simpl. lia.
Qed.

(* a failing streak that straddles a restart which changes the limit from mt1 to mt2: n1 failures before (the webhook is
   still active at the restart), n2 after.  After the restart only the NEW limit counts, for a webhook registered before it. *)
Theorem failing_streak_across_restart : forall mt1 mt2 prod evs1 evs2 tb u r, NoDup (map r_url tb) ->
  find_row u tb = Some r -> r_active r = true ->
  Forall (fun ev => is_ok (fst ev u) = false) evs1 -> Forall (fun ev => is_ok (fst ev u) = false) evs2 ->
  let n1 := Z.of_nat (length evs1) in
  let n2 := Z.of_nat (length evs2) in
  let e := r_errors r in
  e + n1 < mt1 -> 0 <= e ->
  let tb1 := fst (notify_seq fixed mt1 prod evs1 tb) in
  let st2 := notify_seq fixed mt2 prod evs2 (fst (fst (step fixed mt1 prod 0 (OpRestartMt mt2) tb1))) in
  let k2 := Z.min n2 (Z.max 1 (mt2 - (e + n1))) in
  exists r', find_row u (fst st2) = Some r' /\
    r_errors r' = e + n1 + k2 /\
    (r_active r' = true <-> (n2 = 0 \/ e + n1 + n2 < mt2)) /\
    Z.of_nat (length (posts_to u (snd st2))) = k2.
Proof.
  intros mt1 mt2 prod evs1 evs2 tb u r Hnd Hf Ha H1 H2 n1 n2 e Hlt He0 tb1 st2 k2.
  destruct (failing_streak_any mt1 prod evs1 tb u r Hnd Hf Ha H1) as (r1 & Hf1 & He1 & Ha1 & _ & _ & _).
  cbv zeta in He1, Ha1. fold n1 in He1, Ha1. fold e in He1, Ha1.
  assert (He1' : r_errors r1 = e + n1) by lia.
  assert (Ha1' : r_active r1 = true) by (apply Ha1; right; exact Hlt).
  assert (Hnd1 : NoDup (map r_url tb1)).
  { unfold tb1. clear -Hnd. revert tb Hnd. induction evs1 as [|ev rest IH]; intros tb Hnd; [exact Hnd|].
    rewrite notify_seq_cons. simpl fst. apply IH. apply nodup_notify. exact Hnd. }
  fold tb1 in Hf1.
  destruct (failing_streak_any mt2 prod evs2 tb1 u r1 Hnd1 Hf1 Ha1' H2) as (r' & Hf' & He' & Ha' & _ & _ & Hp').
  cbv zeta in He', Ha', Hp'. fold n2 in He', Ha', Hp'. rewrite He1' in He', Ha', Hp'. fold k2 in He', Hp'.
  exists r'. unfold st2. simpl fst at 2. unfold restart.
  split; [exact Hf'|]. split; [lia|]. split; [exact Ha' | exact Hp'].
Qed.

(* lowered 6 -> 3 with two failures before the restart: switched off by the first failure after it (count 3);
   raised 2 -> 5 with one failure before: survives its second, third and fourth failure and is switched off at the fifth;
   a webhook registered after the restart is judged by the same limit *)
Example changed_limit_sample :
  let f := fun _ : Z => OStatus 503 in
  map view_of (table_after_fixed 6 false
    [OpRegister 0 KBearer 0 1; OpNotify f; OpNotify f; OpRestartMt 3; OpRegister 1 KNone 0 0; OpNotify f; OpNotify f; OpNotify f])
  = [(3, false, SOut (OStatus 503), 6); (3, false, SOut (OStatus 503), 8)] /\
  map view_of (table_after_fixed 2 false
    [OpRegister 0 KBearer 0 1; OpNotify f; OpRestartMt 5; OpNotify f; OpNotify f; OpNotify f; OpRestart; OpNotify f; OpNotify f])
  = [(5, false, SOut (OStatus 503), 8)] /\
  limit_after 2 [OpRegister 0 KBearer 0 1; OpNotify f; OpRestartMt 5; OpNotify f; OpRestart] = 5.
Proof. vm_compute. repeat split; reflexivity. Qed.
