(* C15: with Add serialised, every interleaving of submitters and readers ends in the store of a sequential
   run (in the order the Adds started), and every tip a reader observes is the tip of a structurally valid store. *)
From Coq Require Import ZArith NArith List Bool Arith Lia.
From BHS Require Import Work Store Chain ChainSpec Crash Conc StoreProofs ChainInv ChainAdd ChainMain ChainFields ChainCrash.
Import ListNotations.
Open Scope Z_scope.

Lemma fold_prefix_is_exec s pre ws : fold_left apply_write pre s = exec s (pre ++ ws) (length pre).
Proof. unfold exec. rewrite firstn_app, Nat.sub_diag, firstn_all, firstn_O, app_nil_r. reflexivity. Qed.

Section ConcSec.
  Variables (f : list N) (hdr : nat -> option src) (s0 : store) (tip0 : N).
  Hypothesis HI0 : Inv s0 tip0.
  Hypothesis Hnz : forall t h, hdr t = Some h -> s_id h <> 0%N.

  Definition sprev (o : list nat) : store := run_from f s0 (headers_of hdr o).

  Definition J (st : cstate) : Prop :=
    c_bad st = false ->
    match c_active st with
    | None => c_order st = [] /\ c_store st = s0
    | Some (t, ws) =>
      exists o h pre, c_order st = t :: o /\ hdr t = Some h /\
                      pre ++ ws = snd (plan f (sprev o) h) /\
                      c_store st = fold_left apply_write pre (sprev o)
    end.

  Definition tips_ok (st : cstate) : Prop :=
    c_bad st = false ->
    forall x, In x (c_tips st) -> exists s' tip', Inv s' tip' /\ x = option_map id (tipB s').

  Lemma headers_nonzero o : nonzero_ids (headers_of hdr o).
  Proof.
    induction o as [|t o IH]; intros h Hh; [inversion Hh|]. cbn [headers_of] in Hh.
    destruct (hdr t) as [h'|] eqn:E; [|apply IH; exact Hh].
    apply in_app_or in Hh. destruct Hh as [Hh|[<-|[]]]; [apply IH; exact Hh| apply (Hnz t h' E)].
  Qed.

  Lemma sprev_inv o : exists tip, Inv (sprev o) tip.
  Proof.
    destruct (run_related_gen f (headers_of hdr o) s0 tip0 HI0 (headers_nonzero o)) as (tip & HI & _).
    exists tip. exact HI.
  Qed.

  Lemma sprev_cons t o h : hdr t = Some h ->
    fold_left apply_write (snd (plan f (sprev o) h)) (sprev o) = sprev (t :: o).
  Proof.
    intros Ht. unfold sprev at 3. cbn [headers_of]. rewrite Ht, run_from_app. fold (sprev o).
    unfold run_from. cbn [fold_left]. rewrite add_fst_exec, exec_all. reflexivity.
  Qed.

  (* whenever no Add is in the middle of its writes, the store is the sequential run so far *)
  Lemma store_when_idle st : J st -> c_bad st = false ->
    match c_active st with Some (_, _ :: _) => False | _ => True end -> c_store st = sprev (c_order st).
  Proof.
    intros HJ Hb Hidle. specialize (HJ Hb). destruct (c_active st) as [[t ws]|].
    - destruct ws as [|w ws]; [|contradiction].
      destruct HJ as (o & h & pre & Eo & Eh & Epre & Es). rewrite app_nil_r in Epre.
      rewrite Es, Eo, Epre. apply sprev_cons. exact Eh.
    - destruct HJ as [Eo Es]. rewrite Eo, Es. reflexivity.
  Qed.

  Lemma set_bad_J st : J (set_bad st).
  Proof. intros H. discriminate. Qed.

  Lemma activate_J st tid : J st -> J (activate f hdr st tid).
  Proof.
    intros HJ. unfold activate.
    assert (Hstart: match c_active st with Some (_, _ :: _) => False | _ => True end ->
      J match hdr tid with
        | None => set_bad st
        | Some h => if existsb (Nat.eqb tid) (c_order st) then set_bad st
                    else let '(o, ws) := plan f (c_store st) h in
                         {| c_store := c_store st; c_active := Some (tid, ws); c_order := tid :: c_order st;
                            c_outs := (tid, o) :: c_outs st; c_tips := c_tips st; c_bad := c_bad st |}
        end).
    { intros Hidle. destruct (hdr tid) as [h|] eqn:Eh; [|apply set_bad_J].
      destruct (existsb (Nat.eqb tid) (c_order st)); [apply set_bad_J|].
      destruct (plan f (c_store st) h) as [o ws] eqn:Ep. intros Hb. cbn [c_bad] in Hb. cbn [c_active c_order c_store].
      exists (c_order st), h, []. split; [reflexivity|]. split; [exact Eh|].
      rewrite <- (store_when_idle st HJ Hb Hidle), Ep. split; reflexivity. }
    destruct (c_active st) as [[t ws]|] eqn:Ea.
    - destruct (Nat.eqb t tid); [exact HJ|]. destruct ws as [|w ws]; [apply Hstart; exact I| apply set_bad_J].
    - apply Hstart. exact I.
  Qed.

  Lemma cstep_J st ev : J st -> J (cstep f hdr st ev).
  Proof.
    intros HJ. destruct ev as [tid k]. unfold cstep. destruct tid as [|n].
    - destruct k; exact HJ.
    - pose proof (activate_J st (S n) HJ) as HJ1. set (st1 := activate f hdr st (S n)) in *.
      destruct k; try exact HJ1.
      destruct (c_active st1) as [[t [|w ws]]|] eqn:Ea; try apply set_bad_J.
      intros Hb. cbn [c_bad] in Hb. cbn [c_active c_order c_store].
      specialize (HJ1 Hb). rewrite Ea in HJ1. destruct HJ1 as (o & h & pre & Eo & Eh & Epre & Es).
      exists o, h, (pre ++ [w]). split; [exact Eo|]. split; [exact Eh|]. split.
      + rewrite <- app_assoc. exact Epre.
      + rewrite fold_left_app, <- Es. reflexivity.
  Qed.

  Lemma J_store_inv st : J st -> c_bad st = false -> exists tip, Inv (c_store st) tip.
  Proof.
    intros HJ Hb. specialize (HJ Hb). destruct (c_active st) as [[t ws]|].
    - destruct HJ as (o & h & pre & Eo & Eh & Epre & Es).
      destruct (sprev_inv o) as [tip HI].
      rewrite Es, (fold_prefix_is_exec (sprev o) pre ws), Epre.
      exact (crash_inv f (sprev o) tip h (length pre) HI (Hnz t h Eh)).
    - destruct HJ as [_ Es]. rewrite Es. exists tip0. exact HI0.
  Qed.

  Lemma activate_tips st tid : c_tips (activate f hdr st tid) = c_tips st.
  Proof.
    unfold activate.
    assert (E: c_tips match hdr tid with
        | None => set_bad st
        | Some h => if existsb (Nat.eqb tid) (c_order st) then set_bad st
                    else let '(o, ws) := plan f (c_store st) h in
                         {| c_store := c_store st; c_active := Some (tid, ws); c_order := tid :: c_order st;
                            c_outs := (tid, o) :: c_outs st; c_tips := c_tips st; c_bad := c_bad st |}
        end = c_tips st).
    { destruct (hdr tid); [|reflexivity]. destruct (existsb _ _); [reflexivity|]. destruct (plan _ _ _). reflexivity. }
    destruct (c_active st) as [[t ws]|]; [|exact E].
    destruct (Nat.eqb t tid); [reflexivity|]. destruct ws; [exact E| reflexivity].
  Qed.

  Lemma activate_bad st tid : c_bad (activate f hdr st tid) = false -> c_bad st = false.
  Proof.
    unfold activate.
    assert (E: c_bad match hdr tid with
        | None => set_bad st
        | Some h => if existsb (Nat.eqb tid) (c_order st) then set_bad st
                    else let '(o, ws) := plan f (c_store st) h in
                         {| c_store := c_store st; c_active := Some (tid, ws); c_order := tid :: c_order st;
                            c_outs := (tid, o) :: c_outs st; c_tips := c_tips st; c_bad := c_bad st |}
        end = false -> c_bad st = false).
    { destruct (hdr tid); [|discriminate]. destruct (existsb _ _); [discriminate|]. destruct (plan _ _ _). cbn. auto. }
    destruct (c_active st) as [[t ws]|]; [|exact E].
    destruct (Nat.eqb t tid); [auto|]. destruct ws; [exact E| discriminate].
  Qed.

  Lemma cstep_bad st ev : c_bad (cstep f hdr st ev) = false -> c_bad st = false.
  Proof.
    destruct ev as [tid k]. unfold cstep. destruct tid as [|n]; [destruct k; cbn; auto|].
    destruct k; try apply activate_bad.
    destruct (c_active (activate f hdr st (S n))) as [[t [|w ws]]|]; try discriminate.
    cbn [c_bad]. apply activate_bad.
  Qed.

  Lemma cstep_tips st ev : J st -> tips_ok st -> tips_ok (cstep f hdr st ev).
  Proof.
    intros HJ HT Hb. pose proof (cstep_bad st ev Hb) as Hb0. specialize (HT Hb0).
    destruct ev as [tid k]. unfold cstep in *. destruct tid as [|n].
    - destruct k; try exact HT. cbn [c_tips]. intros x [<-|Hx]; [|apply HT; exact Hx].
      destruct (J_store_inv st HJ Hb0) as [tip HI]. exists (c_store st), tip. split; [exact HI| reflexivity].
    - assert (Et: c_tips match k with
                 | OpW => match c_active (activate f hdr st (S n)) with
                          | Some (t, w :: ws) =>
                            {| c_store := apply_write (c_store (activate f hdr st (S n))) w; c_active := Some (t, ws);
                               c_order := c_order (activate f hdr st (S n)); c_outs := c_outs (activate f hdr st (S n));
                               c_tips := c_tips (activate f hdr st (S n)); c_bad := c_bad (activate f hdr st (S n)) |}
                          | _ => set_bad (activate f hdr st (S n))
                          end
                 | _ => activate f hdr st (S n)
                 end = c_tips st).
      { destruct k; try apply activate_tips.
        destruct (c_active (activate f hdr st (S n))) as [[t [|w ws]]|]; cbn [c_tips set_bad]; apply activate_tips. }
      rewrite Et. exact HT.
  Qed.

  Lemma crun_J tr : forall st, J st -> tips_ok st -> J (crun f hdr st tr) /\ tips_ok (crun f hdr st tr).
  Proof.
    induction tr as [|ev tr IH]; intros st HJ HT; [split; assumption|].
    unfold crun in *. cbn [fold_left]. apply IH; [apply cstep_J; exact HJ| apply cstep_tips; assumption].
  Qed.

  Lemma cinit_J : J (cinit s0) /\ tips_ok (cinit s0).
  Proof. split; [intros _; cbn; auto| intros _ x []]. Qed.

  (* serial outcome: the final store is the sequential run of the submitted headers in the order their
     Adds started - in particular it is structurally valid (one longest-chain header per height) *)
  Theorem conc_serial_outcome tr : let st := crun f hdr (cinit s0) tr in
    c_bad st = false -> quiescent st = true -> c_store st = run_from f s0 (headers_of hdr (c_order st)).
  Proof.
    intros st Hb Hq. destruct (crun_J tr (cinit s0) (proj1 cinit_J) (proj2 cinit_J)) as [HJ _]. fold st in HJ.
    apply (store_when_idle st HJ Hb). unfold quiescent in Hq.
    destruct (c_active st) as [[t [|w ws]]|]; try exact I. discriminate.
  Qed.

  (* valid views: every tip a reader observes - also between the writes of a reorganisation - is the tip
     query of a store satisfying the structural invariant *)
  Theorem conc_reader_views tr : let cs := crun f hdr (cinit s0) tr in
    c_bad cs = false -> forall x, In x (c_tips cs) ->
    exists s' tip' t, Inv s' tip' /\ by_hash s' tip' = Some t /\ st t = Longest /\ x = Some (id t).
  Proof.
    intros st0 Hb x Hx. destruct (crun_J tr (cinit s0) (proj1 cinit_J) (proj2 cinit_J)) as [_ HT]. fold st0 in HT.
    destruct (HT Hb x Hx) as (s' & tip' & HI & Ex).
    pose proof HI as (_ & (t & Ht & _) & _).
    exists s', tip', t. split; [exact HI|]. split; [exact Ht|]. split; [apply (tip_is_L s' tip' t HI Ht)|].
    rewrite Ex, (tipB_is_tip s' tip' HI), Ht. reflexivity.
  Qed.
End ConcSec.
