(* C17 HISTORY - not part of the property theorems (props/C17.v does not depend on this file).

   database.Init before service commit 6243e75 ("a later start silently served the rows a refused
   header import left behind"), model [startup_old]: a refused import left its rows in the table and the
   next start, finding count > 0, skipped both import and validation.  The statement about later starts
   ([second_start_sound]) was false for that code; the witnesses and the general description of what
   stayed behind are kept here as regression documentation (the same inputs are in corpus/C17 and are
   now required to pass).  The theorems about the code as it is are in ExportImportProofs.v. *)
From Coq Require Import ZArith NArith List String Ascii Bool Lia.
From BHS Require Import Work ExportImport ExportImportProofs.
Import ListNotations.
Open Scope Z_scope.

Section OldStartup.
Variable hashf : src -> N.
Variable bsz : nat.
Variable ck_height : Z.
Variable ck_hash : N.
Variable genesis : xrow.
Hypothesis bsz_pos : (0 < bsz)%nat.
Let start := startup_old hashf bsz ck_height ck_hash genesis.

(* --- the defect in general: the complete batches in front of the first bad record stay, and
       the next start serves them whatever file it is given --- *)

Lemma db_insert_all_nonempty : forall rows t, t <> [] -> db_insert_all t rows <> [].
Proof.
  induction rows as [|r rows IH]; intros t Ht; [exact Ht|].
  rewrite db_insert_all_cons. apply IH. unfold db_insert.
  destruct (has_hash t (x_hash (fst (mk r)))); [exact Ht|]. destruct t; discriminate.
Qed.

Theorem old_leftovers_served : forall hdr g bad rest rows st1,
  import_recs hashf (List.length hdr) g ist0 = Ok (rows, st1) -> bad_at hashf (List.length hdr) st1 bad ->
  let left := db_insert_all [] (firstn (List.length rows / bsz * bsz) rows) in
  start true [] (Some (hdr :: g ++ bad :: rest)) = (false, left) /\
  ((bsz <= List.length rows)%nat -> left <> [] /\ forall f2, start true left f2 = (true, left)).
Proof.
  intros hdr g bad rest rows st1 H Hbad left. split.
  - unfold start, startup_old, run_import.
    rewrite (import_loop_leftovers hashf (List.length hdr) bsz _ g bad rest ist0 [] rows st1 bsz_pos H Hbad
               (Nat.lt_succ_diag_r _)).
    reflexivity.
  - intros Hle.
    assert (Hne : left <> []).
    { unfold left.
      assert (Hk : (bsz <= List.length rows / bsz * bsz)%nat).
      { assert (1 <= List.length rows / bsz)%nat by (apply Nat.div_le_lower_bound; lia). nia. }
      destruct rows as [|r rows]; [simpl in Hle; lia|].
      destruct (List.length (r :: rows) / bsz * bsz)%nat as [|k]; [lia|].
      cbn [firstn]. rewrite db_insert_all_cons. apply db_insert_all_nonempty.
      unfold db_insert. simpl. discriminate. }
    split; [exact Hne|]. intros f2. unfold start, startup_old. destruct left; [congruence|reflexivity].
Qed.

End OldStartup.

(* batches of 2; rows 1 and 2 are committed, row 3 is malformed *)
Definition demo_bad_file : file :=
  [header_line; demo_rec "7"; demo_rec "8"; demo_rec "x"; demo_rec "9"]%string.

Definition demo_left : table :=
  Eval vm_compute in snd (startup_old demo_hash 2 0 8%N demo_genesis true [] (Some demo_bad_file)).

Lemma demo_first_start :
  startup_old demo_hash 2 0 8%N demo_genesis true [] (Some demo_bad_file) = (false, demo_left).
Proof. vm_compute. reflexivity. Qed.

Lemma demo_second_start :
  startup_old demo_hash 2 0 8%N demo_genesis true demo_left (Some demo_bad_file) = (true, demo_left).
Proof. vm_compute. reflexivity. Qed.

(* the first batch (2 rows) is what stays behind *)
Lemma demo_left_rows : map (fun p => x_height (fst p)) demo_left = [0; 1].
Proof. vm_compute. reflexivity. Qed.

Theorem old_second_start_refuted_batch :
  ~ second_start_sound (startup_old demo_hash 2 0 8%N demo_genesis).
Proof.
  unfold second_start_sound. intros H.
  pose proof (H _ _ demo_first_start _ _ demo_second_start) as H3.
  rewrite demo_first_start in H3. discriminate H3.
Qed.

(* with the real batch size: a well-formed file whose block at the checkpoint height has another
   hash is refused, but every row of it stays and is served by the next start *)

Definition demo_left_all : table :=
  Eval vm_compute in snd (startup_old demo_hash 500 1 4242%N demo_genesis true [] (Some demo_good_file)).

Lemma demo_first_start_v :
  startup_old demo_hash 500 1 4242%N demo_genesis true [] (Some demo_good_file) = (false, demo_left_all).
Proof. vm_compute. reflexivity. Qed.

Lemma demo_second_start_v :
  startup_old demo_hash 500 1 4242%N demo_genesis true demo_left_all (Some demo_good_file) = (true, demo_left_all).
Proof. vm_compute. reflexivity. Qed.

Theorem old_second_start_refuted_validation :
  ~ second_start_sound (startup_old demo_hash 500 1 4242%N demo_genesis).
Proof.
  unfold second_start_sound. intros H.
  pose proof (H _ _ demo_first_start_v _ _ demo_second_start_v) as H3.
  rewrite demo_first_start_v in H3. discriminate H3.
Qed.

Theorem old_second_start_refuted :
  ~ (forall hashf bsz ckh ckhash g, (0 < bsz)%nat -> second_start_sound (startup_old hashf bsz ckh ckhash g)).
Proof. intros H. apply old_second_start_refuted_batch. apply H. lia. Qed.

Theorem old_second_start_refuted_500 :
  ~ (forall hashf ckh ckhash g, second_start_sound (startup_old hashf 500 ckh ckhash g)).
Proof. intros H. apply old_second_start_refuted_validation. apply H. Qed.


(* the same inputs on the code as it is: refused, nothing left, and refused again *)
Example now_first_start :
  startup demo_hash 2 0 8%N demo_genesis true [] (Some demo_bad_file) = (false, []) /\
  startup demo_hash 500 1 4242%N demo_genesis true [] (Some demo_good_file) = (false, []).
Proof. split; vm_compute; reflexivity. Qed.
