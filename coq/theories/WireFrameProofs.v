(* C14 proofs, part 4: the message frame.
     sha256_length            the digest has 32 bytes (so the checksum has 4)
     frame_roundtrip          ReadMessage (WriteMessage m ++ rest) = (m, payload, rest)
     must_reject_sound        wrong magic / unknown command / oversize length / bad checksum / truncated payload
                              => ReadMessage returns an error (for every byte string)
     reject_* (with the error class and what is left in the reader)
     alloc_frame_bounded      buffers requested by ReadMessage stay within the declared limit *)
From Coq Require Import NArith ZArith List Bool Lia ZifyBool ZifyN ZifyNat.
From BHS Require Import Sha256 WireBase WireBaseProofs WireMsg WireMsgProofs WireFrame WireSpec WireSpecProofs.
Import ListNotations.
Open Scope N_scope.

(* ---------- SHA-256: known answers and output length ---------- *)

Example sha256_abc : sha256 [97;98;99] =
 [0xba;0x78;0x16;0xbf;0x8f;0x01;0xcf;0xea;0x41;0x41;0x40;0xde;0x5d;0xae;0x22;0x23;
  0xb0;0x03;0x61;0xa3;0x96;0x17;0x7a;0x9c;0xb4;0x10;0xff;0x61;0xf2;0x00;0x15;0xad].
Proof. vm_compute. reflexivity. Qed.

Example sha256_empty : sha256 [] =
 [0xe3;0xb0;0xc4;0x42;0x98;0xfc;0x1c;0x14;0x9a;0xfb;0xf4;0xc8;0x99;0x6f;0xb9;0x24;
  0x27;0xae;0x41;0xe4;0x64;0x9b;0x93;0x4c;0xa4;0x95;0x99;0x1b;0x78;0x52;0xb8;0x55].
Proof. vm_compute. reflexivity. Qed.

(* the checksum of the empty payload, as in every verack frame on the network: 5d f6 e0 e2 *)
Example checksum_empty : checksum [] = [0x5d;0xf6;0xe0;0xe2].
Proof. vm_compute. reflexivity. Qed.

Lemma round_length : forall st kw, length (round st kw) = length st.
Proof.
  intros st kw. unfold round.
  destruct st as [|a [|b [|c [|d [|e [|f [|g [|h [|i t]]]]]]]]]; reflexivity.
Qed.

Lemma fold_round_length : forall l st, length (fold_left round l st) = length st.
Proof.
  induction l as [|x l IH]; intros st; [reflexivity|]. simpl. rewrite IH. apply round_length.
Qed.

Lemma compress_length : forall h bw, length (compress h bw) = length h.
Proof.
  intros h bw. unfold compress. rewrite map_length, combine_length, fold_round_length. lia.
Qed.

Lemma fold_compress_length : forall blocks h,
  length (fold_left (fun h b => compress h (words b)) blocks h) = length h.
Proof.
  induction blocks as [|b bl IH]; intros h; [reflexivity|]. simpl. rewrite IH. apply compress_length.
Qed.

Lemma flat_map_word_bytes_length : forall ws, length (flat_map word_bytes ws) = (4 * length ws)%nat.
Proof.
  induction ws as [|w ws IH]; [reflexivity|].
  cbn [flat_map length]. rewrite app_length, IH. unfold word_bytes. rewrite map_length. simpl length. lia.
Qed.

Theorem sha256_length : forall bs, length (sha256 bs) = 32%nat.
Proof.
  intros bs. unfold sha256. rewrite flat_map_word_bytes_length, fold_compress_length. reflexivity.
Qed.

Lemma checksum_length : forall p, length (checksum p) = 4%nat.
Proof.
  intros p. unfold checksum, sha256d. rewrite firstn_length, sha256_length. reflexivity.
Qed.

(* ---------- the command table ---------- *)

Lemma cmd_length : forall k, (length (cmd_bytes k) <= 12)%nat.
Proof. intros k. destruct k; simpl; lia. Qed.

Lemma pad_cmd_length : forall k, length (pad_cmd (cmd_bytes k)) = 12%nat.
Proof. intros k. destruct k; reflexivity. Qed.

Lemma trim_pad_cmd : forall k, trim_right (pad_cmd (cmd_bytes k)) = cmd_bytes k.
Proof. intros k. destruct k; reflexivity. Qed.

Lemma cmd_utf8 : forall k, utf8_valid (cmd_bytes k) = true.
Proof. intros k. destruct k; reflexivity. Qed.

Lemma kind_of_cmd_bytes : forall k, kind_of_cmd (cmd_bytes k) = Some k.
Proof. intros k. destruct k; reflexivity. Qed.

Lemma cmd_bytes_inj : forall k k', cmd_bytes k = cmd_bytes k' -> k = k'.
Proof. intros k k' H. destruct k; destruct k'; try reflexivity; discriminate H. Qed.

Lemma trim_right_spec : forall bs, exists n, bs = trim_right bs ++ repeat 0 n.
Proof.
  induction bs as [|b r IH]; [exists 0%nat; reflexivity|].
  destruct IH as [n Hn]. cbn [trim_right].
  destruct (trim_right r) as [|t0 t] eqn:Ht.
  - simpl in Hn. destruct (N.eqb_spec b 0) as [Hb|Hb].
    + subst b. exists (S n). rewrite Hn. reflexivity.
    + exists n. rewrite Hn at 1. reflexivity.
  - exists n. rewrite Hn at 1. reflexivity.
Qed.

Lemma trim_right_pad : forall raw c, length raw = 12%nat -> trim_right raw = c -> raw = pad_cmd c.
Proof.
  intros raw c Hl Ht. destruct (trim_right_spec raw) as [n Hn]. rewrite Ht in Hn.
  unfold pad_cmd, CommandSize. rewrite Hn in Hl. rewrite app_length, repeat_length in Hl.
  replace (12 - length c)%nat with n by lia. exact Hn.
Qed.

Lemma kind_of_cmd_some : forall cmd k, kind_of_cmd cmd = Some k -> cmd = cmd_bytes k.
Proof.
  intros cmd k H. unfold kind_of_cmd in H. apply find_some in H. destruct H as [_ H].
  apply list_eqb_eq in H. exact H.
Qed.

Lemma known_cmd_some : forall raw k, known_cmd raw = Some k -> raw = pad_cmd (cmd_bytes k).
Proof.
  intros raw k H. unfold known_cmd in H. apply find_some in H. destruct H as [_ H].
  apply list_eqb_eq in H. exact H.
Qed.

Lemma known_cmd_pad : forall k, known_cmd (pad_cmd (cmd_bytes k)) = Some k.
Proof. intros k. destruct k; reflexivity. Qed.

(* the trimmed-and-looked-up command of the code and the declarative table agree *)
Lemma kind_known_agree : forall raw, length raw = 12%nat -> kind_of_cmd (trim_right raw) = known_cmd raw.
Proof.
  intros raw Hl.
  destruct (kind_of_cmd (trim_right raw)) as [k|] eqn:Hk.
  - apply kind_of_cmd_some in Hk. apply (trim_right_pad raw _ Hl) in Hk. rewrite Hk.
    symmetry. apply known_cmd_pad.
  - destruct (known_cmd raw) as [k|] eqn:Hn; [|reflexivity].
    apply known_cmd_some in Hn. rewrite Hn, trim_pad_cmd, kind_of_cmd_bytes in Hk. discriminate.
Qed.

(* ---------- slicing a header ---------- *)

Lemma firstn_app_exact : forall (A : Type) n (a b : list A), length a = n -> firstn n (a ++ b) = a.
Proof.
  intros A n a b Hl. subst n. rewrite firstn_app, Nat.sub_diag, firstn_all. simpl. apply app_nil_r.
Qed.

Lemma skipn_app_exact : forall (A : Type) n (a b : list A), length a = n -> skipn n (a ++ b) = b.
Proof.
  intros A n a b Hl. subst n. rewrite skipn_app, Nat.sub_diag, skipn_all. reflexivity.
Qed.

Lemma header_parts : forall (a b c d : bytes),
  length a = 4%nat -> length b = 12%nat -> length c = 4%nat -> length d = 4%nat ->
  let h := a ++ b ++ c ++ d in
  length h = 24%nat /\ firstn 4 h = a /\ firstn CommandSize (skipn 4 h) = b /\
  firstn 4 (skipn 16 h) = c /\ skipn 20 h = d.
Proof.
  intros a b c d Ha Hb Hc Hd h. subst h. unfold CommandSize. split; [|split; [|split; [|split]]].
  - rewrite !app_length. lia.
  - apply firstn_app_exact. exact Ha.
  - rewrite (skipn_app_exact _ 4) by exact Ha. apply firstn_app_exact. exact Hb.
  - rewrite (app_assoc a b). rewrite (skipn_app_exact _ 16) by (rewrite app_length; lia).
    apply firstn_app_exact. exact Hc.
  - rewrite (app_assoc a b), (app_assoc (a ++ b) c).
    apply skipn_app_exact. rewrite !app_length. lia.
Qed.

Lemma mmp_lt : forall ebs, max_message_payload ebs < 2 ^ 32.
Proof. intros ebs. unfold max_message_payload. apply N.mod_lt. discriminate. Qed.

Local Opaque le_enc le_dec sha256d.

(* ---------- frame round trip ---------- *)

Theorem frame_roundtrip : forall pver net ebs m fr rest,
  net < 2 ^ 32 -> wf_msg pver (max_message_payload ebs) m = true ->
  write_message pver net ebs m = Ok fr ->
  read_message pver net ebs (fr ++ rest) = FOk m (enc_payload pver m) rest.
Proof.
  intros pver net ebs m fr rest Hnet Hwf Hw.
  pose proof (mmp_lt ebs) as Hmmp.
  assert (Hmmp64 : max_message_payload ebs < 2 ^ 64).
  { change (2 ^ 64) with 18446744073709551616. change (2 ^ 32) with 4294967296 in Hmmp. lia. }
  assert (Hrest : rest_ok pver m []) by (destruct m; simpl; auto).
  destruct (decode_encode pver _ m [] Hmmp64 Hwf Hrest) as [Hchk Hdec]. rewrite app_nil_r in Hdec.
  unfold write_message, enc_msg in Hw. rewrite Hchk in Hw.
  set (payload := enc_payload pver m) in *.
  destruct (N.ltb_spec (max_message_payload ebs) (len payload)) as [Hbig|Hfit]; [discriminate|].
  assert (Hl32 : len payload < 2 ^ 32) by lia.
  rewrite N.mod_small in Hw by exact Hl32.
  destruct (N.ltb_spec (max_payload (kind_of m) pver ebs) (len payload)) as [Hbig|Hfit2]; [discriminate|].
  inversion Hw; subst fr; clear Hw.
  unfold enc_frame_header.
  destruct (header_parts (le_enc 4 net) (pad_cmd (cmd_bytes (kind_of m))) (le_enc 4 (len payload)) (checksum payload))
    as [H24 [Hm [Hc [Hl Hk]]]];
    [apply le_enc_length|apply pad_cmd_length|apply le_enc_length|apply checksum_length|].
  unfold read_message.
  rewrite <- !app_assoc.
  replace (le_enc 4 net ++ pad_cmd (cmd_bytes (kind_of m)) ++ le_enc 4 (len payload) ++ checksum payload ++ payload ++ rest)
    with ((le_enc 4 net ++ pad_cmd (cmd_bytes (kind_of m)) ++ le_enc 4 (len payload) ++ checksum payload) ++ payload ++ rest)
    by (rewrite <- !app_assoc; reflexivity).
  rewrite (read_n_app' MessageHeaderSize) by exact H24.
  rewrite Hm, Hc, Hl, Hk.
  rewrite (le_dec_enc 4 net) by (rewrite pow8_4; exact Hnet).
  rewrite (le_dec_enc 4 (len payload)) by (rewrite pow8_4; exact Hl32).
  destruct (N.ltb_spec (max_message_payload ebs) (len payload)) as [Hx|_]; [lia|].
  rewrite N.eqb_refl. cbn [negb].
  rewrite trim_pad_cmd, cmd_utf8. cbn [negb]. rewrite kind_of_cmd_bytes.
  destruct (N.ltb_spec (max_payload (kind_of m) pver ebs) (len payload)) as [Hx|_]; [lia|].
  unfold len. rewrite read_N_app. rewrite list_eqb_refl. cbn [negb].
  rewrite Hdec. reflexivity.
Qed.

(* the hypotheses of frame_roundtrip are satisfiable: a getheaders request with one locator hash *)
Example frame_roundtrip_example :
  let m := MGetHeaders 70013 [repeat 7 32%nat] (repeat 0 32%nat) in
  wf_msg 70013 (max_message_payload 128000000) m = true /\
  exists fr, write_message 70013 0xe8f3e1e3 128000000 m = Ok fr /\ length fr = (24 + 69)%nat.
Proof.
  split; [vm_compute; reflexivity|]. eexists. split; [vm_compute; reflexivity|]. reflexivity.
Qed.

(* ---------- rejection ---------- *)

Lemma read_header : forall bs, 24 <= len bs ->
  read_n MessageHeaderSize bs = Ok (firstn 24 bs, skipn 24 bs) /\
  firstn 4 (firstn 24 bs) = firstn 4 bs /\
  firstn CommandSize (skipn 4 (firstn 24 bs)) = hdr_cmd bs /\
  firstn 4 (skipn 16 (firstn 24 bs)) = firstn 4 (skipn 16 bs) /\
  skipn 20 (firstn 24 bs) = hdr_ck bs /\ length (hdr_cmd bs) = 12%nat.
Proof.
  intros bs Hl. unfold len in Hl. unfold MessageHeaderSize, CommandSize, hdr_cmd, hdr_ck.
  split; [apply read_n_firstn; lia|].
  split; [rewrite firstn_firstn; reflexivity|].
  split; [rewrite <- (firstn_skipn_comm 20 4), firstn_firstn; reflexivity|].
  split; [rewrite <- (firstn_skipn_comm 8 16), firstn_firstn; reflexivity|].
  split; [rewrite <- (firstn_skipn_comm 4 20); reflexivity|].
  rewrite firstn_length, skipn_length. lia.
Qed.

Theorem must_reject_sound : forall pver net ebs bs,
  must_reject pver net ebs bs = true -> exists e r, read_message pver net ebs bs = FErr e r.
Proof.
  intros pver net ebs bs Hmr. unfold must_reject in Hmr.
  apply andb_prop in Hmr. destruct Hmr as [H24 Hmr]. apply N.leb_le in H24.
  destruct (read_header bs H24) as [Hrd [Hm [Hc [Hl [Hk Hcl]]]]].
  unfold read_message. rewrite Hrd, Hm, Hc, Hl, Hk.
  fold (hdr_magic bs). fold (hdr_len bs).
  destruct (max_message_payload ebs <? hdr_len bs) eqn:Hov; [eauto|].
  destruct (hdr_magic bs =? net) eqn:Hmg; cbn [negb]; [|eauto].
  destruct (utf8_valid (trim_right (hdr_cmd bs))); cbn [negb]; [|eauto].
  rewrite (kind_known_agree _ Hcl).
  cbn [negb orb] in Hmr.
  destruct (known_cmd (hdr_cmd bs)) as [k|]; [|eauto].
  destruct (max_payload k pver ebs <? hdr_len bs) eqn:Htm; [eauto|].
  cbn [orb] in Hmr.
  destruct (read_N (hdr_len bs) (skipn 24 bs)) as [[payload rest]|e] eqn:Hrn; [|eauto].
  apply read_N_inv in Hrn. destruct Hrn as [Hsk Hpl].
  assert (Hlen : length bs = (24 + length (skipn 24 bs))%nat) by (rewrite skipn_length; unfold len in H24; lia).
  destruct (N.ltb_spec (len bs - 24) (hdr_len bs)) as [Hshort|Hfull].
  { exfalso. unfold len in Hshort. rewrite Hsk, app_length in Hlen. lia. }
  cbn [orb] in Hmr.
  assert (Hp : firstn (N.to_nat (hdr_len bs)) (skipn 24 bs) = payload).
  { rewrite Hsk. apply firstn_app_exact. lia. }
  rewrite Hp in Hmr. rewrite Hmr. eauto.
Qed.

(* the individual clauses, with the error class and what the reader still holds *)
Theorem reject_oversize : forall pver net ebs bs, 24 <= len bs ->
  max_message_payload ebs < hdr_len bs ->
  read_message pver net ebs bs = FErr EOversize (skipn 24 bs).
Proof.
  intros pver net ebs bs H24 Hov. destruct (read_header bs H24) as [Hrd [Hm [Hc [Hl [Hk Hcl]]]]].
  unfold read_message. rewrite Hrd, Hl. fold (hdr_len bs).
  destruct (N.ltb_spec (max_message_payload ebs) (hdr_len bs)); [reflexivity|lia].
Qed.

Theorem reject_wrong_magic : forall pver net ebs bs, 24 <= len bs ->
  hdr_len bs <= max_message_payload ebs -> hdr_magic bs <> net ->
  read_message pver net ebs bs = FErr EWrongNet (discard (hdr_len bs) (skipn 24 bs)).
Proof.
  intros pver net ebs bs H24 Hov Hmg. destruct (read_header bs H24) as [Hrd [Hm [Hc [Hl [Hk Hcl]]]]].
  unfold read_message. rewrite Hrd, Hm, Hl. fold (hdr_len bs). fold (hdr_magic bs).
  destruct (N.ltb_spec (max_message_payload ebs) (hdr_len bs)); [lia|].
  destruct (N.eqb_spec (hdr_magic bs) net); [contradiction|]. reflexivity.
Qed.

Theorem reject_unknown_command : forall pver net ebs bs, 24 <= len bs ->
  hdr_len bs <= max_message_payload ebs -> hdr_magic bs = net -> known_cmd (hdr_cmd bs) = None ->
  exists e, (e = EBadCmd \/ e = EUnknownCmd) /\
            read_message pver net ebs bs = FErr e (discard (hdr_len bs) (skipn 24 bs)).
Proof.
  intros pver net ebs bs H24 Hov Hmg Hkn. destruct (read_header bs H24) as [Hrd [Hm [Hc [Hl [Hk Hcl]]]]].
  unfold read_message. rewrite Hrd, Hm, Hc, Hl. fold (hdr_len bs). fold (hdr_magic bs).
  destruct (N.ltb_spec (max_message_payload ebs) (hdr_len bs)); [lia|].
  rewrite Hmg, N.eqb_refl. cbn [negb].
  destruct (utf8_valid (trim_right (hdr_cmd bs))); cbn [negb]; [|eauto].
  rewrite (kind_known_agree _ Hcl), Hkn. eauto.
Qed.

Theorem reject_type_oversize : forall pver net ebs bs k, 24 <= len bs ->
  hdr_magic bs = net -> known_cmd (hdr_cmd bs) = Some k ->
  hdr_len bs <= max_message_payload ebs -> max_payload k pver ebs < hdr_len bs ->
  read_message pver net ebs bs = FErr ETypeMax (discard (hdr_len bs) (skipn 24 bs)).
Proof.
  intros pver net ebs bs k H24 Hmg Hkn Hov Htm. destruct (read_header bs H24) as [Hrd [Hm [Hc [Hl [Hk Hcl]]]]].
  unfold read_message. rewrite Hrd, Hm, Hc, Hl. fold (hdr_len bs). fold (hdr_magic bs).
  destruct (N.ltb_spec (max_message_payload ebs) (hdr_len bs)); [lia|].
  rewrite Hmg, N.eqb_refl. cbn [negb].
  apply known_cmd_some in Hkn. rewrite Hkn, trim_pad_cmd, cmd_utf8, kind_of_cmd_bytes. cbn [negb].
  destruct (N.ltb_spec (max_payload k pver ebs) (hdr_len bs)); [reflexivity|lia].
Qed.

Theorem reject_bad_checksum : forall pver net ebs bs k payload rest, 24 <= len bs ->
  hdr_magic bs = net -> known_cmd (hdr_cmd bs) = Some k ->
  hdr_len bs <= max_message_payload ebs -> hdr_len bs <= max_payload k pver ebs ->
  skipn 24 bs = payload ++ rest -> len payload = hdr_len bs ->
  checksum payload <> hdr_ck bs ->
  read_message pver net ebs bs = FErr EChecksum rest.
Proof.
  intros pver net ebs bs k payload rest H24 Hmg Hkn Hov Htm Hsk Hpl Hck.
  destruct (read_header bs H24) as [Hrd [Hm [Hc [Hl [Hk Hcl]]]]].
  unfold read_message. rewrite Hrd, Hm, Hc, Hl, Hk. fold (hdr_len bs). fold (hdr_magic bs).
  destruct (N.ltb_spec (max_message_payload ebs) (hdr_len bs)); [lia|].
  rewrite Hmg, N.eqb_refl. cbn [negb].
  apply known_cmd_some in Hkn. rewrite Hkn, trim_pad_cmd, cmd_utf8, kind_of_cmd_bytes. cbn [negb].
  destruct (N.ltb_spec (max_payload k pver ebs) (hdr_len bs)); [lia|].
  rewrite Hsk, <- Hpl. unfold len. rewrite read_N_app.
  destruct (list_eqb (checksum payload) (hdr_ck bs)) eqn:He; [|reflexivity].
  apply list_eqb_eq in He. contradiction.
Qed.

(* ---------- allocation of ReadMessage ---------- *)

Theorem alloc_frame_bounded : forall pver net ebs bs,
  MultipleAddressVersion <= pver ->
  alloc_frame pver net ebs bs <= alloc_limit pver ebs bs.
Proof.
  intros pver net ebs bs Hpv. unfold alloc_frame, alloc_limit.
  destruct (read_n MessageHeaderSize bs) as [[h r]|e] eqn:Hrd; [|lia].
  assert (H24 : 24 <= len bs).
  { apply read_n_inv in Hrd. destruct Hrd as [Hb Hl]. unfold len. rewrite Hb, app_length.
    unfold MessageHeaderSize in Hl. lia. }
  destruct (read_header bs H24) as [Hrd' [Hm [Hc [Hl [Hk Hcl]]]]].
  rewrite Hrd' in Hrd.
  assert (Hh : h = firstn 24 bs) by congruence. assert (Hr : r = skipn 24 bs) by congruence.
  subst h r. clear Hrd.
  cbv zeta. rewrite Hm, Hc, Hl, Hk. fold (hdr_len bs). fold (hdr_magic bs).
  rewrite (kind_known_agree _ Hcl).
  destruct (max_message_payload ebs <? hdr_len bs); [lia|].
  assert (Hmin : forall x, N.min (hdr_len bs) DiscardChunk <= N.max DiscardChunk x) by (intros; lia).
  destruct (negb (hdr_magic bs =? net) || negb (utf8_valid (trim_right (hdr_cmd bs)))).
  { destruct (known_cmd (hdr_cmd bs)); [apply Hmin|lia]. }
  destruct (known_cmd (hdr_cmd bs)) as [k|] eqn:Hkn; [|lia].
  destruct (N.ltb_spec (max_payload k pver ebs) (hdr_len bs)) as [Hbig|Hfit]; [apply Hmin|].
  destruct (read_N (hdr_len bs) (skipn 24 bs)) as [[payload rest]|e]; [|lia].
  destruct (negb (list_eqb (checksum payload) (hdr_ck bs))); [lia|].
  assert (Ha : alloc_payload pver (max_message_payload ebs) k payload <= max_payload k pver ebs).
  { apply alloc_bounded. intros _. exact Hpv. }
  lia.
Qed.

(* ---------- the hypotheses of the main theorems are satisfiable (non-trivial instances) ---------- *)

Definition ex_header : blockheader :=
  mk_bh 536870912 (repeat 1 32%nat) (repeat 2 32%nat) 1231006505%Z 0x1d00ffff 2083236893.

Example decode_encode_example_headers :
  wf_msg 70013 (max_message_payload 128000000) (MHeaders [ex_header; ex_header]) = true /\
  rest_ok 70013 (MHeaders [ex_header; ex_header]) [1; 2; 3].
Proof. split; [vm_compute; reflexivity|exact I]. Qed.

Definition ex_version : version :=
  mk_ver 70013 1 1700000000%Z (mk_na zero_time 1 (repeat 0 10%nat ++ [255;255;10;0;0;1]) 8333)
         (mk_na zero_time 0 (repeat 0 16%nat) 0) 12345 [47;98;104;115;47] (-1)%Z true.

Example decode_encode_example_version :
  wf_msg 70013 (max_message_payload 128000000) (MVersion ex_version) = true /\
  rest_ok 70013 (MVersion ex_version) [9].
Proof. split; [vm_compute; reflexivity|]. left. vm_compute. discriminate. Qed.

Example reencode_example :
  canonical_kind 70013 KInv = true /\ bytes_ok ([1] ++ le_enc 4 2 ++ repeat 7 32%nat) = true /\
  exists m, dec_payload 70013 268435456 KInv ([1] ++ le_enc 4 2 ++ repeat 7 32%nat) = Ok (m, []).
Proof. split; [reflexivity|]. split; [vm_compute; reflexivity|]. eexists. vm_compute. reflexivity. Qed.

(* a verack frame of testnet offered to a mainnet reader *)
Example must_reject_example :
  must_reject 70013 0xe8f3e1e3 128000000
    (le_enc 4 0xf4f3e5f4 ++ pad_cmd (cmd_bytes KVerAck) ++ le_enc 4 0 ++ [0x5d;0xf6;0xe0;0xe2]) = true.
Proof. vm_compute. reflexivity. Qed.

Example count_rejected_example : count_over_limit KHeaders [0xfd; 0xd1; 0x07] = true.
Proof. vm_compute. reflexivity. Qed.

Example alloc_frame_bounded_example :
  let bs := le_enc 4 0xe8f3e1e3 ++ pad_cmd (cmd_bytes KHeaders) ++ le_enc 4 162009 ++ [0;0;0;0] in
  24 <= len bs /\ known_cmd (hdr_cmd bs) = Some KHeaders /\ alloc_frame 70013 0xe8f3e1e3 128000000 bs = 162009.
Proof. split; [vm_compute; discriminate|]. split; vm_compute; reflexivity. Qed.
