(* C06: linear catch-up of the EXPERIMENTAL engine (catchup_linear_exp) - its single outbound peer is honest and
   conformant with chain C, the store's longest chain is a prefix of C, any sorted checkpoint list consistent with C
   (also none), any reply cap >= 1: the closed system runs to quiescence with longest chain = C; every step below the
   peer's height sends exactly one request whose locator starts with the tip, the step that reaches it sends sendheaders. *)
From Coq Require Import ZArith NArith List Lia Bool.
From BHS Require Import Work Store Chain ChainSpec StoreProofs ChainInv ChainReorg ChainAdd ChainMain
     SyncNode SyncDefault SyncExp SyncSys SyncSpec SyncC07Proofs SyncC06Proofs.
Import ListNotations.
Open Scope Z_scope.

Section ExpLinear.
Variables (cfg : ecfg) (gid : N) (C : list src) (p : N) (cap : nat).
Hypothesis HC : good_chain (x_forb cfg) gid C.
Hypothesis Hcps : cps_ok gid C (x_cps cfg).
Hypothesis Hsorted : sorted (x_cps cfg).
Hypothesis Hcap : (1 <= cap)%nat.
Notation ci := (cids gid C).
Notation dflt := (ex_sub 0 0 0).
Notation cps := (x_cps cfg).

Definition cur_nx (cur : cursor) : option cp := option_map snd cur.

(* the batch loop on consecutive headers of C that do not reach beyond the cursor's checkpoint *)
Lemma eloop_linear : forall m k s cur n lasth, (k + m <= length C)%nat -> Good gid C k s -> nx_ok gid C (cur_nx cur) k m ->
  exists s', Good gid C (k + m) s' /\
    eloop cfg s cur n lasth (firstn m (skipn k C)) =
    EDoneL s' (if reached (cur_nx cur) k m then next_e cps cur (match cur_nx cur with Some c => fst c | None => 0 end) else cur)
           (n + m)%nat (match m with O => lasth | S _ => Z.of_nat (k + m) end).
Proof.
  induction m as [|m IH]; intros k s cur n lasth Hkm HG Hnx.
  - exists s. split; [rewrite Nat.add_0_r; exact HG|]. cbn [firstn eloop].
    assert (Er: reached (cur_nx cur) k 0 = false) by (unfold reached; destruct (cur_nx cur) as [[H c]|]; reflexivity).
    rewrite Er, Nat.add_0_r. reflexivity.
  - assert (Hk: (k < length C)%nat) by lia.
    rewrite (skipn_nth_cons C k dflt Hk). cbn [firstn eloop].
    destruct (good_add (x_forb cfg) gid C HC k s Hk HG) as (Ha & Hh & HG1). rewrite Ha. rewrite Hh. rewrite (no_contradiction gid C cps Longest k Hcps Hk).
    set (h := nth k C dflt) in *.
    assert (Eid: s_id h = nth (S k) ci 0%N) by (symmetry; apply cids_nth; exact Hk).
    destruct cur as [[i [H cid]]|]; cbn [cur_nx option_map snd fst] in *.
    + destruct Hnx as (Hn & EH & Hle & Hcid). unfold verify_advance.
      destruct (Z.ltb_spec (Z.of_nat (S k)) H) as [Hlt|Hge].
      * destruct (IH (S k) (create_header s h :: s) (Some (i, (H, cid))) (S n) (Z.of_nat (S k)) ltac:(lia) HG1) as (s' & HG' & El).
        { cbn. exists Hn. repeat split; auto. lia. }
        exists s'. split; [replace (k + S m)%nat with (S k + m)%nat by lia; exact HG'|].
        lazy beta iota. refine (eq_trans El _). cbn [cur_nx option_map snd fst]. f_equal.
        -- unfold reached. replace (k + S m)%nat with (S k + m)%nat by lia.
           destruct m as [|m']; [|reflexivity]. cbn [Z.of_nat Z.ltb Z.compare andb].
           replace (S k + 0)%nat with (S k) by lia. destruct (Z.eqb_spec (Z.of_nat (S k)) H); [lia| reflexivity].
        -- lia.
        -- destruct m as [|m']; [f_equal; lia| f_equal; lia].
      * assert (EHk: Z.of_nat (S k) = H) by lia. assert (Em: m = O) by lia. subst m.
        rewrite EHk, Z.eqb_refl.
        assert (Ec: s_id h = cid).
        { rewrite Eid. assert (Hn = S k) by lia. subst Hn. apply nth_error_nth with (d := 0%N) in Hcid. exact Hcid. }
        rewrite Ec, N.eqb_refl. lazy beta iota. cbn [firstn eloop].
        exists (create_header s h :: s). split; [replace (k + 1)%nat with (S k) by lia; exact HG1|].
        unfold reached. replace (k + 1)%nat with (S k) by lia. rewrite EHk, Z.eqb_refl. cbn [Z.of_nat Z.ltb Z.compare andb].
        f_equal; lia.
    + cbn [verify_advance].
      destruct (IH (S k) (create_header s h :: s) None (S n) (Z.of_nat (S k)) ltac:(lia) HG1 I) as (s' & HG' & El).
      exists s'. split; [replace (k + S m)%nat with (S k + m)%nat by lia; exact HG'|].
      lazy beta iota. refine (eq_trans El _). cbn [cur_nx option_map reached]. f_equal; [lia|]. destruct m as [|m']; f_equal; lia.
Qed.

(* ---------------- the closed system ---------------- *)
Definition xeng_ok (k : nat) (st : estate) : Prop :=
  e_conn st = true /\ e_shm st = false /\ e_latest st = Z.of_nat (length C) /\
  cur_ok cps (e_cur st) /\ cur_nx (e_cur st) = least_above cps (Z.of_nat k) /\ Good gid C k (e_store st).

Definition xsys_ok (k : nat) (z : xsys) : Prop :=
  z_cfg z = cfg /\ z_gid z = gid /\ z_p z = p /\ xeng_ok k (z_eng z) /\
  n_chain (z_node z) = C /\ n_cap (z_node z) = cap /\ n_open (z_node z) = true /\ n_stalled (z_node z) = false /\
  n_out (z_node z) = [MHeaders (firstn cap (upto_stop (stop_of (cur_nx (e_cur (z_eng z)))) (skipn k C)))].

Definition xquiet (z : xsys) : bool := negb (n_open (z_node z) && match n_out (z_node z) with [] => false | _ => true end).

(* what one step shows: one request (locator head = the tip, stop = the cursor's hash or zero), or sendheaders when the
   peer's height is reached, or nothing after the empty reply *)
Definition xentry_ok (x : option xevent * list eff * estate) : Prop :=
  let '(ev, es, st) := x in
  match es with
  | [] => ev = Some (XHeaders [])
  | [GetHeaders q loc stop] => q = p /\ hd_error loc = option_map id (tipB (e_store st)) /\ stop = stop_of (cur_nx (e_cur st))
  | [SendHdrs q] => q = p /\ tip_height (e_store st) = Z.of_nat (length C)
  | _ => False
  end.

Lemma e_request_eq cur s : e_request p cur s = [GetHeaders p (locator s) (stop_of (cur_nx cur))].
Proof. destruct cur as [[i [H cid]]|]; reflexivity. Qed.

Lemma xnext_on_chain k H cid : least_above cps (Z.of_nat k) = Some (H, cid) ->
  exists Hn : nat, H = Z.of_nat Hn /\ (k < Hn)%nat /\ nth_error ci Hn = Some cid /\ (Hn <= length C)%nat.
Proof.
  intros Hl. destruct (least_above_gt _ _ _ Hl) as [Hgt Hin]. destruct (Hcps _ Hin) as (i & Ei & Hn). cbn [fst snd] in *.
  exists i. split; [exact Ei|]. split; [lia|]. split; [exact Hn|].
  assert (i < length ci)%nat by (apply nth_error_Some; congruence). rewrite cids_length in H0. lia.
Qed.

Lemma good_tip_height k s : (k <= length C)%nat -> Good gid C k s -> tip_height s = Z.of_nat k.
Proof.
  intros Hk HG. destruct (good_tip gid C k s Hk HG) as (tip & t & _ & _ & _ & HtB & _ & Hth & _). unfold tip_height. rewrite HtB. exact Hth.
Qed.

Lemma xround k z : (k <= length C)%nat -> xsys_ok k z ->
  exists z' tr, z_deliver z = (z', tr) /\ Forall xentry_ok tr /\
    (((k < length C)%nat /\ exists m, (1 <= m)%nat /\ (k + m <= length C)%nat /\
         (((k + m < length C)%nat /\ xsys_ok (k + m) z') \/
          ((k + m)%nat = length C /\ xquiet z' = true /\ Good gid C (length C) (e_store (z_eng z'))))) \/
     (k = length C /\ xquiet z' = true /\ z_eng z' = z_eng z)).
Proof.
  intros Hk (Ecfg & Egid & Ep & Heng & Hch & Hcp & Hop & Hns & Hout).
  destruct Heng as (Hconn & Hshm & Hlat & Hcok & Hnext & HG).
  set (st := z_eng z) in *. set (n := z_node z) in *.
  pose proof (reply_shape (x_forb cfg) gid C HC k [] (stop_of (cur_nx (e_cur st))) cap Hk Hcap) as (m & Em & Hkm & Hm1 & Hmstop).
  unfold reply in Em. rewrite (start_index_head (x_forb cfg) gid C HC k [] Hk) in Em.
  set (n1 := n_with n (n_chain n) (n_reserve n) true (n_used n) (n_stalled n) []).
  assert (Edel: z_deliver z = z_event (z_with z st n1) (XHeaders (firstn m (skipn k C)))).
  { unfold z_deliver. fold n. rewrite Hop, Hout. cbn [negb]. rewrite Em. reflexivity. }
  rewrite Edel. unfold z_event. cbn [z_cfg z_eng z_with z_p z_gid z_node]. rewrite Ecfg, Egid, Ep. cbn [e_step].
  destruct (Nat.eq_dec k (length C)) as [Eend|Hlt'].
  - assert (Em0: m = O) by lia. subst m. cbn [firstn].
    unfold e_on_headers. cbn [eloop].
    assert (Est: e_with st (e_cur st) (e_shm st) (e_latest st) (e_conn st) (e_store st) = st) by (destruct st; reflexivity).
    rewrite Est. cbn [xapply_effs]. eexists _, _. split; [reflexivity|]. split; [constructor; [reflexivity| constructor]|].
    right. split; [exact Eend|]. split; [|reflexivity].
    unfold xquiet. cbn [z_node z_with n1 n_with n_out]. rewrite andb_false_r. reflexivity.
  - assert (Hlt: (k < length C)%nat) by lia. specialize (Hm1 Hlt).
    assert (Hnxok: nx_ok gid C (cur_nx (e_cur st)) k m).
    { unfold nx_ok. rewrite Hnext. destruct (least_above cps (Z.of_nat k)) as [[H cid]|] eqn:El; [|exact I].
      destruct (xnext_on_chain k H cid El) as (Hn & EH & Hlt2 & Hnth & _).
      exists Hn. split; [exact EH|]. split; [|exact Hnth]. apply (Hmstop Hn Hlt2). rewrite Hnext. exact Hnth. }
    destruct (eloop_linear m k (e_store st) (e_cur st) O 0 Hkm HG Hnxok) as (s' & HG' & Eloop).
    destruct m as [|m']; [lia|]. set (m := S m') in *.
    unfold e_on_headers. rewrite Eloop. cbn [Nat.add].
    set (cur' := if reached (cur_nx (e_cur st)) k m then next_e cps (e_cur st) (match cur_nx (e_cur st) with Some c => fst c | None => 0 end) else e_cur st).
    (* the new cursor is the least checkpoint above k+m and points into the list *)
    assert (Hcur': cur_ok cps cur' /\ cur_nx cur' = least_above cps (Z.of_nat (k + m))).
    { unfold cur'. destruct (e_cur st) as [[i [H cid]]|] eqn:Ecur; cbn [cur_nx option_map snd fst] in *.
      - symmetry in Hnext. destruct (xnext_on_chain k H cid Hnext) as (Hn & EH & Hlt2 & Hnth & HnC).
        destruct Hnxok as (Hn' & EH' & Hle' & _). assert (Hn' = Hn) by lia. subst Hn'.
        unfold reached. replace (0 <? Z.of_nat m) with true by (symmetry; apply Z.ltb_lt; lia). cbn [andb].
        destruct (Z.eqb_spec (Z.of_nat (k + m)) H) as [E|E].
        + destruct (cursor_spec cps Hsorted) as (_ & _ & H3 & H4). split.
          * apply (H4 (Some (i, (H, cid))) H); [exact Hcok| reflexivity].
          * pose proof (H3 i (H, cid) Hcok) as H3'. cbn [fst] in H3'. unfold cur_nx. rewrite H3', E. reflexivity.
        + split; [exact Hcok|]. cbn [cur_nx option_map snd]. rewrite <- Hnext. symmetry.
          apply least_above_mono; [exact Hsorted| lia|]. rewrite Hnext. cbn. lia.
      - split; [exact I|]. cbn [reached cur_nx option_map]. rewrite Hnext. symmetry.
        apply least_above_mono; [exact Hsorted| lia|]. rewrite <- Hnext. exact I. }
    destruct Hcur' as [Hcok' Hnx'].
    rewrite Hshm, Hlat. rewrite (good_tip_height (k + m) s' Hkm HG').
    replace (Z.max (Z.of_nat (length C)) (Z.of_nat (k + m))) with (Z.of_nat (length C)) by lia.
    destruct (good_locator gid C (k + m) s' Hkm HG') as (lrest & Eloc & Etb). unfold tipid in Eloc, Etb.
    destruct (Z.eqb_spec (Z.of_nat (length C)) (Z.of_nat (k + m))) as [Efin|Hmore].
    + (* the peer's height is reached: sendheaders, no further request *)
      cbn [xapply_effs]. eexists _, _. split; [reflexivity|]. split.
      * constructor; [|constructor]. unfold xentry_ok. cbn [e_store e_with e_cur]. split; [reflexivity|]. rewrite (good_tip_height (k + m) s' Hkm HG'). lia.
      * left. split; [exact Hlt|]. exists m. split; [lia|]. split; [exact Hkm|]. right.
        split; [lia|]. split.
        -- unfold xquiet. cbn [z_node z_with n1 n_with n_out]. rewrite andb_false_r. reflexivity.
        -- cbn [z_eng z_with e_store e_with]. replace (length C) with (k + m)%nat by lia. exact HG'.
    + rewrite e_request_eq. cbn [xapply_effs]. eexists _, _. split; [reflexivity|]. split.
      * constructor; [|constructor]. unfold xentry_ok. cbn [e_store e_with e_cur]. split; [reflexivity|]. split; [|reflexivity]. rewrite Eloc, Etb. reflexivity.
      * left. split; [exact Hlt|]. exists m. split; [lia|]. split; [exact Hkm|]. left. split; [lia|].
        unfold xsys_ok. cbn [z_cfg z_gid z_p z_eng z_node z_with]. split; [exact Ecfg|]. split; [exact Egid|]. split; [exact Ep|].
        split.
        -- unfold xeng_ok. cbn [e_conn e_shm e_latest e_cur e_store e_with]. repeat split; auto.
        -- cbn [xapply_effs]. unfold node_request, n1, n_with. cbn [n_open n_stalled n_chain n_reserve n_used n_out n_cap]. rewrite Hns.
           cbn [negb andb app n_chain n_cap n_open n_stalled n_out e_cur e_with xapply_effs].
           split; [exact Hch|]. split; [exact Hcp|]. split; [reflexivity|]. split; [reflexivity|].
           rewrite Hch, Hcp, Eloc. unfold reply. rewrite (start_index_head (x_forb cfg) gid C HC (k + m) lrest Hkm). reflexivity.
Qed.

Lemma xquiet_run fuel z : xquiet z = true -> z_run_q fuel z = (z, []).
Proof.
  unfold xquiet. intros H. destruct fuel; [reflexivity|]. cbn [z_run_q]. apply negb_true_iff in H. rewrite H. reflexivity.
Qed.

Lemma xrun_linear : forall fuel k z, (k <= length C)%nat -> xsys_ok k z -> (length C - k + 1 <= fuel)%nat ->
  exists z' tr, z_run_q fuel z = (z', tr) /\ Forall xentry_ok tr /\ xquiet z' = true /\ Good gid C (length C) (e_store (z_eng z')).
Proof.
  induction fuel as [|fuel IH]; intros k z Hk Hs Hf; [lia|].
  cbn [z_run_q].
  assert (Hready: n_open (z_node z) && match n_out (z_node z) with [] => false | _ => true end = true).
  { destruct Hs as (_ & _ & _ & _ & _ & _ & Hop & _ & Hout). rewrite Hop, Hout. reflexivity. }
  rewrite Hready.
  destruct (xround k z Hk Hs) as (z1 & t1 & Ed & Ht1 & [(Hlt & m & Hm & Hkm & [(Hlt2 & Hs1)|(Efin & Hq & HG)])|(Eend & Hq & Eeng)]); rewrite Ed.
  - destruct (IH (k + m)%nat z1 Hkm Hs1 ltac:(lia)) as (z2 & t2 & Er & Ht2 & Hq2 & HG2).
    rewrite Er. exists z2, (t1 ++ t2). split; [reflexivity|]. split; [apply Forall_app; split; assumption|]. auto.
  - rewrite (xquiet_run fuel z1 Hq). exists z1, (t1 ++ []). split; [reflexivity|]. split; [rewrite app_nil_r; exact Ht1|]. auto.
  - rewrite (xquiet_run fuel z1 Hq). exists z1, (t1 ++ []). split; [reflexivity|]. split; [rewrite app_nil_r; exact Ht1|].
    split; [exact Hq|]. rewrite Eeng. destruct Hs as (_ & _ & _ & (_ & _ & _ & _ & _ & HG) & _). subst k. exact HG.
Qed.

Lemma xconnect_ok k s res : (k <= length C)%nat -> Good gid C k s ->
  exists z1 es st, z_cmd (z_init cfg gid p s (node0 C cap res)) (CConnect p) = (z1, [(None, es, st)]) /\ xsys_ok k z1 /\
    xentry_ok (Some (XHeaders []), es, st) /\ es <> [].
Proof.
  intros Hk HG. destruct (good_locator gid C k s Hk HG) as (lrest & Eloc & Etb). unfold tipid in Eloc, Etb.
  pose proof (good_tip_height k s Hk HG) as Eth.
  destruct (cursor_spec cps Hsorted) as (_ & H2 & _ & H4).
  unfold z_cmd, z_init. cbn [z_node node0 n_used z_cfg z_p z_eng e_store z_gid]. unfold e_start. rewrite Eth, e_request_eq.
  cbn [xapply_effs]. unfold node_request, n_with. cbn [n_open n_stalled n_chain n_reserve n_used n_out n_cap negb andb app].
  eexists _, _, _. split; [reflexivity|]. split; [|split; [|discriminate]].
  - unfold xsys_ok. cbn [z_cfg z_gid z_p z_eng z_node z_with]. split; [reflexivity|]. split; [reflexivity|]. split; [reflexivity|]. split.
    + unfold xeng_ok. cbn [e_conn e_shm e_latest e_cur e_store]. split; [reflexivity|]. split; [reflexivity|]. split; [reflexivity|].
      split; [apply (H4 None (Z.of_nat k) I I)|]. split; [apply (H2 (Z.of_nat k))| exact HG].
    + cbn [n_chain n_cap n_open n_stalled n_out e_cur]. repeat split; auto.
      unfold node0. cbn [n_stalled n_chain n_cap negb n_out]. rewrite Eloc. unfold reply. rewrite (start_index_head (x_forb cfg) gid C HC k lrest Hk). reflexivity.
  - unfold xentry_ok. cbn [e_store e_cur]. split; [reflexivity|]. split; [|reflexivity]. rewrite Eloc, Etb. reflexivity.
Qed.

Theorem catchup_linear_exp_sys k s res fuel : (k <= length C)%nat -> Good gid C k s -> (length C - k + 1 <= fuel)%nat ->
  exists z1 t1 z2 t2,
    z_cmd (z_init cfg gid p s (node0 C cap res)) (CConnect p) = (z1, t1) /\
    z_cmd z1 (CRun fuel) = (z2, t2) /\
    xquiet z2 = true /\ Good gid C (length C) (e_store (z_eng z2)) /\
    (exists es st, t1 = [(None, es, st)] /\ xentry_ok (Some (XHeaders []), es, st) /\ es <> []) /\
    Forall xentry_ok t2.
Proof.
  intros Hk HG Hf.
  destruct (xconnect_ok k s res Hk HG) as (z1 & es & st & E1 & Hs1 & He & Hne).
  destruct (xrun_linear fuel k z1 Hk Hs1 Hf) as (z2 & t2 & E2 & Ht2 & Hq & HG2).
  exists z1, [(None, es, st)], z2, t2. split; [exact E1|]. split; [exact E2|]. split; [exact Hq|]. split; [exact HG2|].
  split; [|exact Ht2]. exists es, st. auto.
Qed.
End ExpLinear.

Theorem catchup_linear_exp cfg gid C p cap res k s fuel :
  good_chain (x_forb cfg) gid C -> cps_ok gid C (x_cps cfg) -> sorted (x_cps cfg) ->
  (1 <= cap)%nat -> (k <= length C)%nat -> Good gid C k s -> (length C - k + 1 <= fuel)%nat ->
  exists z1 t1 z2 t2,
    z_cmd (z_init cfg gid p s (node0 C cap res)) (CConnect p) = (z1, t1) /\
    z_cmd z1 (CRun fuel) = (z2, t2) /\
    xquiet z2 = true /\
    (exists tip t, Inv2 (e_store (z_eng z2)) tip /\ ids (chain (e_store (z_eng z2)) tip) = rev (cids gid C) /\
                   tipB (e_store (z_eng z2)) = Some t /\ id t = last (cids gid C) gid) /\
    (exists es st, t1 = [(None, es, st)] /\ xentry_ok C p (Some (XHeaders []), es, st) /\ es <> []) /\
    Forall (xentry_ok C p) t2.
Proof.
  intros HC Hcps Hs Hcap Hk HG Hf.
  destruct (catchup_linear_exp_sys cfg gid C p cap HC Hcps Hs Hcap k s res fuel Hk HG Hf)
    as (z1 & t1 & z2 & t2 & E1 & E2 & Hq & HG2 & Ht1 & Ht2).
  exists z1, t1, z2, t2. split; [exact E1|]. split; [exact E2|]. split; [exact Hq|]. split; [|split; assumption].
  destruct (good_final gid C _ HG2) as (tip & t & HI & Hids & HtB & Htid & _). exists tip, t. auto.
Qed.

(* the same example as for the default engine (with no checkpoint list at all as a second instance) *)
Example ex_catchup_exp_run :
  let xc := {| x_cps := c_cps exCfg; x_forb := c_forb exCfg |} in
  let s := run_from (x_forb xc) (init 1 (ex_pl 486604799)) (firstn 1 exC) in
  let '(z1, t1) := z_cmd (z_init xc 1 7 s (node0 exC 2 [])) (CConnect 7) in
  let '(z2, t2) := z_cmd z1 (CRun 6) in
  ids (e_store (z_eng z2)) = [6; 5; 4; 3; 2; 1]%N /\
  map (fun x => snd (fst x)) (t1 ++ t2) =
  [[GetHeaders 7 [2; 1] 3]; [GetHeaders 7 [3; 2; 1] 6]; [GetHeaders 7 [5; 4; 3; 2; 1] 6]; [SendHdrs 7]]%N /\
  sorted (@nil cp) /\ cps_ok 1 exC [].
Proof. vm_compute. split; [reflexivity|]. split; [reflexivity|]. split; [exact I| intros c []]. Qed.
