(* Structure of the newest-first header store: well-formedness (fields as computed on arrival),
   chains, the fork decomposition.  Ported from the design-phase prototypes. *)
From Coq Require Import ZArith NArith List Lia Bool.
From BHS Require Import Store.
Import ListNotations.
Open Scope Z_scope.

Definition row_ok (s : store) (r : row) : Prop :=
  match by_hash s (prev r) with
  | None => orph r = true /\ height r = 1 /\ cum r = work r
  | Some p => orph r = orph p /\ height r = height p + 1 /\ cum r = cum p + work r
  end.

Definition is_genesis (g : row) := prev g = 0%N /\ id g <> 0%N /\ height g = 0 /\ orph g = false /\ cum g = work g.

Inductive wf : store -> Prop :=
| wf_gen g : is_genesis g -> wf [g]
| wf_cons r s : wf s -> ~ In (id r) (ids s) -> id r <> 0%N -> row_ok s r -> wf (r :: s).
Lemma by_hash_in s i r : by_hash s i = Some r -> In r s /\ id r = i.
Proof. unfold by_hash. intros H. apply find_some in H. destruct H as [H1 H2]. apply N.eqb_eq in H2. auto. Qed.

Lemma by_hash_none s i : by_hash s i = None -> ~ In i (ids s).
Proof.
  unfold by_hash, ids. intros H Hin. apply in_map_iff in Hin. destruct Hin as [r [E Hr]].
  pose proof (find_none _ _ H r Hr) as Hn. cbv beta in Hn. rewrite E, N.eqb_refl in Hn. discriminate.
Qed.

Lemma chain_incl s t : incl (chain s t) s.
Proof.
  revert t. induction s as [|r s IH]; intros t; cbn; [apply incl_refl|].
  destruct (N.eqb (id r) t).
  - apply incl_cons; [left; reflexivity| apply incl_tl, IH].
  - apply incl_tl, IH.
Qed.

Lemma chain_notin s t : ~ In t (ids s) -> chain s t = [].
Proof.
  revert t. induction s as [|r s IH]; intros t Hn; cbn; [reflexivity|].
  destruct (N.eqb_spec (id r) t) as [E|E].
  - exfalso. apply Hn. left. exact E.
  - apply IH. intro Hin. apply Hn. right. exact Hin.
Qed.

(* Fork decomposition: two chains share a common suffix and are otherwise disjoint. *)
Definition disjoint (a b : list row) := forall x, In x a -> ~ In x b.

Lemma nodup_ids_in s : NoDup (ids s) -> forall x y, In x s -> In y s -> id x = id y -> x = y.
Proof.
  induction s as [|r s IH]; intros Hnd x y Hx Hy E; [inversion Hx|].
  inversion Hnd as [|? ? Hnotin Hnd']; subst.
  destruct Hx as [->|Hx], Hy as [->|Hy]; auto.
  - exfalso. apply Hnotin. rewrite E. apply in_map. exact Hy.
  - exfalso. apply Hnotin. rewrite <- E. apply in_map. exact Hx.
Qed.

Lemma wf_nodup s : wf s -> NoDup (ids s).
Proof.
  induction 1 as [g Hg | r s Hwf IH Hn Hz Hok]; try unfold row_ok in Hok; cbn.
  - constructor; [intros []| constructor].
  - constructor; assumption.
Qed.

Lemma fork s : NoDup (ids s) -> forall a b,
  exists sa sb c, chain s a = sa ++ c /\ chain s b = sb ++ c /\
                  disjoint sa (chain s b) /\ disjoint sb (chain s a).
Proof.
  induction s as [|r s IH]; intros Hnd a b.
  - exists [], [], []. cbn. repeat split; intros x [].
  - inversion Hnd as [|? ? Hnotin Hnd']; subst. cbn [chain].
    assert (Hr: forall t, ~ In r (chain s t)).
    { intros t Hin. apply Hnotin. apply in_map. apply (chain_incl s t). exact Hin. }
    destruct (N.eqb_spec (id r) a) as [Ea|Ea], (N.eqb_spec (id r) b) as [Eb|Eb].
    + exists [], [], (r :: chain s (prev r)). cbn. repeat split; intros x [].
    + destruct (IH Hnd' (prev r) b) as (sa & sb & c & H1 & H2 & D1 & D2).
      exists (r :: sa), sb, c. rewrite H1, H2. repeat split.
      * intros x [<-|Hx]; [rewrite <- H2; apply Hr | rewrite <- H2; apply D1; exact Hx].
      * intros x Hx [<-|Hin]; [apply (Hr b); rewrite H2; apply in_or_app; left; exact Hx|].
        rewrite <- H1 in Hin. exact (D2 x Hx Hin).
    + destruct (IH Hnd' a (prev r)) as (sa & sb & c & H1 & H2 & D1 & D2).
      exists sa, (r :: sb), c. rewrite H1, H2. repeat split.
      * intros x Hx [<-|Hin]; [apply (Hr a); rewrite H1; apply in_or_app; left; exact Hx|].
        rewrite <- H2 in Hin. exact (D1 x Hx Hin).
      * intros x [<-|Hx]; [rewrite <- H1; apply Hr | rewrite <- H1; apply D2; exact Hx].
    + apply IH. exact Hnd'.
Qed.

(* Along the chain of a connected row heights go down by exactly one and end at genesis. *)
Lemma chain_head s t x rest : chain s t = x :: rest -> id x = t /\ In x s.
Proof.
  revert t. induction s as [|r s IH]; intros t H; cbn in H; [discriminate|].
  destruct (N.eqb_spec (id r) t) as [E|E].
  - inversion H; subst. split; [reflexivity| left; reflexivity].
  - destruct (IH _ H) as [H1 H2]. split; [exact H1| right; exact H2].
Qed.

Lemma by_hash_chain s t : NoDup (ids s) -> forall x, by_hash s t = Some x -> exists rest, chain s t = x :: rest.
Proof.
  induction s as [|r s IH]; intros Hnd x H; [discriminate|].
  inversion Hnd as [|? ? Hnotin Hnd']; subst. unfold by_hash in H. cbn in H. cbn [chain].
  destruct (N.eqb_spec (id r) t) as [E|E].
  - inversion H; subst. eexists; reflexivity.
  - apply IH; assumption.
Qed.

(* connected row: its chain steps are parent links with height-1 *)
Lemma chain_step s : wf s -> forall t x y rest, chain s t = x :: y :: rest ->
  prev x = id y /\ height x = height y + 1 /\ cum x = cum y + work x /\ orph x = orph y.
Proof.
  induction 1 as [g Hg | r s Hwf IH Hn Hz Hok]; try unfold row_ok in Hok; intros t x y rest H.
  - cbn in H. destruct (N.eqb (id g) t); discriminate.
  - cbn [chain] in H. destruct (N.eqb_spec (id r) t) as [E|E].
    + inversion H as [[Hx Hc]]. subst x. clear H.
      destruct (chain_head _ _ _ _ Hc) as [Hy Hin].
      destruct (by_hash s (prev r)) as [p|] eqn:Hp.
      * destruct (by_hash_in _ _ _ Hp) as [Hpin Hpid].
        assert (p = y) by (apply (nodup_ids_in s (wf_nodup s Hwf)); auto; congruence). subst p.
        destruct Hok as (Ho & Hh & Hcum). auto.
      * exfalso. apply (by_hash_none _ _ Hp). rewrite <- Hy. apply in_map. exact Hin.
    + eapply IH; eassumption.
Qed.
(* ---------- more chain structure ---------- *)

Lemma chain_unfold s : wf s -> forall t x rest, chain s t = x :: rest -> orph x = false ->
  rest = chain s (prev x).
Proof.
  induction 1 as [g Hg | r s Hwf IH Hn Hz Hok]; try unfold row_ok in Hok; intros t x rest H Hx.
  - cbn in H. destruct (N.eqb_spec (id g) t) as [E|E]; [|discriminate].
    inversion H; subst. cbn. destruct Hg as (Hp & Hid & _). rewrite Hp.
    destruct (N.eqb_spec (id x) 0%N); [contradiction|reflexivity].
  - cbn [chain] in H. destruct (N.eqb_spec (id r) t) as [E|E].
    + inversion H; subst x rest. cbn [chain].
      destruct (N.eqb_spec (id r) (prev r)) as [E2|E2]; [|reflexivity].
      exfalso. destruct (by_hash s (prev r)) as [p|] eqn:Hp.
      * destruct (by_hash_in _ _ _ Hp) as [Hpin Hpid]. apply Hn. rewrite E2, <- Hpid. apply in_map. exact Hpin.
      * destruct Hok as [Ho _]. congruence.
    + cbn [chain]. destruct (N.eqb_spec (id r) (prev x)) as [E2|E2].
      * exfalso. (* x is in s, connected, so its parent is in s too; r is newer, id r fresh *)
        destruct (chain_head _ _ _ _ H) as [Hxid Hxin].
        (* parent of x is in s: by inner induction we use IH on structure? use helper below *)
        assert (Hpar: In (prev x) (ids s) \/ prev x = 0%N).
        { clear - Hwf Hxin Hx. induction Hwf as [g Hg | r0 s0 Hwf0 IH0 Hn0 Hz0 Hok0]; try unfold row_ok in Hok0.
          - destruct Hxin as [<-|[]]. right. apply Hg.
          - destruct Hxin as [<-|Hin].
            + destruct (by_hash s0 (prev r0)) as [p|] eqn:Hp.
              * left. right. destruct (by_hash_in _ _ _ Hp) as [Hpin Hpid]. rewrite <- Hpid. apply in_map. exact Hpin.
              * destruct Hok0 as [Ho _]. congruence.
            + destruct (IH0 Hin) as [Hl|Hr]; [left; right; exact Hl| right; exact Hr]. }
        destruct Hpar as [Hpar|Hpar]; [apply Hn; rewrite E2; exact Hpar| congruence].
      * eapply IH; eassumption.
Qed.

(* A cleaner route: tails of chains are chains in a suffix store. *)
Lemma chain_tail_is_chain s t x rest : chain s t = x :: rest -> exists s', (exists pre, s = pre ++ x :: s') /\ rest = chain s' (prev x).
Proof.
  revert t. induction s as [|r s IH]; intros t H; cbn in H; [discriminate|].
  destruct (N.eqb_spec (id r) t) as [E|E].
  - inversion H; subst. exists s. split; [exists []; reflexivity| reflexivity].
  - destruct (IH _ H) as (s' & [pre Hpre] & Hr). exists s'. split; [exists (r :: pre); rewrite Hpre; reflexivity| exact Hr].
Qed.

Lemma wf_suffix pre s : wf (pre ++ s) -> s <> [] -> wf s.
Proof.
  induction pre as [|a pre IH]; intros H Hne; [exact H|].
  cbn in H. inversion H as [g Hg Heq | r s0 Hwf Hn Hz Hok]; subst.
  - destruct pre; cbn in *; [subst; contradiction| destruct pre; discriminate].
  - apply IH; assumption.
Qed.

Lemma chain_all_orph_eq s : wf s -> forall t y rest, chain s t = y :: rest -> forall x, In x rest -> orph x = orph y.
Proof.
  intros Hwf t y rest. revert s Hwf t y.
  induction rest as [|b c IH]; intros s Hwf t y H x Hx; [inversion Hx|].
  destruct (chain_step s Hwf t y b c H) as (_ & _ & _ & Ho).
  destruct Hx as [<-|Hx]; [symmetry; exact Ho|].
  rewrite Ho.
  destruct (chain_tail_is_chain _ _ _ _ H) as (s' & [pre Hpre] & Hr).
  assert (Hwf': wf s').
  { subst s. apply (wf_suffix (pre ++ [y]) s'); [rewrite <- app_assoc; exact Hwf|].
    intro E. subst s'. cbn in Hr. discriminate. }
  eapply (IH s' Hwf' (prev y) b); [symmetry; exact Hr| exact Hx].
Qed.

Lemma chain_heights s : wf s -> forall t y rest, chain s t = y :: rest -> forall x, In x rest -> height x < height y.
Proof.
  intros Hwf t y rest. revert s Hwf t y.
  induction rest as [|b c IH]; intros s Hwf t y H x Hx; [inversion Hx|].
  destruct (chain_step s Hwf t y b c H) as (_ & Hh & _ & _).
  destruct Hx as [<-|Hx]; [lia|].
  destruct (chain_tail_is_chain _ _ _ _ H) as (s' & [pre Hpre] & Hr).
  assert (Hwf': wf s').
  { subst s. apply (wf_suffix (pre ++ [y]) s'); [rewrite <- app_assoc; exact Hwf|].
    intro E. subst s'. cbn in Hr. discriminate. }
  pose proof (IH s' Hwf' (prev y) b (eq_sym Hr) x Hx). lia.
Qed.

(* predecessor inside a chain *)
Lemma chain_pred s : wf s -> forall t c, chain s t = c -> forall pre x post, c = pre ++ x :: post -> pre <> [] ->
  exists y, In y pre /\ prev y = id x /\ height y = height x + 1.
Proof.
  intros Hwf t c. revert s Hwf t.
  induction c as [|a c IH]; intros s Hwf t H pre x post E Hne; [destruct pre; discriminate|].
  destruct pre as [|a' pre]; [contradiction|]. cbn in E. inversion E; subst a' c. clear E.
  destruct pre as [|b pre].
  - cbn in H. destruct (chain_step s Hwf t a x post H) as (Hp & Hh & _ & _).
    exists a. split; [left; reflexivity| split; assumption].
  - destruct (chain_tail_is_chain _ _ _ _ H) as (s' & [pre0 Hpre] & Hr).
    assert (Hwf': wf s').
    { subst s. apply (wf_suffix (pre0 ++ [a]) s'); [rewrite <- app_assoc; exact Hwf|].
      intro E. subst s'. cbn in Hr. discriminate. }
    destruct (IH s' Hwf' (prev a) (eq_sym Hr) (b :: pre) x post eq_refl ltac:(discriminate)) as (y & Hy & H1 & H2).
    exists y. split; [right; exact Hy| split; assumption].
Qed.

Lemma last_indep_nonempty {A} (l : list A) d d' : l <> [] -> last l d = last l d'.
Proof. induction l as [|a l IH]; intros H; [contradiction|]. destruct l as [|b l]; [reflexivity|]. cbn [last]. apply IH. discriminate. Qed.

(* every connected chain ends at the genesis row = last row of the store *)
Definition genesis_of (s : store) : option row := last (map Some s) None.

Lemma chain_connected_nonempty_last s : wf s -> forall t y rest, chain s t = y :: rest -> orph y = false ->
  exists g, last (y :: rest) y = g /\ height g = 0 /\ last s y = g.
Proof.
  induction 1 as [g Hg | r s Hwf IH Hn Hz Hok]; try unfold row_ok in Hok; intros t y rest H Hy.
  - cbn in H. destruct (N.eqb (id g) t); [|discriminate]. inversion H; subst.
    exists y. cbn. repeat split; try reflexivity. apply Hg.
  - cbn [chain] in H. destruct (N.eqb_spec (id r) t) as [E|E].
    + inversion H; subst y rest. clear H.
      destruct (by_hash s (prev r)) as [p|] eqn:Hp; [|destruct Hok; congruence].
      destruct Hok as (Ho & _ & _).
      destruct (by_hash_chain s (prev r) (wf_nodup s Hwf) p Hp) as [rest' Hc].
      destruct (IH (prev r) p rest' Hc ltac:(congruence)) as (g & Hl & Hg0 & Hls).
      exists g. rewrite Hc. split; [|split].
      * change (last (r :: p :: rest') r) with (last (p :: rest') r). rewrite <- Hl. apply last_indep_nonempty. discriminate.
      * exact Hg0.
      * destruct s as [|a s']; [inversion Hwf|]. change (last (r :: a :: s') r) with (last (a :: s') r).
        rewrite <- Hls. apply last_indep_nonempty. discriminate.
    + destruct (IH t y rest H Hy) as (g & Hl & Hg0 & Hls). exists g. split; [exact Hl| split; [exact Hg0|]].
      destruct s as [|a s']; [inversion Hwf|]. change (last (r :: a :: s') y) with (last (a :: s') y). exact Hls.
Qed.
