(* The outbound address selection of transports/p2p/p2putil/addresses.go (NewAddressFunc), the connection manager's
   GetNewAddress: up to 100 candidates are drawn from the address manager; a candidate is turned down when an
   outbound peer of its network group is already connected, when it was attempted less than ten minutes ago and
   fewer than 30 candidates have been turned down so far, or when it listens on a non-default port and fewer than
   50 have; the first candidate that passes is returned; an empty draw ends the search.

   The draw is the environment (the address manager picks at random): the model takes the sequence of draws as an
   argument.  A candidate is described by what the filters look at. *)
From Coq Require Import List Arith Bool NArith Lia.
Import ListNotations.

Record cand := mkCand { c_group : N; c_recent : bool; c_default_port : bool }.

Definition acceptable (used : N -> bool) (tries : nat) (c : cand) : bool :=
  negb (used (c_group c))
  && (negb (tries <? 30) || negb (c_recent c))
  && (negb (tries <? 50) || c_default_port c).

(* [search picks used tries] : the index (counted from [tries]) and the candidate returned *)
Fixpoint search (picks : list (option cand)) (used : N -> bool) (tries : nat) : option (nat * cand) :=
  match picks with
  | [] => None
  | None :: _ => None
  | Some c :: rest => if acceptable used tries c then Some (tries, c) else search rest used (S tries)
  end.

Definition max_tries : nat := 100.

Definition new_address (picks : list (option cand)) (used : N -> bool) : option (nat * cand) :=
  search (firstn max_tries picks) used 0.

