(* C04 - facts about the query models of BHS.Query under the ingestion invariant (ChainMain.Valid). *)
From Coq Require Import ZArith NArith List Lia Bool.
From BHS Require Import Work Store Chain ChainSpec StoreProofs ChainInv ChainAdd ChainMain Query.
Import ListNotations.
Open Scope Z_scope.

(* ================================================================== basics *)
Lemma valid_wf s : Valid s -> wf s.
Proof. intros (tip & (Hwf & _) & _). exact Hwf. Qed.

(* the invariant of EVERY reachable store, zero-work headers included (ChainFields.reachable_inv) *)
Definition InvSome (s : store) : Prop := exists tip, Inv s tip.
Lemma valid_inv s : Valid s -> InvSome s.
Proof. intros (tip & HI & _). exists tip. exact HI. Qed.
Lemma inv_wf s : InvSome s -> wf s.
Proof. intros (tip & Hwf & _). exact Hwf. Qed.

Lemma by_hash_self s r : NoDup (ids s) -> In r s -> by_hash s (id r) = Some r.
Proof.
  intros Hnd Hr. destruct (by_hash s (id r)) as [x|] eqn:E.
  - destruct (by_hash_in _ _ _ E) as [Hx Hid]. f_equal. apply (nodup_ids_in s Hnd); assumption.
  - exfalso. apply (by_hash_none _ _ E). apply in_map. exact Hr.
Qed.

Lemma by_hash_det s t x y : by_hash s t = Some x -> by_hash s t = Some y -> x = y.
Proof. congruence. Qed.

(* ================================================================== by height *)
Lemma idx_insert_in r l x : In x (idx_insert r l) <-> x = r \/ In x l.
Proof.
  induction l as [|a l IH]; cbn.
  - split; [intros [H|[]]; left; auto | intros [H|[]]; left; auto].
  - destruct (idx_le r a); cbn.
    + split; [intros [H|H]; [left; auto| right; exact H] | intros [H|H]; [left; auto| right; exact H]].
    + rewrite IH. split.
      * intros [H|[H|H]]; [right; left; exact H| left; exact H| right; right; exact H].
      * intros [H|[H|H]]; [right; left; exact H| left; exact H| right; right; exact H].
Qed.

Lemma idx_sort_in l x : In x (idx_sort l) <-> In x l.
Proof.
  unfold idx_sort. induction l as [|a l IH]; cbn; [reflexivity|].
  rewrite idx_insert_in, IH. split; intros [H|H]; auto.
Qed.

Definition count_of (c : option Z) : Z := match c with Some c => c | None => 1 end.

(* by height, for ALL heights and counts: only stored rows of the declarative window [h, h+count-1], and every stored row of
   it whose height fits a 64-bit int (stored heights are int32) *)
Theorem by_height_sound s h c r :
  In r (by_height_range s h c) -> In r s /\ h <= height r <= h + count_of c - 1.
Proof.
  unfold by_height_range, count_of.
  destruct (Z.leb_spec (match c with Some c0 => c0 | None => 1 end) 0) as [Hc|Hc]; [intros []|].
  rewrite idx_sort_in, filter_In, <- in_rev. unfold in_range, window_end.
  rewrite andb_true_iff, !Z.leb_le. intros [Hr H]. split; [exact Hr| lia].
Qed.

Theorem by_height_complete s h c r :
  In r s -> height r < two63 -> h <= height r <= h + count_of c - 1 -> In r (by_height_range s h c).
Proof.
  unfold by_height_range, count_of. intros Hr Hb Hw.
  destruct (Z.leb_spec (match c with Some c0 => c0 | None => 1 end) 0) as [Hc|Hc]; [lia|].
  rewrite idx_sort_in, filter_In, <- in_rev. unfold in_range, window_end.
  rewrite andb_true_iff, !Z.leb_le. split; [exact Hr| lia].
Qed.

Theorem by_height_spec s h c :
  (forall r, In r (by_height_range s h c) -> In r s /\ h <= height r <= h + count_of c - 1) /\
  (forall r, In r s -> height r < two63 -> st r = Longest -> h <= height r <= h + count_of c - 1 -> In r (by_height_range s h c)).
Proof.
  split; [intros r; apply by_height_sound|]. intros r Hr Hb _ Hw. apply by_height_complete; assumption.
Qed.

(* history: the function before 76f1492 returned the rows up to the WRAPPED end *)
Lemma wrap64_small z : - two63 <= z < two63 -> wrap64 z = z.
Proof. intros H. unfold wrap64. rewrite Z.mod_small; unfold two63 in *; lia. Qed.

Lemma by_height_before_fix_char s h c r :
  In r (by_height_range_before_fix s h c) <-> In r s /\ h <= height r <= window_end_before_fix h (count_of c).
Proof.
  unfold by_height_range_before_fix, count_of. rewrite idx_sort_in, filter_In, <- in_rev. unfold in_range.
  rewrite andb_true_iff, !Z.leb_le. reflexivity.
Qed.

(* ================================================================== tips *)
Lemma chain_suffix s : NoDup (ids s) -> forall t pre c post, chain s t = pre ++ c :: post -> chain s (id c) = c :: post.
Proof.
  induction s as [|r s IH]; intros Hnd t pre c post H; [destruct pre; discriminate|].
  inversion Hnd as [|? ? Hnotin Hnd']; subst.
  assert (Hfresh: forall u, In c (chain s u) -> N.eqb (id r) (id c) = false).
  { intros u Hin. apply N.eqb_neq. intro E. apply Hnotin. rewrite E. apply in_map. apply (chain_incl s u). exact Hin. }
  cbn [chain] in H. destruct (N.eqb_spec (id r) t) as [E|E].
  - destruct pre as [|a pre]; cbn in H; inversion H; subst.
    + cbn [chain]. rewrite N.eqb_refl. reflexivity.
    + cbn [chain]. rewrite (Hfresh (prev a)) by (rewrite H2; apply in_or_app; right; left; reflexivity).
      apply (IH Hnd' (prev a) pre c post H2).
  - cbn [chain]. rewrite (Hfresh t) by (rewrite H; apply in_or_app; right; left; reflexivity).
    apply (IH Hnd' t pre c post H).
Qed.

(* the parent of a Longest row is Longest *)
Lemma L_parent_L s tip c r : Inv s tip -> In c s -> st c = Longest -> In r s -> prev c = id r -> st r = Longest.
Proof.
  intros HI Hc HL Hr Hp. pose proof HI as (Hwf & _ & _).
  pose proof (wf_nodup s Hwf) as Hnd.
  pose proof (proj1 (is_L_iff s tip HI c Hc) HL) as Hin.
  destruct (in_split _ _ Hin) as (pre & post & E).
  pose proof (chain_suffix s Hnd tip pre c post E) as Hs.
  assert (Ho: orph c = false).
  { destruct (orph c) eqn:Eo; [|reflexivity]. apply (st_O_iff s tip c HI Hc) in Eo. congruence. }
  pose proof (chain_unfold s Hwf (id c) c post Hs Ho) as Hpost.
  pose proof (by_hash_self s r Hnd Hr) as Hb. rewrite <- Hp in Hb.
  destruct (by_hash_chain s (prev c) Hnd r Hb) as [rest Hc2].
  apply (is_L_iff s tip HI r Hr). rewrite E. apply in_or_app. right. right. rewrite Hpost, Hc2. left. reflexivity.
Qed.

Lemma has_nonL_child_iff s tip r : Inv s tip -> In r s -> st r <> Longest ->
  (has_nonL_child s r = true <-> has_child s r).
Proof.
  intros HI Hr HnL. unfold has_nonL_child, has_child. rewrite existsb_exists. split.
  - intros (c & Hc & Hb). apply andb_prop in Hb. destruct Hb as [_ Hb]. apply N.eqb_eq in Hb. exists c. auto.
  - intros (c & Hc & Hp). exists c. split; [exact Hc|]. apply andb_true_intro. split; [|apply N.eqb_eq; exact Hp].
    unfold is_L. destruct (st_eqb (st c) Longest) eqn:E; [|reflexivity]. apply st_eqb_eq in E.
    exfalso. apply HnL. apply (L_parent_L s tip c r HI Hc E Hr Hp).
Qed.

(* tips = the Longest tip + every Stale/Orphan row without a stored child; needs only Inv (any work) *)
Theorem tips_spec_inv s tip : Inv s tip ->
  exists t, tipB s = Some t /\ by_hash s tip = Some t /\ st t = Longest /\
    forall r, In r (tips s) <-> r = t \/ (In r s /\ st r <> Longest /\ ~ has_child s r).
Proof.
  intros HI. pose proof HI as (_ & (t & Htip & _) & _).
  pose proof (tipB_is_tip s tip HI) as Ht. rewrite Htip in Ht.
  destruct (tip_is_L s tip t HI Htip) as [Htin HtL].
  exists t. repeat split; try assumption.
  - unfold tips. rewrite Ht. intros Hin. apply in_app_or in Hin. destruct Hin as [[<-|[]]|Hin]; [left; reflexivity|].
    apply filter_In in Hin. destruct Hin as [Hr Hb]. apply in_rev in Hr. apply andb_prop in Hb. destruct Hb as [H1 H2].
    right. assert (HnL: st r <> Longest).
    { intro E. unfold is_L in H1. rewrite E in H1. discriminate. }
    split; [exact Hr|]. split; [exact HnL|]. intro Hc.
    apply (has_nonL_child_iff s tip r HI Hr HnL) in Hc. rewrite Hc in H2. discriminate.
  - unfold tips. rewrite Ht. intros [->|(Hr & HnL & Hnc)]; apply in_or_app; [left; left; reflexivity|].
    right. apply filter_In. split; [apply -> in_rev; exact Hr|]. apply andb_true_intro. split.
    + unfold is_L. destruct (st_eqb (st r) Longest) eqn:E; [|reflexivity]. apply st_eqb_eq in E. contradiction.
    + destruct (has_nonL_child s r) eqn:E; [|reflexivity]. exfalso. apply Hnc.
      apply (has_nonL_child_iff s tip r HI Hr HnL). exact E.
Qed.

Theorem tips_spec s : Valid s ->
  exists t, tipB s = Some t /\ st t = Longest /\ best s = Some t /\
    forall r, In r (tips s) <-> r = t \/ (In r s /\ st r <> Longest /\ ~ has_child s r).
Proof.
  intros (tip & HI & Hb). destruct (tips_spec_inv s tip HI) as (t & H1 & H2 & H3 & H4).
  exists t. repeat split; try assumption; [congruence| apply H4| apply H4].
Qed.

(* ================================================================== walks and reachability *)
Lemma walk_S f s t : walk (Datatypes.S f) s t = match by_hash s t with None => [] | Some x => x :: walk f s (prev x) end.
Proof. reflexivity. Qed.

Lemma walk_reach s f : forall t y, In y (walk f s t) -> reach s t y.
Proof.
  induction f as [|f IH]; intros t y H; [inversion H|].
  rewrite walk_S in H. destruct (by_hash s t) as [x|] eqn:E; [|inversion H].
  destruct H as [<-|H]; [apply reach_here; exact E| eapply reach_next; [exact E| apply IH; exact H]].
Qed.

Lemma reach_walk s t y : reach s t y -> exists f, In y (walk f s t).
Proof.
  induction 1 as [t x E | t x y E _ (f & Hf)].
  - exists 1%nat. cbn. rewrite E. left. reflexivity.
  - exists (Datatypes.S f). rewrite walk_S, E. right. exact Hf.
Qed.

Lemma reach_in s t y : reach s t y -> In y s.
Proof. induction 1 as [t x E | t x y E _ IH]; [apply (by_hash_in _ _ _ E)| exact IH]. Qed.

Lemma reach_snoc s t x p : reach s t x -> by_hash s (prev x) = Some p -> reach s t p.
Proof.
  induction 1 as [t x E | t x y E _ IH]; intros Hp.
  - eapply reach_next; [exact E| apply reach_here; exact Hp].
  - eapply reach_next; [exact E| apply IH; exact Hp].
Qed.

Lemma walk_prefix s f : forall t k, exists rest, walk (f + k) s t = walk f s t ++ rest.
Proof.
  induction f as [|f IH]; intros t k; [exists (walk k s t); reflexivity|].
  cbn [Nat.add]. rewrite !walk_S. destruct (by_hash s t) as [x|]; [|exists []; reflexivity].
  destruct (IH (prev x) k) as [rest Hr]. exists rest. rewrite Hr. reflexivity.
Qed.

Lemma walk_stable s f : forall t, (length (walk f s t) < f)%nat -> forall k, walk (f + k) s t = walk f s t.
Proof.
  induction f as [|f IH]; intros t Hlen k; [inversion Hlen|].
  cbn [Nat.add]. rewrite !walk_S in *. destruct (by_hash s t) as [x|]; [|reflexivity].
  f_equal. apply IH. cbn in Hlen. lia.
Qed.

Lemma regular_next s t x : regular s t -> by_hash s t = Some x -> regular s (prev x).
Proof. intros HR E y p Hy Hp. apply (HR y p); [eapply reach_next; eassumption| exact Hp]. Qed.

(* the i-th row of a height-consistent walk lies i below the first *)
Lemma walk_nth_height s f : forall t x i y, regular s t -> by_hash s t = Some x ->
  nth_error (walk f s t) i = Some y -> height y = height x - Z.of_nat i.
Proof.
  induction f as [|f IH]; intros t x i y HR E H; [destruct i; discriminate|].
  rewrite walk_S, E in H. destruct i as [|i]; cbn in H.
  - inversion H; subst. cbn. lia.
  - destruct f as [|f']; [destruct i; discriminate|].
    destruct (by_hash s (prev x)) as [p|] eqn:Ep; [|rewrite walk_S, Ep in H; destruct i; discriminate].
    rewrite (IH (prev x) p i y (regular_next s t x HR E) Ep H).
    rewrite (HR x p (reach_here s t x E) Ep). lia.
Qed.

Lemma walk_nth_succ s f : forall t i c p, nth_error (walk f s t) i = Some c -> nth_error (walk f s t) (Datatypes.S i) = Some p ->
  by_hash s (prev c) = Some p.
Proof.
  induction f as [|f IH]; intros t i c p H1 H2; [destruct i; discriminate|].
  rewrite walk_S in *. destruct (by_hash s t) as [x|] eqn:E; [|destruct i; discriminate].
  destruct i as [|i]; cbn in H1, H2.
  - inversion H1; subst c. destruct f as [|f']; [discriminate|]. rewrite walk_S in H2.
    destruct (by_hash s (prev x)) as [q|]; [|discriminate]. cbn in H2. inversion H2; subst. reflexivity.
  - apply (IH (prev x) i c p H1 H2).
Qed.

Lemma walk_incl s f : forall t, incl (walk f s t) s.
Proof. intros t y Hy. apply (reach_in s t). apply (walk_reach s f). exact Hy. Qed.

Lemma walk_nodup s f t x : regular s t -> by_hash s t = Some x -> NoDup (walk f s t).
Proof.
  intros HR E. apply NoDup_nth_error. intros i j Hi Hij.
  destruct (nth_error (walk f s t) i) as [y|] eqn:Ei; [|apply nth_error_None in Ei; lia].
  symmetry in Hij.
  pose proof (walk_nth_height s f t x i y HR E Ei). pose proof (walk_nth_height s f t x j y HR E Hij). lia.
Qed.

(* the fuel of the model is never exhausted on a height-consistent walk *)
Lemma walk_complete s t : regular s t -> forall k, walk (fuel_of s + k) s t = walk (fuel_of s) s t.
Proof.
  intros HR k. destruct (by_hash s t) as [x|] eqn:E.
  - apply walk_stable. unfold fuel_of.
    pose proof (NoDup_incl_length (walk_nodup s (Datatypes.S (length s)) t x HR E) (walk_incl s _ t)). lia.
  - unfold fuel_of. cbn [Nat.add]. rewrite !walk_S, E. reflexivity.
Qed.

Lemma reach_iff_walk s t y : regular s t -> (reach s t y <-> In y (walk (fuel_of s) s t)).
Proof.
  intros HR. split; [|apply walk_reach].
  intros H. destruct (reach_walk s t y H) as (f & Hf).
  destruct (Nat.le_ge_cases f (fuel_of s)) as [Hle|Hge].
  - destruct (walk_prefix s f t (fuel_of s - f)) as [rest Hr]. replace (f + (fuel_of s - f))%nat with (fuel_of s) in Hr by lia.
    rewrite Hr. apply in_or_app. left. exact Hf.
  - rewrite <- (walk_complete s t HR (f - fuel_of s)). replace (fuel_of s + (f - fuel_of s))%nat with f by lia. exact Hf.
Qed.

Lemma reach_height_inj s t a b : regular s t -> reach s t a -> reach s t b -> height a = height b -> a = b.
Proof.
  intros HR Ha Hb Hh. apply (reach_iff_walk s t a HR) in Ha. apply (reach_iff_walk s t b HR) in Hb.
  destruct (In_nth_error _ _ Ha) as [i Hi]. destruct (In_nth_error _ _ Hb) as [j Hj].
  destruct (by_hash s t) as [x|] eqn:E; [|unfold fuel_of in Hi; rewrite walk_S, E in Hi; destruct i; discriminate].
  pose proof (walk_nth_height s _ t x i a HR E Hi). pose proof (walk_nth_height s _ t x j b HR E Hj).
  assert (i = j) by lia. subst j. congruence.
Qed.

Lemma reach_height_le s t x y : regular s t -> by_hash s t = Some x -> reach s t y -> height y <= height x.
Proof.
  intros HR E Hy. apply (reach_iff_walk s t y HR) in Hy. destruct (In_nth_error _ _ Hy) as [i Hi].
  rewrite (walk_nth_height s _ t x i y HR E Hi). lia.
Qed.

(* ---------------- non-orphans: parents were stored first, so every link is height-consistent ---------------- *)
Lemma nonorphan_parent s : wf s -> forall y, In y s -> orph y = false ->
  (by_hash s (prev y) = None /\ height y = 0 /\ last s y = y) \/
  (exists p, by_hash s (prev y) = Some p /\ height y = height p + 1 /\ orph p = false).
Proof.
  induction 1 as [g Hg | r s Hwf IH Hn Hz Hok]; try unfold row_ok in Hok; intros y Hy Ho.
  - destruct Hy as [<-|[]]. left. destruct Hg as (Hp & Hid & Hh & _). repeat split; [|exact Hh].
    unfold by_hash. cbn. rewrite Hp. destruct (N.eqb_spec (id g) 0%N); [contradiction| reflexivity].
  - assert (Hfresh: forall p, In p s -> N.eqb (id r) (id p) = false).
    { intros p Hp. apply N.eqb_neq. intro E. apply Hn. rewrite E. apply in_map. exact Hp. }
    destruct Hy as [<-|Hy].
    + right. destruct (by_hash s (prev r)) as [p|] eqn:Ep; [|destruct Hok; congruence].
      destruct (by_hash_in _ _ _ Ep) as [Hpin Hpid]. exists p. destruct Hok as (H1 & H2 & _).
      split; [|split; [exact H2| congruence]].
      unfold by_hash. cbn. rewrite <- Hpid, (Hfresh p Hpin). rewrite Hpid. exact Ep.
    + destruct (IH y Hy Ho) as [(Hnone & Hh & Hl)|(p & Ep & Hh & Hpo)].
      * left. repeat split; [|exact Hh|].
        -- unfold by_hash. cbn. destruct (N.eqb_spec (id r) (prev y)) as [E|E]; [|exact Hnone].
           exfalso. (* prev y = 0 would make id r = 0; otherwise the parent of a non-orphan is stored *)
           clear IH. revert Hnone Hh E. clear - Hwf Hy Ho Hz.
           induction Hwf as [g Hg | a s0 Hwf0 IH0 Hn0 Hz0 Hok0]; try unfold row_ok in Hok0; intros Hnone Hh E.
           ++ destruct Hy as [<-|[]]. destruct Hg as (Hp & _). congruence.
           ++ destruct Hy as [<-|Hy].
              ** destruct (by_hash s0 (prev a)) as [p|] eqn:Ep; [|destruct Hok0; congruence].
                 unfold by_hash in Hnone. cbn in Hnone. destruct (N.eqb (id a) (prev a)); [discriminate|].
                 unfold by_hash in Ep. congruence.
              ** apply IH0; try assumption.
                 unfold by_hash in Hnone |- *. cbn in Hnone. destruct (N.eqb (id a) (prev y)); [discriminate| exact Hnone].
        -- destruct s as [|a s']; [inversion Hy|]. exact Hl.
      * right. exists p. destruct (by_hash_in _ _ _ Ep) as [Hpin Hpid]. split; [|split; assumption].
        unfold by_hash. cbn. rewrite <- Hpid, (Hfresh p Hpin). rewrite Hpid. exact Ep.
Qed.

Lemma reach_nonorph s t y : wf s -> reach s t y -> (forall x, by_hash s t = Some x -> orph x = false) -> orph y = false.
Proof.
  intros Hwf. induction 1 as [t x E | t x y E _ IH]; intros Ho; [apply Ho; exact E|].
  apply IH. intros p Ep. pose proof (Ho x E) as Hx.
  destruct (nonorphan_parent s Hwf x (proj1 (by_hash_in _ _ _ E)) Hx) as [(Hn & _)|(q & Eq & _ & Hq)]; congruence.
Qed.

(* every connected (non-orphan) header is regular *)
Theorem connected_regular s t x : wf s -> by_hash s t = Some x -> orph x = false -> regular s t.
Proof.
  intros Hwf E Ho y p Hy Ep.
  assert (Hyo: orph y = false) by (apply (reach_nonorph s t y Hwf Hy); intros x' E'; congruence).
  destruct (nonorphan_parent s Hwf y (reach_in _ _ _ Hy) Hyo) as [(Hn & _)|(q & Eq & Hh & _)]; congruence.
Qed.

(* ================================================================== single-row reads *)
Theorem lookup_spec_wf s t : wf s ->
  (forall r, get_by_hash s t = Some r <-> In r s /\ id r = t) /\ (get_by_hash s t = None <-> ~ In t (ids s)).
Proof.
  intros Hwf. pose proof (wf_nodup s Hwf) as Hnd. unfold get_by_hash. split.
  - intros r. split; [apply by_hash_in|]. intros [Hr <-]. apply by_hash_self; assumption.
  - split; [apply by_hash_none|]. intros Hn. destruct (by_hash s t) as [x|] eqn:E; [|reflexivity].
    exfalso. apply Hn. destruct (by_hash_in _ _ _ E) as [Hx <-]. apply in_map. exact Hx.
Qed.

Theorem lookup_spec s t : Valid s ->
  (forall r, get_by_hash s t = Some r <-> In r s /\ id r = t) /\ (get_by_hash s t = None <-> ~ In t (ids s)).
Proof. intros HV. apply lookup_spec_wf, valid_wf, HV. Qed.

(* tip/longest reports the tip of the invariant: the Longest row above every other Longest row (any work) *)
Theorem tip_longest_inv s tip : Inv s tip ->
  exists t, tip_longest s = Some t /\ by_hash s tip = Some t /\ In t s /\ st t = Longest /\
            (forall r, In r s -> st r = Longest -> r = t \/ height r < height t).
Proof.
  intros HI. pose proof HI as (_ & (t & Htip & _) & _).
  destruct (tip_is_L s tip t HI Htip) as [Hin HL].
  exists t. unfold tip_longest. rewrite (tipB_is_tip s tip HI). repeat split; try assumption.
  intros r Hr HrL. apply (tip_height_max s tip t HI Htip r Hr HrL).
Qed.

Theorem tip_longest_spec s : Valid s ->
  exists t, tip_longest s = Some t /\ In t s /\ st t = Longest /\ best s = Some t /\
            (forall r, In r s -> st r = Longest -> r = t \/ height r < height t).
Proof.
  intros (tip & HI & Hb). destruct (tip_longest_inv s tip HI) as (t & H1 & H2 & H3 & H4 & H5).
  exists t. repeat split; try assumption. congruence.
Qed.
