(* C15 model: several submitters call Add concurrently while readers call GetTip; the atomic steps are the
   repository operations (what the harness scheduler controls).  Add holds a lock for its whole duration
   (chainService.mu, fix commit), so one Add's operations are never interleaved with another Add's; reader
   operations may fall anywhere, in particular between the writes of a reorganisation.  Definitions only. *)
From Coq Require Import ZArith NArith List Bool Arith.
From BHS Require Import Work Store Chain ChainSpec.
Import ListNotations.
Open Scope Z_scope.

Inductive opk := OpR | OpW | OpT.     (* repository read / write / GetTip *)

Record cstate := {
  c_store : store;
  c_active : option (nat * list write);   (* the Add in progress: its thread and its remaining writes *)
  c_order : list nat;                     (* threads in the order their Add started (newest first) *)
  c_outs : list (nat * outcome);
  c_tips : list (option N);               (* tips observed by the reader (newest first) *)
  c_bad : bool                            (* an operation that a serialised execution cannot produce *)
}.

Definition cinit (s : store) : cstate :=
  {| c_store := s; c_active := None; c_order := []; c_outs := []; c_tips := []; c_bad := false |}.

Definition set_bad (st : cstate) : cstate :=
  {| c_store := c_store st; c_active := c_active st; c_order := c_order st; c_outs := c_outs st; c_tips := c_tips st; c_bad := true |}.

(* make [tid] the active Add: either it already is, or nobody is in the middle of their writes and it starts
   now by planning on the current store *)
Definition activate (f : list N) (hdr : nat -> option src) (st : cstate) (tid : nat) : cstate :=
  let start (st : cstate) :=
    match hdr tid with
    | None => set_bad st
    | Some h =>
      if existsb (Nat.eqb tid) (c_order st) then set_bad st       (* one Add per thread *)
      else let '(o, ws) := plan f (c_store st) h in
           {| c_store := c_store st; c_active := Some (tid, ws); c_order := tid :: c_order st;
              c_outs := (tid, o) :: c_outs st; c_tips := c_tips st; c_bad := c_bad st |}
    end in
  match c_active st with
  | Some (t, ws) => if Nat.eqb t tid then st
                    else match ws with [] => start st | _ => set_bad st end
  | None => start st
  end.

Definition cstep (f : list N) (hdr : nat -> option src) (st : cstate) (ev : nat * opk) : cstate :=
  let '(tid, k) := ev in
  match tid with
  | Datatypes.O =>   (* the reader: GetTip on whatever the store is right now; its other repository reads
                        (the lookups of a common-ancestor request) leave the state alone *)
    match k with
    | OpT => {| c_store := c_store st; c_active := c_active st; c_order := c_order st; c_outs := c_outs st;
                c_tips := option_map id (tipB (c_store st)) :: c_tips st; c_bad := c_bad st |}
    | _ => st
    end
  | _ =>
    let st1 := activate f hdr st tid in
    match k with
    | OpW => match c_active st1 with
             | Some (t, w :: ws) =>
               {| c_store := apply_write (c_store st1) w; c_active := Some (t, ws); c_order := c_order st1;
                  c_outs := c_outs st1; c_tips := c_tips st1; c_bad := c_bad st1 |}
             | _ => set_bad st1
             end
    | _ => st1
    end
  end.

Definition crun (f : list N) (hdr : nat -> option src) (st : cstate) (tr : list (nat * opk)) : cstate :=
  fold_left (cstep f hdr) tr st.

Definition quiescent (st : cstate) : bool :=
  match c_active st with Some (_, _ :: _) => false | _ => true end.

(* the headers in the order their Adds started *)
Fixpoint headers_of (hdr : nat -> option src) (order : list nat) : list src :=
  match order with
  | [] => []
  | t :: o => match hdr t with Some h => headers_of hdr o ++ [h] | None => headers_of hdr o end
  end.
