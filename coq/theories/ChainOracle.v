(* The executable structural-validity oracle (Crash.struct_validb), which bin/check applies to the
   implementation's tables, accepts every store that satisfies the proved invariant: it cannot raise an alarm on a
   behaviour the model allows. *)
From Coq Require Import ZArith NArith List Lia Bool Arith Permutation.
From BHS Require Import Work Store Chain ChainSpec Crash StoreProofs ChainInv ChainReorg ChainAdd ChainMain ChainFields ChainCrash.
Import ListNotations.
Open Scope Z_scope.

Lemma is_L_iff_st r : is_L r = true <-> st r = Longest.
Proof. unfold is_L. apply st_eqb_eq. Qed.

Lemma nodup_rows s : NoDup (ids s) -> NoDup s.
Proof. intros H. unfold ids in H. apply NoDup_map_inv in H. exact H. Qed.

Lemma filter_unique_length {A} (p : A -> bool) (l : list A) x :
  NoDup l -> In x l -> p x = true -> (forall y, In y l -> p y = true -> y = x) -> length (filter p l) = 1%nat.
Proof.
  induction l as [|a l IH]; intros Hnd Hx Hp Hu; [inversion Hx|].
  inversion Hnd as [|? ? Hna Hnd']; subst. cbn [filter].
  destruct (p a) eqn:Ea.
  - assert (a = x) by (apply Hu; [left; reflexivity| exact Ea]). subst a. cbn [length]. f_equal.
    assert (Hn: filter p l = []).
    { apply filter_none. intros y Hy. destruct (p y) eqn:Ey; [|reflexivity].
      exfalso. apply Hna. rewrite <- (Hu y (or_intror Hy) Ey). exact Hy. }
    rewrite Hn. reflexivity.
  - destruct Hx as [->|Hx]; [congruence|]. apply IH; auto. intros y Hy. apply Hu. right. exact Hy.
Qed.

Lemma chain_length_height s : wf s -> forall rest t y, chain s t = y :: rest -> orph y = false ->
  Z.of_nat (length (y :: rest)) = height y + 1.
Proof.
  intros Hwf rest. revert s Hwf. induction rest as [|b c IH]; intros s Hwf t y H Hy.
  - destruct (chain_connected_nonempty_last s Hwf t y [] H Hy) as (g & Hl & Hg0 & _). cbn in Hl. subst g. cbn. lia.
  - destruct (chain_step s Hwf t y b c H) as (_ & Hh & _ & Ho).
    destruct (chain_tail_is_chain _ _ _ _ H) as (s' & [pre Hpre] & Hr).
    assert (Hwf': wf s').
    { subst s. apply (wf_suffix (pre ++ [y]) s'); [rewrite <- app_assoc; exact Hwf|].
      intro E. subst s'. cbn in Hr. discriminate. }
    pose proof (IH s' Hwf' (prev y) b (eq_sym Hr) ltac:(congruence)) as Hlen.
    change (length (y :: b :: c)) with (S (length (b :: c))). lia.
Qed.

Lemma maxLh_is_tip_height s tip t : Inv s tip -> by_hash s tip = Some t -> maxLh s = height t.
Proof.
  intros HI Ht. pose proof HI as (Hwf & _ & _). destruct (tip_is_L s tip t HI Ht) as [Hin HL].
  pose proof (maxLh_ge s t Hin HL) as Hge.
  destruct (maxLh_attained s) as [Hm|(r & Hr & HrL & Hh)].
  - pose proof (wf_height_nonneg s Hwf t Hin). lia.
  - destruct (tip_height_max s tip t HI Ht r Hr HrL) as [->|Hlt]; lia.
Qed.

Lemma heights_up_to_in n h : In h (heights_up_to n) -> 0 <= h <= Z.of_nat n.
Proof.
  induction n as [|n IH]; cbn [heights_up_to]; intros Hin.
  - destruct Hin as [<-|[]]. lia.
  - destruct Hin as [<-|Hin]; [lia|]. specialize (IH Hin). lia.
Qed.

Theorem inv_struct_validb s tip : Inv s tip -> struct_validb s = true.
Proof.
  intros HI. destruct (inv_struct_valid s tip HI) as (t & Ht & Htin & HtL & Huniq & Hrange & Hcover & Hlink).
  pose proof HI as (Hwf & (t' & Ht' & Hto) & _). assert (t' = t) by congruence. subst t'.
  pose proof (wf_nodup s Hwf) as Hndi. pose proof (nodup_rows s Hndi) as Hnd.
  pose proof (maxLh_is_tip_height s tip t HI Ht) as Hmax.
  pose proof (wf_height_nonneg s Hwf t Htin) as Hh0.
  unfold struct_validb. apply andb_true_intro. split.
  - unfold one_L_per_height. rewrite Hmax. apply andb_true_intro. split; [apply andb_true_intro; split|].
    + apply Z.leb_le. exact Hh0.
    + apply forallb_forall. intros h Hh. apply heights_up_to_in in Hh. rewrite Z2Nat.id in Hh by exact Hh0.
      apply Nat.eqb_eq. unfold count_L_at.
      destruct (Hcover h Hh) as (r & Hr & HrL & Hrh).
      apply (filter_unique_length _ s r Hnd Hr).
      * apply andb_true_intro. split; [apply is_L_iff_st; exact HrL| apply Z.eqb_eq; exact Hrh].
      * intros y Hy Hpy. apply andb_prop in Hpy. destruct Hpy as [H1 H2]. apply is_L_iff_st in H1. apply Z.eqb_eq in H2.
        apply (Huniq y r Hy Hr H1 HrL). congruence.
    + apply Nat.eqb_eq.
      destruct (by_hash_chain s tip Hndi t Ht) as [rest Hc].
      assert (Hperm: Permutation (filter is_L s) (chain s tip)).
      { apply NoDup_Permutation; [apply NoDup_filter; exact Hnd| apply chain_nodup; exact Hndi|].
        intros x. rewrite filter_In. split.
        - intros [Hx HL]. apply is_L_iff_st in HL. apply (is_L_iff s tip HI x Hx). exact HL.
        - intros Hx. assert (Hxs: In x s) by (apply (chain_incl s tip); exact Hx).
          split; [exact Hxs|]. apply is_L_iff_st. apply (is_L_iff s tip HI x Hxs). exact Hx. }
      rewrite (Permutation_length Hperm), Hc.
      pose proof (chain_length_height s Hwf rest tip t Hc Hto) as Hlen.
      apply Nat2Z.inj. rewrite Hlen, Nat2Z.inj_succ, Z2Nat.id by exact Hh0. lia.
  - unfold L_parent_linked. apply forallb_forall. intros r Hr.
    destruct (is_L r) eqn:EL; [|reflexivity]. cbn [negb orb].
    destruct (Z.eqb_spec (height r) 0) as [E0|E0]; [reflexivity|]. cbn [orb].
    apply is_L_iff_st in EL. destruct (Hrange r Hr EL) as [Hr0 _].
    destruct (Hlink r Hr EL ltac:(lia)) as (q & Hq & HqL & Hpq & Hhq).
    apply existsb_exists. exists q. split; [exact Hq|].
    apply andb_true_intro. split; [apply andb_true_intro; split|].
    + apply is_L_iff_st. exact HqL.
    + apply N.eqb_eq. symmetry. exact Hpq.
    + apply Z.eqb_eq. lia.
Qed.

(* hence: every reachable store, every crash state (write / commit / statement granularity) passes the oracle *)
Corollary reachable_passes_oracle f gid gpl hs : gid <> 0%N -> nonzero_ids hs -> struct_validb (run f gid gpl hs) = true.
Proof. intros Hg Hn. destruct (reachable_inv f gid gpl hs Hg Hn) as [tip HI]. exact (inv_struct_validb _ tip HI). Qed.

Corollary crash_state_passes_oracle f s tip h k : Inv s tip -> s_id h <> 0%N -> struct_validb (crash_state f s h k) = true.
Proof. intros HI Hz. destruct (crash_inv f s tip h k HI Hz) as [tip' HI']. exact (inv_struct_validb _ tip' HI'). Qed.

(* ---- conversely: whatever the oracle accepts has exactly one longest-chain header at every height from 0 to the
   greatest longest-chain height, none above, and every longest-chain header above height 0 has a longest-chain
   parent one below - the statement's "structurally valid", read off the raw table ---- *)
Lemma heights_up_to_all n h : 0 <= h <= Z.of_nat n -> In h (heights_up_to n).
Proof.
  induction n as [|n IH]; cbn [heights_up_to]; intros Hh.
  - left. lia.
  - destruct (Z.eq_dec h (Z.of_nat (S n))) as [->|Hne]; [left; reflexivity|]. right. apply IH. lia.
Qed.

Lemma filter_length_one {A} (p : A -> bool) (l : list A) : length (filter p l) = 1%nat ->
  exists x, In x l /\ p x = true /\ forall y, In y l -> p y = true -> y = x.
Proof.
  intros H. destruct (filter p l) as [|x [|z r]] eqn:E; try discriminate.
  assert (Hx: In x (filter p l)) by (rewrite E; left; reflexivity). apply filter_In in Hx. destruct Hx as [Hxl Hpx].
  exists x. split; [exact Hxl|]. split; [exact Hpx|].
  intros y Hy Hpy. assert (Hyf: In y (filter p l)) by (apply filter_In; auto). rewrite E in Hyf.
  destruct Hyf as [<-|[]]. reflexivity.
Qed.

Theorem struct_validb_sound s : struct_validb s = true ->
  0 <= maxLh s /\
  (forall h, 0 <= h <= maxLh s ->
     exists x, In x s /\ st x = Longest /\ height x = h /\
               forall y, In y s -> st y = Longest -> height y = h -> y = x) /\
  (forall r, In r s -> st r = Longest -> height r <= maxLh s) /\
  (forall r, In r s -> st r = Longest -> height r <> 0 ->
     exists q, In q s /\ st q = Longest /\ id q = prev r /\ height q + 1 = height r).
Proof.
  unfold struct_validb, one_L_per_height, L_parent_linked. intros H.
  apply andb_prop in H. destruct H as [H1 H2]. apply andb_prop in H1. destruct H1 as [H1 _].
  apply andb_prop in H1. destruct H1 as [H0 Hall]. apply Z.leb_le in H0.
  split; [exact H0|]. split; [|split].
  - intros h Hh. rewrite forallb_forall in Hall.
    assert (Hin: In h (heights_up_to (Z.to_nat (maxLh s)))) by (apply heights_up_to_all; rewrite Z2Nat.id by exact H0; exact Hh).
    specialize (Hall h Hin). apply Nat.eqb_eq in Hall. unfold count_L_at in Hall.
    destruct (filter_length_one _ s Hall) as (x & Hx & Hpx & Hu).
    apply andb_prop in Hpx. destruct Hpx as [Hx1 Hx2]. apply is_L_iff_st in Hx1. apply Z.eqb_eq in Hx2.
    exists x. repeat split; auto. intros y Hy HyL Hyh. apply Hu; [exact Hy|].
    apply andb_true_intro. split; [apply is_L_iff_st; exact HyL| apply Z.eqb_eq; exact Hyh].
  - intros r Hr HL. apply (maxLh_ge s r Hr HL).
  - intros r Hr HL Hnz. rewrite forallb_forall in H2. specialize (H2 r Hr).
    apply is_L_iff_st in HL. rewrite HL in H2. cbn [negb orb] in H2.
    destruct (Z.eqb_spec (height r) 0) as [E|_]; [contradiction|]. cbn [orb] in H2.
    apply existsb_exists in H2. destruct H2 as (q & Hq & Hpq).
    apply andb_prop in Hpq. destruct Hpq as [Hpq Hh]. apply andb_prop in Hpq. destruct Hpq as [HqL Hid].
    exists q. split; [exact Hq|]. split; [apply is_L_iff_st; exact HqL|]. split; [apply N.eqb_eq; exact Hid| apply Z.eqb_eq; exact Hh].
Qed.
