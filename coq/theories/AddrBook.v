(* The bookkeeping of the address manager (transports/p2p/addrmgr/addrmanager.go): the counters nNew / nTried, the
   index of known addresses with their new-bucket reference counts, and the new / tried tables - as far as
   updateAddress (AddAddresses), Good and BanAddress (removeAddrFromTried, removeAddrFromNew) touch them.
   GetAddress relies on them: it takes the tried branch when nTried > 0 and then loops until it finds a non-empty
   tried bucket (likewise for new), holding the manager's mutex.

   The tables are kept per address: [e_buckets] the new buckets that hold it, [e_tried_in] the tried bucket that
   holds it.  The bucket a hash selects and the outcome of the 1-in-2N lottery of updateAddress are the environment:
   they are arguments of the operations.  Not modelled: eviction from a full bucket (64 entries; the scripts of the
   tie stay far below), timestamps / attempts (they do not touch counters or tables), expiry of bans. *)
From Coq Require Import List ZArith Bool NArith Lia.
Import ListNotations.
Open Scope Z_scope.

Record entry := mkE {
  e_key : N;
  e_refs : Z;                 (* ka.refs: meant to count the new buckets holding the address *)
  e_buckets : list N;         (* the new buckets that hold it *)
  e_tried : bool;             (* ka.tried *)
  e_tried_in : option N       (* the tried bucket whose list holds it *)
}.

Record st := mkS { index : list entry; n_new : Z; n_tried : Z; banned : list N }.

Definition init : st := mkS [] 0 0 [].

Definition keyb (k : N) (e : entry) : bool := N.eqb (e_key e) k.

Fixpoint find (k : N) (l : list entry) : option entry :=
  match l with [] => None | e :: r => if keyb k e then Some e else find k r end.

Fixpoint upd (k : N) (f : entry -> entry) (l : list entry) : list entry :=
  match l with [] => [] | e :: r => if keyb k e then f e :: r else e :: upd k f r end.

Fixpoint del (k : N) (l : list entry) : list entry :=
  match l with [] => [] | e :: r => if keyb k e then r else e :: del k r end.

Definition max_refs : Z := 8.   (* newBucketsPerAddress *)

Inductive op :=
| OpAdd (k : N) (bucket : N) (lottery : bool)   (* updateAddress of a routable address *)
| OpGood (k : N) (tried_bucket : N)
| OpBan (k : N).

Definition mem (x : N) (l : list N) : bool := existsb (N.eqb x) l.

Definition add (s : st) (k b : N) (lottery : bool) : st :=
  if mem k (banned s) then s else
  match find k (index s) with
  | Some e =>
    if e_tried e then s
    else if e_refs e =? max_refs then s
    else if negb lottery then s
    else if mem b (e_buckets e) then s
    else mkS (upd k (fun e => mkE (e_key e) (e_refs e + 1) (b :: e_buckets e) (e_tried e) (e_tried_in e)) (index s))
             (n_new s) (n_tried s) (banned s)
  | None =>
    (* a fresh address: indexed, counted, and put into the bucket (it cannot be there yet) *)
    mkS (mkE k 1 [b] false None :: index s) (n_new s + 1) (n_tried s) (banned s)
  end.

Definition good (s : st) (k tb : N) : st :=
  match find k (index s) with
  | None => s
  | Some e =>
    if e_tried e then s
    else
      let refs' := e_refs e - Z.of_nat (length (e_buckets e)) in
      match e_buckets e with
      | [] => (* "wasn't in a bucket after all": nNew is decremented all the same *)
        mkS (index s) (n_new s - 1) (n_tried s) (banned s)
      | _ :: _ =>
        mkS (upd k (fun e => mkE (e_key e) refs' [] true (Some tb)) (index s)) (n_new s - 1) (n_tried s + 1) (banned s)
      end
  end.

(* removeAddrFromTried as repaired (dec9d30): the entry leaves the tried table, nTried and the index *)
Definition rm_tried (e : entry) (nt : Z) : entry * Z * bool :=
  match e_tried_in e with
  | None => (e, nt, false)
  | Some _ => (mkE (e_key e) (e_refs e) (e_buckets e) false None, nt - 1, true)
  end.

(* ... and as it was: refs is decremented and only "refs == 0" touches nTried and the index *)
Definition rm_tried_old (e : entry) (nt : Z) : entry * Z * bool :=
  match e_tried_in e with
  | None => (e, nt, false)
  | Some _ =>
    let r := e_refs e - 1 in
    (mkE (e_key e) r (e_buckets e) (e_tried e) None, (if r =? 0 then nt - 1 else nt), r =? 0)
  end.

(* removeAddrFromNew: every bucket that holds the address drops it and decrements refs; reaching 0 decrements nNew and
   removes the index entry *)
Fixpoint rm_new_loop (bs : list N) (refs nn : Z) (gone : bool) : Z * Z * bool :=
  match bs with
  | [] => (refs, nn, gone)
  | _ :: r => let refs' := refs - 1 in
              if refs' =? 0 then rm_new_loop r refs' (nn - 1) true else rm_new_loop r refs' nn gone
  end.

Definition ban_with (rmt : entry -> Z -> entry * Z * bool) (s : st) (k : N) : st :=
  let bn := k :: banned s in
  match find k (index s) with
  | None => mkS (index s) (n_new s) (n_tried s) bn
  | Some e =>
    let '(e1, nt, gone1) := rmt e (n_tried s) in
    let '(refs, nn, gone2) := rm_new_loop (e_buckets e1) (e_refs e1) (n_new s) false in
    let e2 := mkE (e_key e1) refs [] (e_tried e1) (e_tried_in e1) in
    mkS (if gone1 || gone2 then del k (index s) else upd k (fun _ => e2) (index s)) nn nt bn
  end.

Definition ban := ban_with rm_tried.
Definition ban_old := ban_with rm_tried_old.

Definition step (s : st) (o : op) : st :=
  match o with OpAdd k b l => add s k b l | OpGood k tb => good s k tb | OpBan k => ban s k end.
Definition step_old (s : st) (o : op) : st :=
  match o with OpAdd k b l => add s k b l | OpGood k tb => good s k tb | OpBan k => ban_old s k end.

Definition run (ops : list op) : st := fold_left step ops init.
Definition run_old (ops : list op) : st := fold_left step_old ops init.

(* what the tables hold *)
Definition in_tried (s : st) : Z := Z.of_nat (length (filter (fun e => match e_tried_in e with Some _ => true | None => false end) (index s))).
Definition in_new (s : st) : Z := Z.of_nat (length (filter (fun e => match e_buckets e with [] => false | _ => true end) (index s))).
Definition refs_of (s : st) (k : N) : Z := match find k (index s) with Some e => e_refs e | None => -1 end.
