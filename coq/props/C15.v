(* C15 - Concurrent ingestion / reads: valid views, serial outcome.
   Only the property theorems; each is closed by `exact`.

   Model (Conc.v): the atomic steps are repository operations; chainService.Add holds a lock for its whole
   duration (fix 73297d0), so an Add's operations are not interleaved with another Add's, while readers may
   observe the store between any two writes.  The part of the statement about data races and crashes of the Go
   runtime is not expressible in an executable Gallina model: it is supported (not proved) by the race detector
   in the thorough tier. *)
From Coq Require Import ZArith NArith List.
From BHS Require Import Work Store Chain ChainSpec Conc ChainInv ChainMain ChainFields ChainCrash ConcProofs.
Import ListNotations.
Open Scope Z_scope.

(* serial outcome: for EVERY interleaving (trace of repository operations) that the serialised service can
   produce, the final store equals ingesting the same headers sequentially, in the order their Adds started *)
Theorem C15_serial_outcome : forall f hdr s0 tip0, Inv s0 tip0 -> (forall t h, hdr t = Some h -> s_id h <> 0%N) ->
  forall tr, let st := crun f hdr (cinit s0) tr in
  c_bad st = false -> quiescent st = true -> c_store st = run_from f s0 (headers_of hdr (c_order st)).
Proof. exact conc_serial_outcome. Qed.

(* valid views: every tip a reader observes at any point of any interleaving - also between the writes of a
   reorganisation - is a longest-chain header of a store satisfying the structural invariant *)
Theorem C15_reader_views : forall f hdr s0 tip0, Inv s0 tip0 -> (forall t h, hdr t = Some h -> s_id h <> 0%N) ->
  forall tr, let cs := crun f hdr (cinit s0) tr in
  c_bad cs = false -> forall x, In x (c_tips cs) ->
  exists s' tip' t, Inv s' tip' /\ by_hash s' tip' = Some t /\ st t = Longest /\ x = Some (id t).
Proof. exact conc_reader_views. Qed.

(* ... and such a store has exactly one longest-chain header at every height (never two) *)
Theorem C15_never_two_longest : forall s tip, Inv s tip -> exists t, by_hash s tip = Some t /\ struct_valid s t.
Proof. exact inv_struct_valid. Qed.

Print Assumptions C15_serial_outcome.
Print Assumptions C15_reader_views.
Print Assumptions C15_never_two_longest.
