(* C09 - Every API route is mediated by authentication; admin routes by the admin token.
   This file contains only the property theorems, each closed by `exact` (the finite statements about this
   run's regenerated routing table BHSGen.Routes are closed by vm_compute and lifted with forallb_forall).
   Model: BHS.Auth (header parser, ApplyToAPI, RequireAdmin, gin's handler chain) on top of BHS.Tokens. *)
From Coq Require Import String List Bool.
From BHS Require Import Tokens Auth AuthProofs.
From BHSGen Require Import Routes.
Import ListNotations.
Open Scope string_scope.

(* with authentication on, the middleware lets a request through iff its Authorization value is
   "Bearer " ++ t with t free of spaces and t the admin token or an issued (unrevoked) token *)
Theorem C09_header_accepted_iff : forall admin st hdr,
  (exists r, middleware true admin st hdr = Pass (Some r)) <->
  exists t, hdr = "Bearer " ++ t /\ no_spaceb t = true /\ (t = admin \/ In t st).
Proof. exact header_accepted_iff. Qed.

(* the parser: missing iff empty; a token iff exactly "Bearer " ++ space-free t; everything else invalid *)
Theorem C09_parse_missing_iff : forall h, parse_auth_header h = Missing <-> h = "".
Proof. exact parse_missing_iff. Qed.
Theorem C09_parse_tok_iff : forall h t, parse_auth_header h = Tok t <-> h = "Bearer " ++ t /\ no_spaceb t = true.
Proof. exact parse_tok_iff. Qed.
Theorem C09_parse_invalid_iff : forall h,
  parse_auth_header h = Invalid <-> h <> "" /\ forall t, ~ (h = "Bearer " ++ t /\ no_spaceb t = true).
Proof. exact parse_invalid_iff. Qed.

(* an unauthenticated request is stopped in the middleware: whatever handlers follow, none runs, the state is
   the initial one, the answer is the 401 error *)
Theorem C09_unauth_401_before_handler : forall (S : Type) use_auth admin st hdr e,
  middleware use_auth admin st hdr = Reject e ->
  forall (hs : list (handler S)) (s : S),
    run_chain S (mw_handler S use_auth admin st hdr :: hs) (init_ctx S s) = abort_with S e (init_ctx S s).
Proof. exact rejected_before_any_handler. Qed.

(* the chain of an API route (middleware, then the possibly RequireAdmin-wrapped handler) does what [decide] says *)
Theorem C09_chain_decide : forall (S : Type) use_auth admin st hdr wrapped (h : handler S) (s : S),
  let c := run_chain S (api_chain S use_auth admin st hdr wrapped h) (init_ctx S s) in
  match decide use_auth admin st wrapped hdr with
  | Denied e => c = abort_with S e {| state := s; tokv := tokv S c; aborted := false; resp := None |}
                /\ state S c = s /\ resp S c = Some e /\ aborted S c = true
  | Reached => exists tok, middleware use_auth admin st hdr = Pass tok /\
                 c = h {| state := s; tokv := tok; aborted := false; resp := None |}
  end.
Proof. exact chain_decide. Qed.

(* ordinary API routes are reached iff the header is accepted *)
Theorem C09_api_routes : forall admin st hdr,
  decide true admin st false hdr = Reached <->
  exists t, hdr = "Bearer " ++ t /\ no_spaceb t = true /\ (t = admin \/ In t st).
Proof. exact decide_plain_iff. Qed.

(* creating and revoking tokens additionally require the admin token *)
Theorem C09_admin_routes : forall admin st hdr,
  decide true admin st true hdr = Reached <-> hdr = "Bearer " ++ admin /\ no_spaceb admin = true.
Proof. exact admin_routes. Qed.

(* every refusal is one of the structured 401 errors, for the stated reason *)
Theorem C09_denied_reason : forall admin st wrapped hdr e,
  decide true admin st wrapped hdr = Denied e ->
  (e = ErrMissingAuthHeader /\ hdr = "") \/
  (e = ErrInvalidAuthHeader /\ parse_auth_header hdr = Invalid) \/
  (e = ErrInvalidAccessToken /\ exists t, parse_auth_header hdr = Tok t /\ get_token admin st t = NoTok) \/
  (e = ErrUnauthorized /\ wrapped = true /\ exists t, parse_auth_header hdr = Tok t /\ get_token admin st t = User).
Proof. exact denied_reason. Qed.

(* with authentication disabled every API route is reachable without credentials *)
Theorem C09_auth_off_passes : forall admin st hdr wrapped, decide false admin st wrapped hdr = Reached.
Proof. exact auth_off_passes. Qed.

(* the declarative reading used by the oracle coincides with the model's decision *)
Theorem C09_decide_iff_spec : forall use_auth admin st r hdr,
  decide use_auth admin st (needs_admin r) hdr = Reached <-> spec_reaches use_auth admin st r hdr = true.
Proof. exact decide_iff_spec. Qed.

(* a FAILING token lookup (storage error) fails closed: only the admin token (compared before the lookup) still
   reaches a handler, nothing is admitted that a working store would refuse, and the admin is not locked out *)
Theorem C09_store_failure_fails_closed : forall admin st wrapped hdr,
  decide true admin (visible false st) wrapped hdr = Reached ->
  hdr = "Bearer " ++ admin /\ no_spaceb admin = true.
Proof. exact store_failure_fails_closed. Qed.
Theorem C09_store_failure_admits_no_more : forall admin st wrapped hdr,
  decide true admin (visible false st) wrapped hdr = Reached -> decide true admin st wrapped hdr = Reached.
Proof. exact store_failure_admits_no_more. Qed.
Theorem C09_store_failure_admin_still_admin : forall admin st wrapped,
  no_spaceb admin = true -> decide true admin (visible false st) wrapped ("Bearer " ++ admin) = Reached.
Proof. exact store_failure_admin_still_admin. Qed.

(* ---- this run's routing table (all 8 configurations use_auth x profiling x metrics) ---- *)

Lemma table_checked : forallb cfg_ok all_configs = true.
Proof. vm_compute. reflexivity. Qed.

(* every route outside the /api/v1 prefix is on the allow-list {status, swagger docs, metrics (when enabled),
   pprof (when enabled), websocket upgrade}, and the API part is not empty *)
Theorem C09_outside_prefix_allowlisted : forall a p m routes, In (a, p, m, routes) all_configs ->
  (forall r, In r routes -> under_api r = false -> allow p m r = true) /\ api_part routes <> [].
Proof. exact (table_ok all_configs table_checked). Qed.

Theorem C09_allow_spec : forall profiling metrics m p, allow profiling metrics (m, p) = true ->
  m = "GET" /\
  (p = "/status" \/ prefix "/swagger/" p = true \/ (metrics = true /\ p = "/metrics") \/
   (profiling = true /\ prefix "/pprof/debug/" p = true) \/ p = "/connection/websocket").
Proof. exact allow_spec. Qed.

(* the API part of the table does not depend on use_auth, profiling or metrics: the same routes exist with
   authentication disabled, and no switch adds or removes an API route *)
Theorem C09_same_api_routes : forall a p m routes, In (a, p, m, routes) all_configs ->
  api_part routes = api_part routes_000.
Proof.
  intros a p m routes Hin. unfold all_configs in Hin. simpl in Hin.
  repeat (destruct Hin as [Hin | Hin]; [inversion Hin; subst; vm_compute; reflexivity |]). contradiction.
Qed.

(* the token-management routes, and only they, are admin routes in this run's table *)
Theorem C09_admin_route_set :
  filter needs_admin routes_111 = [("POST", "/api/v1/access"); ("DELETE", "/api/v1/access/:token")].
Proof. vm_compute. reflexivity. Qed.

(* the verdict depends on the request's own credential only - not on any other request in flight or made before *)
Theorem C09_verdict_independent_of_other_requests : forall use_auth admin others st wrapped hdr,
  forallb is_auth others = true ->
  decide use_auth admin (run admin st others) wrapped hdr = decide use_auth admin st wrapped hdr.
Proof. exact verdict_independent_of_other_requests. Qed.

Print Assumptions C09_verdict_independent_of_other_requests.
Print Assumptions C09_header_accepted_iff.
Print Assumptions C09_parse_missing_iff.
Print Assumptions C09_parse_tok_iff.
Print Assumptions C09_parse_invalid_iff.
Print Assumptions C09_unauth_401_before_handler.
Print Assumptions C09_chain_decide.
Print Assumptions C09_api_routes.
Print Assumptions C09_admin_routes.
Print Assumptions C09_denied_reason.
Print Assumptions C09_auth_off_passes.
Print Assumptions C09_decide_iff_spec.
Print Assumptions C09_store_failure_fails_closed.
Print Assumptions C09_store_failure_admits_no_more.
Print Assumptions C09_store_failure_admin_still_admin.
Print Assumptions C09_outside_prefix_allowlisted.
Print Assumptions C09_allow_spec.
Print Assumptions C09_same_api_routes.
Print Assumptions C09_admin_route_set.
