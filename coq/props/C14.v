(* C14 - Wire codec: decode(encode(m)) = m; hostile bytes are rejected without harm.
   Only the property theorems, each closed by `exact`.  Model: theories/WireBase.v, WireMsg.v,
   WireFrame.v (mirrors /repo/internal/wire); declarative oracles: theories/WireSpec.v.
   bytes = list N; pver = negotiated protocol version; ebs = the configured excessive block size
   (maxMessagePayload = max_message_payload ebs); net = the network magic. *)
From Coq Require Import NArith ZArith List Bool.
From BHS Require Import Sha256 WireBase WireBaseProofs WireMsg WireMsgProofs WireFrame WireSpec WireSpecProofs WireFrameProofs WireLenProofs WireSuffixProofs WireStreamProofs.
Import ListNotations.
Open Scope N_scope.

(* ---- round trip, for ALL messages of the kinds version, verack, getaddr, addr, getblocks,
   getheaders, headers, inv, getdata, notfound, ping, pong, reject, sendheaders, feefilter, mempool
   and, beyond the statement's list, filteradd, filterclear, filterload
   (wf_msg is false for protoconf/authch, whose payload the decoder ignores, and for the kinds
   outside the model).  rest_ok: any continuation, except that a version message encoded below
   BIP0037Version must end the buffer (its decoder looks at what remains). *)
Theorem C14_decode_encode : forall pver mmp m rest,
  mmp < 2 ^ 64 -> wf_msg pver mmp m = true -> rest_ok pver m rest ->
  enc_check pver m = None /\
  dec_payload pver mmp (kind_of m) (enc_payload pver m ++ rest) = Ok (m, rest).
Proof. exact decode_encode. Qed.

(* Go holds an IPv4 address as 4 bytes or as the 16-byte IPv4-mapped form: both forms of a message
   (norm_msg rewrites every 4-byte address of version / addr into the mapped form) encode to the same
   bytes, are refused or not alike, and decode(encode m) is the mapped form *)
Theorem C14_encode_ip_forms : forall pver m,
  enc_payload pver (norm_msg m) = enc_payload pver m /\ enc_check pver (norm_msg m) = enc_check pver m /\
  kind_of (norm_msg m) = kind_of m.
Proof. exact enc_payload_norm. Qed.

Theorem C14_decode_encode_norm : forall pver mmp m rest,
  mmp < 2 ^ 64 -> wf_msg pver mmp (norm_msg m) = true -> rest_ok pver (norm_msg m) rest ->
  enc_check pver m = None /\
  dec_payload pver mmp (kind_of m) (enc_payload pver m ++ rest) = Ok (norm_msg m, rest).
Proof. exact decode_encode_norm. Qed.

(* re-encoding a decoded message reproduces the bytes *)
Theorem C14_reencode : forall pver mmp m m' rest',
  mmp < 2 ^ 64 -> wf_msg pver mmp m = true ->
  dec_payload pver mmp (kind_of m) (enc_payload pver m) = Ok (m', rest') ->
  rest' = [] /\ enc_msg pver m' = Ok (enc_payload pver m).
Proof. exact encode_decode_encode. Qed.

(* stronger, for arbitrary (hostile) bytes: whatever a decoder of a canonical kind accepts is exactly
   the encoding of the message it returns (uses ReadVarInt's canonical-encoding check) *)
Theorem C14_reencode_canonical : forall pver mmp k bs m r,
  canonical_kind pver k = true -> bytes_ok bs = true ->
  dec_payload pver mmp k bs = Ok (m, r) ->
  bs = enc_payload pver m ++ r /\ enc_check pver m = None /\ kind_of m = k.
Proof. exact reencode. Qed.

(* framed: ReadMessage (WriteMessage m ++ rest) returns m, its payload and leaves rest *)
Theorem C14_frame_roundtrip : forall pver net ebs m fr rest,
  net < 2 ^ 32 -> wf_msg pver (max_message_payload ebs) m = true ->
  write_message pver net ebs m = Ok fr ->
  read_message pver net ebs (fr ++ rest) = FOk m (enc_payload pver m) rest.
Proof. exact frame_roundtrip. Qed.

(* a well-formed message never exceeds the MaxPayloadLength of its type (reject: its limit is the global one) *)
Theorem C14_payload_len_le_max : forall pver mmp ebs m,
  wf_msg pver mmp m = true -> kind_of m <> KReject ->
  len (enc_payload pver m) <= max_payload (kind_of m) pver ebs.
Proof. exact payload_len_le_max. Qed.

(* the same as a table: the longest well-formed payload per kind and version (the oracle applied to the
   implementation's own MaxPayloadLength table) is within the model's limit table *)
Theorem C14_max_wf_le_limit : forall k pver ebs n,
  max_wf_payload_len k pver = Some n -> n <= max_payload k pver ebs.
Proof. exact max_wf_le_limit. Qed.

(* hence WriteMessage does not refuse it, and write-then-read returns it, whenever the global maximum is
   not below the type's limit (holds for cmd/main.go's limits: WireLenProofs.write_ok_example) *)
Theorem C14_frame_roundtrip_total : forall pver net ebs m rest,
  net < 2 ^ 32 -> wf_msg pver (max_message_payload ebs) m = true -> kind_of m <> KReject ->
  max_payload (kind_of m) pver ebs <= max_message_payload ebs ->
  exists fr, write_message pver net ebs m = Ok fr /\
             read_message pver net ebs (fr ++ rest) = FOk m (enc_payload pver m) rest.
Proof. exact frame_roundtrip_total. Qed.

(* ---- what is consumed: every payload decoder (version included, no assumption on the bytes) returns
   a suffix of its input; ReadMessage leaves a suffix of the stream in the reader and an accepted frame
   is exactly 24 header bytes ++ payload of the announced length ++ rest ---- *)
Theorem C14_dec_payload_suffix : forall pver mmp k bs m r,
  dec_payload pver mmp k bs = Ok (m, r) -> exists used, bs = used ++ r.
Proof. exact dec_payload_sfx. Qed.

Theorem C14_read_message_consumes : forall pver net ebs bs,
  match read_message pver net ebs bs with
  | FOk m payload rest =>
    exists h, length h = 24%nat /\ bs = h ++ payload ++ rest /\ len payload = hdr_len bs /\
              hdr_len bs <= max_message_payload ebs
  | FErr e rest => exists used, bs = used ++ rest
  end.
Proof. exact read_message_consumes. Qed.

(* ---- several frames on one reader (the peer loop calls ReadMessage repeatedly on one connection) ----
   framed ebs f: f is a 24-byte header whose length field is within the global maximum, followed by exactly
   that many payload bytes.  Whatever the verdict on such a frame (accepted, wrong magic, unknown command,
   above its type's limit, bad checksum, refused by the payload decoder), the reader is left with exactly
   what follows it; hence on ANY byte string the i-th ReadMessage gives the verdict of the i-th leading
   fully framed frame alone, and after those frames reading continues on the tail (split_frames is the
   declarative cut the oracle applies to the implementation's results). *)
Theorem C14_read_message_framed : forall pver net ebs f x, framed ebs f ->
  read_message pver net ebs (f ++ x) = add_rest (read_message pver net ebs f) x /\
  frame_rest (read_message pver net ebs f) = [].
Proof. exact read_message_framed. Qed.

Theorem C14_stream_in_step : forall fuel pver net ebs bs,
  exists tail,
    bs = concat (split_frames fuel ebs bs) ++ tail /\
    read_stream fuel pver net ebs bs =
    expected pver net ebs (split_frames fuel ebs bs) tail ++
    read_stream (fuel - length (split_frames fuel ebs bs)) pver net ebs tail.
Proof. exact stream_in_step. Qed.

(* ---- rejection, for every byte string ---- *)
Theorem C14_must_reject : forall pver net ebs bs,
  must_reject pver net ebs bs = true -> exists e r, read_message pver net ebs bs = FErr e r.
Proof. exact must_reject_sound. Qed.

Theorem C14_reject_oversize : forall pver net ebs bs, 24 <= len bs ->
  max_message_payload ebs < hdr_len bs ->
  read_message pver net ebs bs = FErr EOversize (skipn 24 bs).
Proof. exact reject_oversize. Qed.

Theorem C14_reject_wrong_magic : forall pver net ebs bs, 24 <= len bs ->
  hdr_len bs <= max_message_payload ebs -> hdr_magic bs <> net ->
  read_message pver net ebs bs = FErr EWrongNet (discard (hdr_len bs) (skipn 24 bs)).
Proof. exact reject_wrong_magic. Qed.

Theorem C14_reject_unknown_command : forall pver net ebs bs, 24 <= len bs ->
  hdr_len bs <= max_message_payload ebs -> hdr_magic bs = net -> known_cmd (hdr_cmd bs) = None ->
  exists e, (e = EBadCmd \/ e = EUnknownCmd) /\
            read_message pver net ebs bs = FErr e (discard (hdr_len bs) (skipn 24 bs)).
Proof. exact reject_unknown_command. Qed.

Theorem C14_reject_type_oversize : forall pver net ebs bs k, 24 <= len bs ->
  hdr_magic bs = net -> known_cmd (hdr_cmd bs) = Some k ->
  hdr_len bs <= max_message_payload ebs -> max_payload k pver ebs < hdr_len bs ->
  read_message pver net ebs bs = FErr ETypeMax (discard (hdr_len bs) (skipn 24 bs)).
Proof. exact reject_type_oversize. Qed.

Theorem C14_reject_bad_checksum : forall pver net ebs bs k payload rest, 24 <= len bs ->
  hdr_magic bs = net -> known_cmd (hdr_cmd bs) = Some k ->
  hdr_len bs <= max_message_payload ebs -> hdr_len bs <= max_payload k pver ebs ->
  skipn 24 bs = payload ++ rest -> len payload = hdr_len bs ->
  checksum payload <> hdr_ck bs ->
  read_message pver net ebs bs = FErr EChecksum rest.
Proof. exact reject_bad_checksum. Qed.

(* the overall limit: a header announcing more than max_message_payload ebs is refused on the header alone
   (this is C14_reject_oversize in the oracle's boolean form), and inside a reject payload - the kind whose
   type limit IS the overall limit - a string count above it is refused before the string is allocated *)
Theorem C14_header_oversize_refused : forall pver net ebs bs,
  header_oversize ebs bs = true -> read_message pver net ebs bs = FErr EOversize (skipn 24 bs).
Proof. exact header_oversize_refused. Qed.

Theorem C14_string_rejected : forall k pver mmp bs,
  string_over_limit k pver mmp bs = true -> dec_payload pver mmp k bs = Err EStrTooLong.
Proof. exact string_rejected. Qed.

(* counts above the per-type limit are refused (before anything is allocated) *)
Theorem C14_count_rejected : forall pver mmp k bs,
  count_over_limit k bs = true -> dec_payload pver mmp k bs = Err ETooMany.
Proof. exact count_rejected. Qed.

(* ---- allocation ----
   What a payload decoder asks make() for before reading the elements never exceeds the
   MaxPayloadLength of its type: all kinds of the table, every byte string.  Hypothesis: addr only for
   the protocol versions the service negotiates (>= MultipleAddressVersion = 209; below it the decoder
   still accepts 1000 entries although the type's limit is one address: WireSpecProofs.alloc_addr_old_pver).
   History: before fix ad1f9ac (/repo) this was refuted for version (the user agent was read by
   ReadVarString, bounded only by maxMessagePayload; an 85-byte payload requested 256 MiB) and the
   theorem was C14_alloc_bounded_partial + C14_alloc_bounded_version_refuted; the witness stays in
   corpus/C14 and WireSpecProofs.version_alloc_witness_refused shows it is refused now. *)
Theorem C14_alloc_bounded : forall pver ebs k bs,
  (k = KAddr -> MultipleAddressVersion <= pver) ->
  alloc_payload pver (max_message_payload ebs) k bs <= max_payload k pver ebs.
Proof. exact alloc_bounded. Qed.

(* every buffer ReadMessage requests (payload buffer, discard chunk, decoder requests) stays within
   max(10 KiB, MaxPayloadLength of the frame's type), for every byte string *)
Theorem C14_alloc_frame_bounded : forall pver net ebs bs,
  MultipleAddressVersion <= pver ->
  alloc_frame pver net ebs bs <= alloc_limit pver ebs bs.
Proof. exact alloc_frame_bounded. Qed.

(* the digest model has the right shape (the checksum is 4 bytes) *)
Theorem C14_sha256_length : forall bs, length (sha256 bs) = 32%nat.
Proof. exact sha256_length. Qed.

Print Assumptions C14_decode_encode.
Print Assumptions C14_encode_ip_forms.
Print Assumptions C14_decode_encode_norm.
Print Assumptions C14_read_message_framed.
Print Assumptions C14_stream_in_step.
Print Assumptions C14_reencode.
Print Assumptions C14_reencode_canonical.
Print Assumptions C14_frame_roundtrip.
Print Assumptions C14_payload_len_le_max.
Print Assumptions C14_max_wf_le_limit.
Print Assumptions C14_frame_roundtrip_total.
Print Assumptions C14_dec_payload_suffix.
Print Assumptions C14_read_message_consumes.
Print Assumptions C14_must_reject.
Print Assumptions C14_reject_oversize.
Print Assumptions C14_reject_wrong_magic.
Print Assumptions C14_reject_unknown_command.
Print Assumptions C14_reject_type_oversize.
Print Assumptions C14_reject_bad_checksum.
Print Assumptions C14_header_oversize_refused.
Print Assumptions C14_string_rejected.
Print Assumptions C14_count_rejected.
Print Assumptions C14_alloc_bounded.
Print Assumptions C14_alloc_frame_bounded.
Print Assumptions C14_sha256_length.
