(* C14 - placeholder while the pipeline is assembled *)
From Coq Require Import NArith List.
From BHS Require Import WireBase WireMsg WireFrame WireSpec.
Theorem C14_placeholder : True.
Proof. exact I. Qed.
Print Assumptions C14_placeholder.
