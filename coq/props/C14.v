(* C14 - Wire codec: decode(encode(m)) = m; hostile bytes are rejected without harm.
   Only the property theorems, each closed by `exact`.  Model: theories/WireBase.v, WireMsg.v,
   WireFrame.v (mirrors /repo/internal/wire); declarative oracles: theories/WireSpec.v.
   bytes = list N; pver = negotiated protocol version; ebs = the configured excessive block size
   (maxMessagePayload = max_message_payload ebs); net = the network magic. *)
From Coq Require Import NArith ZArith List Bool.
From BHS Require Import Sha256 WireBase WireBaseProofs WireMsg WireMsgProofs WireFrame WireSpec WireSpecProofs WireFrameProofs.
Import ListNotations.
Open Scope N_scope.

(* ---- round trip, for ALL messages of the kinds version, verack, getaddr, addr, getblocks,
   getheaders, headers, inv, getdata, notfound, ping, pong, reject, sendheaders, feefilter, mempool
   (wf_msg is false for protoconf/authch, whose payload the decoder ignores, and for the kinds
   outside the model).  rest_ok: any continuation, except that a version message encoded below
   BIP0037Version must end the buffer (its decoder looks at what remains). *)
Theorem C14_decode_encode : forall pver mmp m rest,
  mmp < 2 ^ 64 -> wf_msg pver mmp m = true -> rest_ok pver m rest ->
  enc_check pver m = None /\
  dec_payload pver mmp (kind_of m) (enc_payload pver m ++ rest) = Ok (m, rest).
Proof. exact decode_encode. Qed.

(* re-encoding a decoded message reproduces the bytes *)
Theorem C14_reencode : forall pver mmp m m' rest',
  mmp < 2 ^ 64 -> wf_msg pver mmp m = true ->
  dec_payload pver mmp (kind_of m) (enc_payload pver m) = Ok (m', rest') ->
  rest' = [] /\ enc_msg pver m' = Ok (enc_payload pver m).
Proof. exact encode_decode_encode. Qed.

(* stronger, for arbitrary (hostile) bytes: whatever a decoder of a canonical kind accepts is exactly
   the encoding of the message it returns (uses ReadVarInt's canonical-encoding check) *)
Theorem C14_reencode_canonical : forall pver mmp k bs m r,
  canonical_kind pver k = true -> bytes_ok bs = true ->
  dec_payload pver mmp k bs = Ok (m, r) ->
  bs = enc_payload pver m ++ r /\ enc_check pver m = None /\ kind_of m = k.
Proof. exact reencode. Qed.

(* framed: ReadMessage (WriteMessage m ++ rest) returns m, its payload and leaves rest *)
Theorem C14_frame_roundtrip : forall pver net ebs m fr rest,
  net < 2 ^ 32 -> wf_msg pver (max_message_payload ebs) m = true ->
  write_message pver net ebs m = Ok fr ->
  read_message pver net ebs (fr ++ rest) = FOk m (enc_payload pver m) rest.
Proof. exact frame_roundtrip. Qed.

(* ---- rejection, for every byte string ---- *)
Theorem C14_must_reject : forall pver net ebs bs,
  must_reject pver net ebs bs = true -> exists e r, read_message pver net ebs bs = FErr e r.
Proof. exact must_reject_sound. Qed.

Theorem C14_reject_oversize : forall pver net ebs bs, 24 <= len bs ->
  max_message_payload ebs < hdr_len bs ->
  read_message pver net ebs bs = FErr EOversize (skipn 24 bs).
Proof. exact reject_oversize. Qed.

Theorem C14_reject_wrong_magic : forall pver net ebs bs, 24 <= len bs ->
  hdr_len bs <= max_message_payload ebs -> hdr_magic bs <> net ->
  read_message pver net ebs bs = FErr EWrongNet (discard (hdr_len bs) (skipn 24 bs)).
Proof. exact reject_wrong_magic. Qed.

Theorem C14_reject_unknown_command : forall pver net ebs bs, 24 <= len bs ->
  hdr_len bs <= max_message_payload ebs -> hdr_magic bs = net -> known_cmd (hdr_cmd bs) = None ->
  exists e, (e = EBadCmd \/ e = EUnknownCmd) /\
            read_message pver net ebs bs = FErr e (discard (hdr_len bs) (skipn 24 bs)).
Proof. exact reject_unknown_command. Qed.

Theorem C14_reject_type_oversize : forall pver net ebs bs k, 24 <= len bs ->
  hdr_magic bs = net -> known_cmd (hdr_cmd bs) = Some k ->
  hdr_len bs <= max_message_payload ebs -> max_payload k pver ebs < hdr_len bs ->
  read_message pver net ebs bs = FErr ETypeMax (discard (hdr_len bs) (skipn 24 bs)).
Proof. exact reject_type_oversize. Qed.

Theorem C14_reject_bad_checksum : forall pver net ebs bs k payload rest, 24 <= len bs ->
  hdr_magic bs = net -> known_cmd (hdr_cmd bs) = Some k ->
  hdr_len bs <= max_message_payload ebs -> hdr_len bs <= max_payload k pver ebs ->
  skipn 24 bs = payload ++ rest -> len payload = hdr_len bs ->
  checksum payload <> hdr_ck bs ->
  read_message pver net ebs bs = FErr EChecksum rest.
Proof. exact reject_bad_checksum. Qed.

(* counts above the per-type limit are refused (before anything is allocated) *)
Theorem C14_count_rejected : forall pver mmp k bs,
  count_over_limit k bs = true -> dec_payload pver mmp k bs = Err ETooMany.
Proof. exact count_rejected. Qed.

(* ---- allocation ----
   Full statement: forall pver ebs k bs, alloc_payload pver (max_message_payload ebs) k bs <= max_payload k pver ebs
   (what a payload decoder asks make() for before reading the elements never exceeds the type's
   MaxPayloadLength).  It is FALSE for version (C14_alloc_bounded_version_refuted: genuine defect,
   finding C14-version-useragent-alloc); proved for every other kind of the table: *)
Theorem C14_alloc_bounded_partial : forall pver ebs k bs,
  k <> KVersion -> (k = KAddr -> MultipleAddressVersion <= pver) ->
  alloc_payload pver (max_message_payload ebs) k bs <= max_payload k pver ebs.
Proof. exact alloc_bounded. Qed.

Theorem C14_alloc_version_partial : forall pver ebs bs,
  alloc_payload pver (max_message_payload ebs) KVersion bs <= max_message_payload ebs.
Proof. exact alloc_version_partial. Qed.

Theorem C14_alloc_bounded_version_refuted :
  max_payload KVersion 70013 128000000 <
  alloc_payload 70013 (max_message_payload 128000000) KVersion version_alloc_witness.
Proof. exact alloc_bounded_version_refuted. Qed.

(* every buffer ReadMessage requests (payload buffer, discard chunk, decoder requests) stays within
   max(10 KiB, MaxPayloadLength of the frame's type), for frames of any command but version *)
Theorem C14_alloc_frame_bounded_partial : forall pver net ebs bs,
  MultipleAddressVersion <= pver ->
  (24 <= len bs -> known_cmd (hdr_cmd bs) <> Some KVersion) ->
  alloc_frame pver net ebs bs <= alloc_limit pver ebs bs.
Proof. exact alloc_frame_bounded. Qed.

(* the digest model has the right shape (the checksum is 4 bytes) *)
Theorem C14_sha256_length : forall bs, length (sha256 bs) = 32%nat.
Proof. exact sha256_length. Qed.

Print Assumptions C14_decode_encode.
Print Assumptions C14_reencode.
Print Assumptions C14_reencode_canonical.
Print Assumptions C14_frame_roundtrip.
Print Assumptions C14_must_reject.
Print Assumptions C14_reject_oversize.
Print Assumptions C14_reject_wrong_magic.
Print Assumptions C14_reject_unknown_command.
Print Assumptions C14_reject_type_oversize.
Print Assumptions C14_reject_bad_checksum.
Print Assumptions C14_count_rejected.
Print Assumptions C14_alloc_bounded_partial.
Print Assumptions C14_alloc_version_partial.
Print Assumptions C14_alloc_bounded_version_refuted.
Print Assumptions C14_alloc_frame_bounded_partial.
Print Assumptions C14_sha256_length.
