(* C16 - No request crashes the API or earns a 5xx; client errors are structured 4xx.
   Only the property theorems, each closed by `exact`.  Model: theories/Http.v
   ([respond] = the handlers as found, [respond_fixed] = with build/proposed-fixes/C16-1..6 applied,
   [respond_gen fx] = with the subset [fx] of the six call sites repaired; [env] = the abstract store). *)
From Coq Require Import ZArith List.
From BHS Require Import Http HttpProofs.
Import ListNotations.
Open Scope Z_scope.

(* c16_ok q r :  status is 200/201/204 or 4xx  /\  the body is exactly one JSON document
                 /\ from 400 on that document carries code and message  /\ the header store is untouched
                 /\ tokens/webhooks change only on a successful call of a route that exists to change them *)

(* MAIN, for the repaired handlers: every request, every store view with a tip. *)
Theorem C16_main : forall (e : env) (q : request), e_tip e = true -> c16_ok q (respond_fixed e q).
Proof. exact fixed_ok. Qed.

(* The same for ANY subset of repaired call sites: the property holds for every request that is not in the
   class of an unrepaired site - this is the theorem that covers the tree at HEAD ([current_fixes]). *)
Theorem C16_main_modulo_sites : forall (fx : fixes) (e : env) (q : request),
  e_tip e = true ->
  (forall s, defect_site e q = Some s -> fix_on fx s = true) ->
  c16_ok q (respond_gen fx e q).
Proof. exact general_ok. Qed.

(* The handlers as found: the property fails EXACTLY on the six listed call-site classes. *)
Theorem C16_as_found_exact : forall (e : env) (q : request),
  e_tip e = true -> (c16_ok q (respond e q) <-> defect_site e q = None).
Proof. exact exact. Qed.

(* The header store is never touched, whatever is repaired. *)
Theorem C16_headers_untouched : forall fx e q, r_eff (respond_gen fx e q) <> EffHeaders.
Proof. exact headers_untouched. Qed.

(* The executable spec oracle applied to the implementation's responses decides c16_ok. *)
Theorem C16_oracle_decides : forall q r, check q r = None <-> c16_ok q r.
Proof. exact check_iff. Qed.

(* The hypotheses are satisfiable on a store with a fork, a stale block and orphans; a non-trivial request. *)
Example C16_main_example :
  e_tip ex_env = true
  /\ get_common_ancestor ex_env [HK 3%nat; HK 4%nat] = CAHeader 1%nat
  /\ c16_ok (Q AuthOff (CCommon (SList [HK 3%nat; HK 4%nat]))) (respond_fixed ex_env (Q AuthOff (CCommon (SList [HK 3%nat; HK 4%nat])))).
Proof. exact (conj ex_env_tip (conj ex_common_fork ex_fixed_ok)). Qed.

(* FALSE TODAY: one refutation per call site (witness evaluated by vm_compute in HttpProofs.v). *)
Theorem C16_byheight_refuted :       (* height missing -> 500 *)
  ~ c16_ok (Q AuthOff (CByHeight IMissing IMissing)) (respond ex_env (Q AuthOff (CByHeight IMissing IMissing))).
Proof. exact byheight_refuted. Qed.
Theorem C16_byheight_junk_refuted :  (* height not a number, even with the admin token -> 500 *)
  ~ c16_ok (Q AuthAdmin (CByHeight IJunk (INum 1))) (respond ex_env (Q AuthAdmin (CByHeight IJunk (INum 1)))).
Proof. exact byheight_junk_refuted. Qed.
Theorem C16_common_empty_refuted :   (* commonAncestor [] -> 500, empty body *)
  ~ c16_ok (Q AuthOff (CCommon (SList []))) (respond ex_env (Q AuthOff (CCommon (SList [])))).
Proof. exact common_empty_refuted. Qed.
Theorem C16_common_genesis_refuted : (* a list containing genesis -> 500, empty body *)
  ~ c16_ok (Q AuthOff (CCommon (SList [HK 3%nat; HK 0%nat]))) (respond ex_env (Q AuthOff (CCommon (SList [HK 3%nat; HK 0%nat])))).
Proof. exact common_genesis_refuted. Qed.
Theorem C16_webhook_bind_refuted :   (* non-JSON webhook body -> two concatenated JSON objects *)
  ~ c16_ok (Q AuthOff (CWhPost (WBad BadSyntax))) (respond ex_env (Q AuthOff (CWhPost (WBad BadSyntax)))).
Proof. exact webhook_bind_refuted. Qed.
Theorem C16_webhook_partial_refuted : (* url bound, another field of the wrong type -> 400 AND the webhook is stored *)
  ~ c16_ok (Q AuthOff (CWhPost (WPartial UNew))) (respond ex_env (Q AuthOff (CWhPost (WPartial UNew)))).
Proof. exact webhook_partial_refuted. Qed.
Theorem C16_verify_bind_refuted :    (* verify with a non-JSON body -> 400 whose body is a bare string *)
  ~ c16_ok (Q AuthOff (CVerify (VBad BadSyntax))) (respond ex_env (Q AuthOff (CVerify (VBad BadSyntax)))).
Proof. exact verify_bind_refuted. Qed.
Theorem C16_access_get_refuted :     (* GET /access with auth disabled -> 400 with an empty body *)
  ~ c16_ok (Q AuthOff CAccGet) (respond ex_env (Q AuthOff CAccGet)).
Proof. exact access_get_refuted. Qed.

Print Assumptions C16_main.
Print Assumptions C16_main_modulo_sites.
Print Assumptions C16_as_found_exact.
Print Assumptions C16_headers_untouched.
Print Assumptions C16_oracle_decides.
Print Assumptions C16_main_example.
Print Assumptions C16_byheight_refuted.
Print Assumptions C16_byheight_junk_refuted.
Print Assumptions C16_common_empty_refuted.
Print Assumptions C16_common_genesis_refuted.
Print Assumptions C16_webhook_bind_refuted.
Print Assumptions C16_webhook_partial_refuted.
Print Assumptions C16_verify_bind_refuted.
Print Assumptions C16_access_get_refuted.
