From Coq Require Import ZArith List.
From BHS Require Import Http.
Theorem C16_placeholder : forall c, 400 <= status_of c. Proof. destruct c; cbn; discriminate. Qed.
Print Assumptions C16_placeholder.
