(* C05 - Ingestion survives a crash / storage failure anywhere; redelivery recovers.
   Only the property theorems; each is closed by `exact`.

   Model: chainService.Add = plan (all reads) then exec (<= 3 writes, each its own transaction); a kill between
   transactions, or a failing write, leaves `crash_state f s h k = exec s (writes planned for h) k`. *)
From Coq Require Import ZArith NArith List.
From BHS Require Import Work Store Chain ChainSpec Crash ChainInv ChainAdd ChainMain ChainFields ChainCrash ChainOracle.
Import ListNotations.
Open Scope Z_scope.

(* what the invariant means, in the statement's words: one longest-chain header at every height 0..tip,
   none above, parent-linked *)
Theorem C05_invariant_meaning : forall s tip, Inv s tip -> exists t, by_hash s tip = Some t /\ struct_valid s t.
Proof. exact inv_struct_valid. Qed.

(* the executable oracle that bin/check applies to the implementation's tables accepts every store satisfying the
   invariant - so it cannot raise an alarm on a table the model allows (reachable stores, every crash state) *)
Theorem C05_oracle_accepts_invariant : forall s tip, Inv s tip -> struct_validb s = true.
Proof. exact inv_struct_validb. Qed.

(* ... and whatever it accepts IS structurally valid in the statement's words, read off the raw table *)
Theorem C05_oracle_sound : forall s, struct_validb s = true ->
  0 <= maxLh s /\
  (forall h, 0 <= h <= maxLh s ->
     exists x, In x s /\ st x = Longest /\ height x = h /\
               forall y, In y s -> st y = Longest -> height y = h -> y = x) /\
  (forall r, In r s -> st r = Longest -> height r <= maxLh s) /\
  (forall r, In r s -> st r = Longest -> height r <> 0 ->
     exists q, In q s /\ st q = Longest /\ id q = prev r /\ height q + 1 = height r).
Proof. exact struct_validb_sound. Qed.

Theorem C05_crash_states_pass_oracle : forall f s tip h k, Inv s tip -> s_id h <> 0%N -> struct_validb (crash_state f s h k) = true.
Proof. exact crash_state_passes_oracle. Qed.

(* every store reachable by ingestion satisfies it (any work values) ... *)
Theorem C05_reachable_valid : forall f gid gpl hs, gid <> 0%N -> nonzero_ids hs -> exists tip, Inv (run f gid gpl hs) tip.
Proof. exact reachable_inv. Qed.

(* ... and so does EVERY crash state: any number k of the planned writes of any header, from any valid store -
   in particular between the steps of a reorganisation *)
Theorem C05_valid_everywhere : forall f s tip h k, Inv s tip -> s_id h <> 0%N -> exists tip', Inv (crash_state f s h k) tip'.
Proof. exact crash_inv. Qed.

(* every previously acknowledged header is still present and unaltered (label aside) *)
Theorem C05_acked_persist : forall f s tip h k, Inv s tip ->
  map dummy (crash_state f s h k) = map dummy s \/ exists x, map dummy (crash_state f s h k) = dummy x :: map dummy s.
Proof. exact crash_persist. Qed.

(* re-submitting the interrupted header on the partial state gives exactly the uninterrupted result *)
Theorem C05_recover_step : forall f s tip h k, Inv s tip -> nonneg_work s -> s_id h <> 0%N ->
  fst (add f (crash_state f s h k) h) = fst (add f s h).
Proof. exact recover_step. Qed.

(* the same at the granularity of committed SQLite transactions (k commits succeed, every later one is refused) *)
Theorem C05_valid_everywhere_commits : forall f s tip h k, Inv s tip -> s_id h <> 0%N ->
  exists tip', Inv (commit_crash_state f s h k) tip'.
Proof. exact commit_crash_inv. Qed.

Theorem C05_recover_step_commits : forall f s tip h k, Inv s tip -> nonneg_work s -> s_id h <> 0%N ->
  fst (add f (commit_crash_state f s h k) h) = fst (add f s h).
Proof. exact commit_recover_step. Qed.

(* ... and when the storage refuses one statement kind (the demoting UPDATE, the promoting UPDATE or the INSERT) *)
Theorem C05_valid_after_statement_fault : forall f s tip h k, Inv s tip -> s_id h <> 0%N ->
  exists tip', Inv (stmt_fault_state f s h k) tip'.
Proof. exact stmt_fault_inv. Qed.

Theorem C05_recover_step_statement_fault : forall f s tip h k, Inv s tip -> nonneg_work s -> s_id h <> 0%N ->
  fst (add f (stmt_fault_state f s h k) h) = fst (add f s h).
Proof. exact stmt_fault_recover_step. Qed.

(* kill at ANY write k of ANY header i of ANY history, restart, re-deliver the whole history:
   the final store is exactly that of the uninterrupted run - it never remains stuck *)
Theorem C05_recover : forall f gid gpl hs i k, gid <> 0%N -> nonzero_ids hs ->
  run_from f (restart gid gpl (crash_run f (init gid gpl) hs i k)) hs = run f gid gpl hs.
Proof. exact crash_redelivery_recovers. Qed.

(* restarting on an existing database never modifies stored headers *)
(* a FIRST start killed between the schema migrations and the genesis transaction leaves an empty store; the next
   start produces exactly the initial store, so delivery afterwards is the uninterrupted run *)
Theorem C05_first_start_interrupted : forall f gid gpl hs,
  run_from f (restart gid gpl []) hs = run f gid gpl hs.
Proof. exact first_start_interrupted. Qed.

Theorem C05_restart_noop : forall f gid gpl hs, gid <> 0%N -> nonzero_ids hs -> restart gid gpl (run f gid gpl hs) = run f gid gpl hs.
Proof. exact restart_noop. Qed.

Print Assumptions C05_invariant_meaning.
Print Assumptions C05_oracle_accepts_invariant.
Print Assumptions C05_oracle_sound.
Print Assumptions C05_crash_states_pass_oracle.
Print Assumptions C05_reachable_valid.
Print Assumptions C05_valid_everywhere.
Print Assumptions C05_acked_persist.
Print Assumptions C05_recover_step.
Print Assumptions C05_valid_everywhere_commits.
Print Assumptions C05_recover_step_commits.
Print Assumptions C05_valid_after_statement_fault.
Print Assumptions C05_recover_step_statement_fault.
Print Assumptions C05_recover.
Print Assumptions C05_restart_noop.
Print Assumptions C05_first_start_interrupted.
