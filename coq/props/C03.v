(* C03 - Stored header identity and derived fields are exact and immutable.
   Only the property theorems; each is closed by `exact`. *)
From Coq Require Import ZArith NArith List.
From BHS Require Import Work WorkProofs Sha256 Header80 Store Chain ChainSpec ChainAdd ChainMain ChainFields.
Import ListNotations.
Open Scope Z_scope.

(* After ANY history (any work values) every stored row, label aside, is the arrival record of its submission
   (ChainSpec.accept): height = parent's height + 1 (1 if the parent is not stored), work = calc_work bits,
   cumulative work = parent's + own (own if unknown), previous hash and payload (version, merkle root,
   timestamp, bits, nonce) exactly as received; nothing else is stored (duplicates and forbidden ids are skipped). *)
Theorem C03_derived_fields : forall f gid gpl hs, gid <> 0%N -> nonzero_ids hs ->
  map dummy (run f gid gpl hs) = spec_run_from f (map dummy (init gid gpl)) hs.
Proof. exact rows_are_arrival_records. Qed.

(* ... where work is floor(2^256/(target+1)) for the target encoded by the bits, zero for non-positive targets (C19) *)
Theorem C03_work_formula : forall c, 0 <= c < 2^32 -> calc_work c = work_of_target (target_spec c).
Proof. exact work_spec. Qed.

(* Once stored, no field except the label ever changes and no header ever disappears, whatever is ingested later *)
Theorem C03_immutable : forall f gid gpl hs hs' i r, gid <> 0%N -> nonzero_ids (hs ++ hs') ->
  by_hash (run f gid gpl hs) i = Some r ->
  exists r', by_hash (run f gid gpl (hs ++ hs')) i = Some r' /\ dummy r' = dummy r.
Proof. exact stored_immutable. Qed.

(* Restarting on an existing database (genesis re-inserted with ON CONFLICT DO NOTHING) changes nothing *)
Theorem C03_restart_noop : forall f gid gpl hs, gid <> 0%N -> nonzero_ids hs ->
  restart gid gpl (run f gid gpl hs) = run f gid gpl hs.
Proof. exact restart_noop. Qed.

(* the hash is SHA-256d of an 80-byte serialisation that determines every field *)
Theorem C03_ser80_length : forall ver prev merkle ts bits nonce,
  length prev = 32%nat -> length merkle = 32%nat -> length (ser80 ver prev merkle ts bits nonce) = 80%nat.
Proof. exact ser80_length. Qed.

Theorem C03_ser80_injective : forall v1 p1 m1 t1 b1 n1 v2 p2 m2 t2 b2 n2,
  - 2^31 <= v1 < 2^31 -> - 2^31 <= v2 < 2^31 ->
  length p1 = 32%nat -> length p2 = 32%nat -> length m1 = 32%nat -> length m2 = 32%nat ->
  0 <= t1 < 2^32 -> 0 <= t2 < 2^32 -> 0 <= b1 < 2^32 -> 0 <= b2 < 2^32 -> 0 <= n1 < 2^32 -> 0 <= n2 < 2^32 ->
  ser80 v1 p1 m1 t1 b1 n1 = ser80 v2 p2 m2 t2 b2 n2 ->
  v1 = v2 /\ p1 = p2 /\ m1 = m2 /\ t1 = t2 /\ b1 = b2 /\ n1 = n2.
Proof. exact ser80_inj. Qed.

Print Assumptions C03_derived_fields.
Print Assumptions C03_work_formula.
Print Assumptions C03_immutable.
Print Assumptions C03_restart_noop.
Print Assumptions C03_ser80_length.
Print Assumptions C03_ser80_injective.
