(* C20 - Configuration resolves as environment over file over defaults, for every key; an unsupported
   database engine, an empty SQLite path, incomplete Postgres settings or a missing prepared-database file is
   refused at validation.
   This file contains only the property theorems, each closed by `exact`.

   Thin by construction: the precedence is implemented by the viper library.  `resolve` is the contract; the
   theorems say what the contract implies for a loaded configuration over ANY well-formed key table and that
   today's regenerated table (BHSGen.ConfigKeys) is well formed; that the code obeys the contract is evidence
   from the correspondence check (a fresh process per case), not a theorem.  DbConfig.Validate is modelled and
   proved in full. *)
From Coq Require Import String List Bool NArith.
From BHS Require Import Config ConfigProofs.
From BHSGen Require Import ConfigKeys.
Import ListNotations.
Open Scope string_scope.

(* the contract, three cases: the variable's value if set; else the file's value if set; else the default *)
Theorem C20_resolve_precedence :
  forall (K V : Type) (env file : K -> option V) (dflt : K -> V) (k : K),
    (forall v, env k = Some v -> resolve env file dflt k = v)
    /\ (forall v, env k = None -> file k = Some v -> resolve env file dflt k = v)
    /\ (env k = None -> file k = None -> resolve env file dflt k = dflt k).
Proof. exact resolve_precedence. Qed.

(* the same for the value a loaded configuration holds for a key of the table, including the decoding of the
   textual source value into the key's type; envf is env_of (code) or env_of_spec (contract) *)
Theorem C20_load_precedence :
  forall envf tbl penv filel cfg e,
    NoDup (map e_key tbl) -> In e tbl ->
    load_with envf tbl penv filel = Some cfg ->
    (forall r, envf penv (e_key e) = Some r -> lookup cfg (e_key e) = canon (e_type e) r)
    /\ (forall r, envf penv (e_key e) = None -> lookup filel (e_key e) = Some r ->
                  lookup cfg (e_key e) = canon (e_type e) r)
    /\ (envf penv (e_key e) = None -> lookup filel (e_key e) = None ->
        lookup cfg (e_key e) = Some (e_default e)).
Proof. exact load_precedence. Qed.

(* pointwise: the effective value of a key depends only on that key's variable, that key's file entry and
   that key's default - never on the value of another key *)
Theorem C20_resolve_pointwise :
  forall (K V : Type) (env1 env2 file1 file2 : K -> option V) (d1 d2 : K -> V) (k : K),
    env1 k = env2 k -> file1 k = file2 k -> d1 k = d2 k ->
    resolve env1 file1 d1 k = resolve env2 file2 d2 k.
Proof. exact resolve_pointwise. Qed.

Theorem C20_load_pointwise :
  forall envf tbl penv1 filel1 penv2 filel2 cfg1 cfg2 e,
    NoDup (map e_key tbl) -> In e tbl ->
    load_with envf tbl penv1 filel1 = Some cfg1 ->
    load_with envf tbl penv2 filel2 = Some cfg2 ->
    envf penv1 (e_key e) = envf penv2 (e_key e) ->
    lookup filel1 (e_key e) = lookup filel2 (e_key e) ->
    lookup cfg1 (e_key e) = lookup cfg2 (e_key e).
Proof. exact load_pointwise. Qed.

(* keys that are not overridden keep their defaults *)
Theorem C20_untouched_keys_keep_default :
  forall tbl penv filel cfg e,
    NoDup (map e_key tbl) -> In e tbl ->
    ~ In (env_name (e_key e)) (map fst penv) -> ~ In (e_key e) (map fst filel) ->
    (load_model tbl penv filel = Some cfg -> lookup cfg (e_key e) = Some (e_default e))
    /\ (load_spec tbl penv filel = Some cfg -> lookup cfg (e_key e) = Some (e_default e)).
Proof. exact untouched_keys_keep_default. Qed.

(* one variable reaches exactly one key of today's table *)
Theorem C20_single_env_override :
  forall e1 e v cfg,
    In e1 config_keys -> In e config_keys -> e_key e <> e_key e1 ->
    load_model config_keys [(env_name (e_key e1), v)] [] = Some cfg ->
    lookup cfg (e_key e) = Some (e_default e)
    /\ (v <> "" -> lookup cfg (e_key e1) = canon (e_type e1) v).
Proof. exact single_env_override. Qed.

(* which file: exactly the one selected with the config-file option, in the format of its extension (an
   extension viper does not know is refused); without the option, ./config.yaml and nothing else.  Files lying
   next to the selected one are not an input of the model, so they cannot matter. *)
Theorem C20_selected_file_is_read :
  forall envf tbl penv ext filel,
    (In ext viper_exts ->
     load_sel_with envf tbl penv (Some (false, ext, filel)) = load_with envf tbl penv filel)
    /\ (~ In ext viper_exts -> load_sel_with envf tbl penv (Some (false, ext, filel)) = None)
    /\ load_sel_with envf tbl penv (Some (true, "yaml", filel)) = load_with envf tbl penv filel
    /\ (ext <> "yaml" -> load_sel_with envf tbl penv (Some (true, ext, filel)) = load_with envf tbl penv [])
    /\ load_sel_with envf tbl penv None = load_with envf tbl penv [].
Proof. exact selected_file_is_read. Qed.

(* a file selected with the option - whatever its name and directory, also one CALLED config.yaml outside the
   working directory - shadows the default ./config.yaml completely; without the option ./config.yaml is read *)
Theorem C20_selected_file_shadows_default :
  forall envf tbl penv ext filel d1 d2,
    load_files_with envf tbl penv (Some (ext, filel)) d1 = load_files_with envf tbl penv (Some (ext, filel)) d2
    /\ (In ext viper_exts -> load_files_with envf tbl penv (Some (ext, filel)) d1 = load_with envf tbl penv filel)
    /\ load_files_with envf tbl penv None (Some filel) = load_with envf tbl penv filel
    /\ load_files_with envf tbl penv None None = load_with envf tbl penv [].
Proof. exact selected_file_shadows_default. Qed.

(* blank variables.  For a bool / int / uint16 / duration key the empty text is not a value of the key's type:
   a blank variable provides no value - the file's entry or the default is the effective value, for the code
   and for the contract alike (so it can never make Load fail either) *)
Theorem C20_blank_variable_non_string :
  forall tbl penv filel cfg e,
    NoDup (map e_key tbl) -> In e tbl -> stringy (e_type e) = false ->
    lookup penv (env_name (e_key e)) = Some "" ->
    (load_model tbl penv filel = Some cfg \/ load_spec tbl penv filel = Some cfg) ->
    (forall r, lookup filel (e_key e) = Some r -> lookup cfg (e_key e) = canon (e_type e) r)
    /\ (lookup filel (e_key e) = None -> lookup cfg (e_key e) = Some (e_default e)).
Proof. exact blank_variable_non_string. Qed.

(* only the key's OWN variable enters: a variable named like a section (BHS_HTTP), like another key, or like
   nothing at all - blank or not - does not reach the key (with C20_load_pointwise: no cross-key effect) *)
Theorem C20_env_only_own_variable :
  forall tbl penv1 penv2 k,
    lookup penv1 (env_name k) = lookup penv2 (env_name k) ->
    env_of penv1 k = env_of penv2 k /\ env_of_spec tbl penv1 k = env_of_spec tbl penv2 k.
Proof. exact env_only_own_variable. Qed.

(* Load refuses iff a winning source value cannot be decoded into its key's type, or the resolved logging.level
   is not one zerolog.ParseLevel knows; nothing else (format, instance name, origin) can make it fail *)
Theorem C20_load_refuses_iff :
  forall envf tbl penv filel,
    (load_with envf tbl penv filel = None <-> load_refusal envf tbl penv filel <> None)
    /\ (load_refusal envf tbl penv filel = Some IllTypedValue
        <-> exists e, In e tbl /\ effective envf penv filel e = None)
    /\ (load_refusal envf tbl penv filel = Some BadLogLevel
        <-> exists cfg l,
              sequence (map (fun e => option_map (fun v => (e_key e, v)) (effective envf penv filel e)) tbl) = Some cfg
              /\ lookup cfg "logging.level" = Some l /\ valid_level l = false).
Proof. exact load_refuses_iff. Qed.

(* the model of the code meets the contract whenever no variable is set to the empty string ... *)
Theorem C20_load_model_meets_contract :
  forall tbl penv filel, (forall var, ~ In (var, "") penv) -> load_model tbl penv filel = load_spec tbl penv filel.
Proof. exact load_model_meets_contract. Qed.

(* HISTORY: the code before fix commit 1a867b2 (viper.AutomaticEnv) let a non-empty variable named like a SECTION
   hide the file's entries of the keys below it; for that OLD code model (load_model_old) the statement above was
   false.  Since 1a867b2 a variable named like a section reaches no key (C20_env_only_own_variable is a statement
   about the code model too).  The witnesses stay in corpus/C20. *)
Theorem C20_section_env_shadows_file_old_refuted :
  ~ (forall tbl penv filel, (forall var, ~ In (var, "") penv) -> load_model_old tbl penv filel = load_spec tbl penv filel).
Proof. exact section_env_shadows_file_old_refuted. Qed.

(* ... and NOT in general (known finding env-empty-ignored):
     forall tbl penv filel, load_model tbl penv filel = load_spec tbl penv filel      is false *)
Theorem C20_env_empty_refuted :
  ~ (forall tbl penv filel, load_model tbl penv filel = load_spec tbl penv filel).
Proof. exact env_empty_refuted. Qed.

(* variable names: for every key over [a-z0-9_.] the name is well formed (BHS_ + [A-Z0-9_]+) *)
Theorem C20_env_name_well_formed :
  forall k, k <> "" -> forallb_string is_key_char k = true -> wf_env_name (env_name k) = true.
Proof. exact env_name_well_formed. Qed.

(* obligations over the regenerated table (vm_compute on the finite table, then forallb_forall):
   the key list is non-empty; every key is well-formed text, has a type the model decodes, a default that is a
   canonical value of that type and is reached by the default struct, and a well-formed variable name;
   keys and variable names are pairwise distinct *)
Theorem C20_keys_nonempty : config_keys <> [].
Proof. exact config_keys_nonempty. Qed.

Theorem C20_every_key_has_default_and_env_name :
  forall e, In e config_keys ->
    e_key e <> "" /\ forallb_string is_key_char (e_key e) = true /\ known_type (e_type e) = true
    /\ canon (e_type e) (e_default e) = Some (e_default e)
    /\ wf_env_name (env_name (e_key e)) = true
    /\ e_default e <> "<nil>".
Proof. exact config_keys_entries. Qed.

Theorem C20_keys_distinct : NoDup (map e_key config_keys).
Proof. exact config_keys_distinct. Qed.

Theorem C20_env_names_distinct : NoDup (map (fun e => env_name (e_key e)) config_keys).
Proof. exact config_env_names_distinct. Qed.

(* DbConfig.Validate: a nil section is refused; a section is accepted iff the engine is sqlite with a
   non-empty path or postgres with host, port, user and database name set, and, when the prepared database is
   enabled, its path is non-empty and the file exists (os.Stat succeeds) - for EVERY answer of os.Stat.
   (History: before fix commit 63c3b28 fileExists was !os.IsNotExist(err) and this equivalence was refuted
   for Stat errors other than ENOENT; the witnesses stay in corpus/C20.) *)
Theorem C20_db_validate_nil : forall st, db_validate None st <> Accept.
Proof. exact db_validate_nil_refused. Qed.

Theorem C20_db_validate_iff :
  forall c st, db_validate (Some c) st = Accept <-> db_ok c st.
Proof. exact db_validate_iff. Qed.

(* with the file system as oracle: the verdict depends on it only at the prepared-database path, in particular
   not on what exists at db.sqlite.file_path (nothing, an empty file, a directory, a database with headers) *)
Theorem C20_db_validate_fs_iff :
  forall c fs, db_validate_fs (Some c) fs = Accept <-> db_ok c (fs (prepared_path c)).
Proof. exact db_validate_fs_iff. Qed.

Theorem C20_db_validate_fs_local :
  forall c fs1 fs2, fs1 (prepared_path c) = fs2 (prepared_path c) ->
    db_validate_fs (Some c) fs1 = db_validate_fs (Some c) fs2.
Proof. exact db_validate_fs_local. Qed.

Theorem C20_db_validate_ignores_sqlite_path :
  forall c fs st, sqlite_path c <> prepared_path c ->
    db_validate_fs (Some c) (fs_override fs (sqlite_path c) st) = db_validate_fs (Some c) fs.
Proof. exact db_validate_ignores_sqlite_path. Qed.

(* every valid section is accepted, for every answer of os.Stat *)
Theorem C20_db_validate_complete : forall c st, db_ok c st -> db_validate (Some c) st = Accept.
Proof. exact db_validate_complete. Qed.

(* the order of the checks *)
Theorem C20_db_validate_order :
  forall c st,
    (prepared c = true -> prepared_path c = "" -> db_validate (Some c) st = RejPreparedPathEmpty)
    /\ (prepared c = true -> prepared_path c <> "" -> st <> Found -> db_validate (Some c) st = RejPreparedMissing)
    /\ ((prepared c = false \/ (prepared_path c <> "" /\ st = Found)) ->
        db_validate (Some c) st =
        if String.eqb (engine c) "sqlite" then (if is_empty (sqlite_path c) then RejSqliteEmpty else Accept)
        else if String.eqb (engine c) "postgres" then
          (if is_empty (pg_host c) || N.eqb (pg_port c) 0 || is_empty (pg_user c) || is_empty (pg_db c)
           then RejPostgresIncomplete else Accept)
        else RejUnsupported).
Proof. exact db_validate_order. Qed.

(* the boolean used as the spec oracle is the declarative statement *)
Theorem C20_db_okb_iff : forall c st, db_okb c st = true <-> db_ok c st.
Proof. exact db_okb_iff. Qed.

Print Assumptions C20_resolve_precedence.
Print Assumptions C20_load_precedence.
Print Assumptions C20_resolve_pointwise.
Print Assumptions C20_load_pointwise.
Print Assumptions C20_untouched_keys_keep_default.
Print Assumptions C20_single_env_override.
Print Assumptions C20_selected_file_is_read.
Print Assumptions C20_selected_file_shadows_default.
Print Assumptions C20_blank_variable_non_string.
Print Assumptions C20_env_only_own_variable.
Print Assumptions C20_load_refuses_iff.
Print Assumptions C20_load_model_meets_contract.
Print Assumptions C20_section_env_shadows_file_old_refuted.
Print Assumptions C20_env_empty_refuted.
Print Assumptions C20_env_name_well_formed.
Print Assumptions C20_keys_nonempty.
Print Assumptions C20_every_key_has_default_and_env_name.
Print Assumptions C20_keys_distinct.
Print Assumptions C20_env_names_distinct.
Print Assumptions C20_db_validate_nil.
Print Assumptions C20_db_validate_iff.
Print Assumptions C20_db_validate_fs_iff.
Print Assumptions C20_db_validate_fs_local.
Print Assumptions C20_db_validate_ignores_sqlite_path.
Print Assumptions C20_db_validate_complete.
Print Assumptions C20_db_validate_order.
Print Assumptions C20_db_okb_iff.
