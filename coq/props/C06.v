(* C06 - Sync converges on the best chain peers offer, in every configuration.
   Only the property theorems; each is closed by `exact`.

   Models: BHS.SyncNode (conformant node, locator, cursors), BHS.SyncDefault (SyncManager + request filter),
   BHS.SyncExp (experimental peer), BHS.SyncSys (closed system: engine + nodes + messages in flight + script),
   ingestion = BHS.Chain.add (C01).  Spec oracle on the implementation's outputs: BHS.SyncSpec.spec_converged.

   FULL STATEMENT (not provable for the code as it is - see the three `_refuted` theorems, known findings):
     for every configuration (checkpoints on/off, any consistent list), every set of conformant peers of which one honest
     peer stays reachable, every schedule, fault sequence, announcement pattern and both engines, the system reaches a
     quiescent state whose store holds the honest peer's best chain and whose tip carries the greatest work on offer.
   PROVED:
     C06_catchup_linear        default engine, checkpoints enabled, ONE honest peer, the store's longest chain a prefix of
                               its chain C (any Valid store, stale forks and orphans allowed), any sorted checkpoint list
                               consistent with C (none, one, several, one at the tip), any reply cap >= 1, enough fuel
                               (|C| - k + 1 deliveries): quiescent, longest chain = C, tip = last C; every step sends exactly
                               one request (never filtered), locator head = the tip, stop = next checkpoint / zero.
     C06_prefix_store_good     genesis + first k headers of C is such a store.
     C06_multi_partial         safety half for ALL schedules / peers / choices (see SyncMultiProofs); convergence for
                               several peers, stalls and disconnects is NOT proved.
   REFUTED (vm_compute witnesses on the faithful model; the real code agrees on the same scenarios, corpus/C06):
     C06_disable_checkpoints_refuted, C06_single_peer_announce_refuted, C06_lagging_sync_peer_refuted. *)
From Coq Require Import ZArith NArith List Bool.
From BHS Require Import Work Store Chain ChainSpec ChainAdd ChainMain SyncNode SyncDefault SyncExp SyncSys SyncSpec
     SyncC07Proofs SyncC06Proofs.
Import ListNotations.
Open Scope Z_scope.

Theorem C06_catchup_linear : forall cfg gid C p cap res k s hints fuel,
  c_disable cfg = false -> good_chain (c_forb cfg) gid C -> cps_ok gid C (c_cps cfg) -> sorted (c_cps cfg) ->
  (1 <= cap)%nat -> (k <= length C)%nat -> Good gid C k s -> (length C - k + 1 <= fuel)%nat ->
  exists y1 t1 y2 t2,
    y_cmd (y_init cfg gid s [(p, node0 C cap res)] hints) (CConnect p) = (y1, t1) /\
    y_cmd y1 (CRun fuel) = (y2, t2) /\
    quiescent y2 = true /\
    (exists tip t, Inv2 (d_store (y_eng y2)) tip /\ ids (chain (d_store (y_eng y2)) tip) = rev (cids gid C) /\
                   tipB (d_store (y_eng y2)) = Some t /\ id t = last (cids gid C) gid) /\
    (exists ev es st, t1 = [(ev, es, st)] /\ entry_ok p (EHeaders p [], es, st) /\ es <> []) /\
    Forall (entry_ok p) t2.
Proof. exact catchup_linear. Qed.

Theorem C06_prefix_store_good : forall f gid gpl C, good_chain f gid C -> forall k, (k <= length C)%nat ->
  Good gid C k (run_from f (init gid gpl) (firstn k C)).
Proof. exact good_prefix. Qed.

(* the hypotheses are satisfiable *)
Theorem C06_catchup_example :
  good_chain (c_forb exCfg) 1 exC /\ cps_ok 1 exC (c_cps exCfg) /\ sorted (c_cps exCfg) /\
  Good 1 exC 1 (run_from (c_forb exCfg) (init 1 (ex_pl 486604799)) (firstn 1 exC)).
Proof. exact ex_catchup_hyps. Qed.

Theorem C06_disable_checkpoints_refuted :
  let cfg := {| c_cps := []; c_disable := true; c_forb := []; c_now := 0 |} in
  let y0 := y_init cfg 1 (init 1 (ex_pl 486604799)) [(7%N, node0 exC 2000 [])] [] in
  let '(y, ts) := y_run y0 [CConnect 7; CRun 20] in
  good_chain [] 1 exC /\ final_tip y = Some 1%N /\ In (Disconnect 7) (all_effs ts) /\ quiescent y = true.
Proof. exact disable_checkpoints_refuted. Qed.

Theorem C06_single_peer_announce_refuted :
  let cfg := {| c_cps := [(2, 3%N)]; c_disable := false; c_forb := []; c_now := 1800000000 |} in
  let y0 := y_init cfg 1 (init 1 (ex_pl 486604799)) [(7%N, node0 (firstn 2 exNew) 2000 (skipn 2 exNew))] [] in
  let '(y, ts) := y_run y0 [CConnect 7; CRun 20; CAnnounce 7 1 true; CRun 20] in
  final_tip y = Some 3%N /\ quiescent y = true /\
  (exists n, aget 7%N (y_nodes y) = Some n /\ map s_id (n_chain n) = [2; 3; 4]%N /\ n_open n = true) /\
  nth 3 ts [] <> [] /\ concat (map (fun x => snd (fst x)) (nth 3 ts [])) = [].
Proof. exact single_peer_announce_refuted. Qed.

Theorem C06_lagging_sync_peer_refuted :
  let cfg := {| c_cps := [(1, 2%N)]; c_disable := false; c_forb := []; c_now := 1800000000 |} in
  let y0 := y_init cfg 1 (init 1 (ex_pl 486604799)) [(7%N, node0 (firstn 2 exC) 2000 []); (8%N, node0 exC 2000 [])] [] in
  let '(y, ts) := y_run y0 [CConnect 7; CRun 20; CConnect 8; CRun 20; CTick true; CRun 20] in
  final_tip y = Some 3%N /\ quiescent y = true /\ d_sync (y_eng y) = Some 7%N /\
  (exists n, aget 8%N (y_nodes y) = Some n /\ n_open n = true /\ length (n_chain n) = 5%nat).
Proof. exact lagging_sync_peer_refuted. Qed.

Print Assumptions C06_catchup_linear.
Print Assumptions C06_prefix_store_good.
Print Assumptions C06_catchup_example.
Print Assumptions C06_disable_checkpoints_refuted.
Print Assumptions C06_single_peer_announce_refuted.
Print Assumptions C06_lagging_sync_peer_refuted.
