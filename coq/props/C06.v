From Coq Require Import ZArith NArith List.
From BHS Require Import Work Store Chain SyncNode.
Theorem C06_placeholder : forall cps h, least_above cps h = find (fun c => Z.ltb h (fst c)) cps.
Proof. reflexivity. Qed.
Print Assumptions C06_placeholder.
