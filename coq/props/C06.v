(* C06 - Sync converges on the best chain peers offer, in every configuration.      (models mirror /repo HEAD: after e6f7150, 1572875)
   Only the property theorems; each is closed by `exact`.

   Models: BHS.SyncNode (conformant node, locator, cursors), BHS.SyncDefault (SyncManager + request filter),
   BHS.SyncExp (experimental peer), BHS.SyncSys (closed system: engine + nodes + messages in flight + script),
   ingestion = BHS.Chain.add (C01).  Spec oracle on the implementation's outputs: BHS.SyncSpec.spec_converged.

   FULL STATEMENT (not provable for the code as it is - see C06_lagging_sync_peer_refuted, a known finding):
     for every configuration (checkpoints on/off, any consistent list), every set of conformant peers of which one honest
     peer stays reachable, every schedule, fault sequence, announcement pattern and both engines, the system reaches a
     quiescent state whose store holds the honest peer's best chain and whose tip carries the greatest work on offer.
   PROVED (unbounded):
     C06_catchup_linear        default engine, checkpoints ENABLED OR DISABLED (one theorem over the effective list
                               eff_cps = [] when disabled; corollaries _enabled / _disabled), ONE honest peer, the store's
                               longest chain a prefix of its chain C (any Valid store, stale forks and orphans allowed), any
                               sorted checkpoint list consistent with C (none, one, several, one at the tip), any reply cap >= 1,
                               |C| - k + 1 deliveries of fuel: quiescent, longest chain = C, tip = last C; every step sends
                               exactly one request (never filtered), locator head = the tip, stop = next checkpoint / zero;
                               the system ends in the idle state (idle_ok) from which the announcement theorems start.
     C06_announce_inv          from the idle state the lone (sync) peer's chain grows by 1 <= |new| <= cap headers announced by
     C06_announce_headers      inv resp. by a headers message: the inv's getheaders (stop = announced hash) is NOT filtered,
                               the system becomes quiescent with longest chain = C ++ new, and is idle again (so the theorem
                               applies to any number of successive announcements).
     C06_catchup_linear_exp    linear catch-up for the experimental engine and its single outbound peer.
     C06_fork_one_reply        after any reply the tip carries at least the work of every connected stored header (a branch that
                               overtakes within one reply is adopted); C06_stops_when_no_longest: the stated caveat.
     C06_multi_partial         safety half for ALL schedules / peers / choices; convergence for several peers, stalls and
                               disconnects is NOT proved.
   HISTORY: C06_disable_checkpoints_refuted (disable_checkpoints disconnected every answering peer) and
     C06_single_peer_announce_refuted (the sync peer's inv was dropped by the duplicate-request filter) were theorems about the
     code before /repo e6f7150 and 1572875; both defects are repaired, the statements are now C06_catchup_linear_disabled
     and C06_announce_inv, the old witnesses stay in corpus/C06 (a regression is a VIOLATION).
   REFUTED (vm_compute witness on the faithful model; the real code agrees, corpus/C06): C06_lagging_sync_peer_refuted. *)
From Coq Require Import ZArith NArith List Bool.
From BHS Require Import Work Store Chain ChainSpec ChainAdd ChainMain SyncNode SyncDefault SyncExp SyncSys SyncSpec
     SyncC07Proofs SyncC06Proofs SyncC06ExpProofs SyncMultiProofs SyncAnnounceProofs SyncAnnounceExpProofs.
Import ListNotations.
Open Scope Z_scope.

Theorem C06_catchup_linear : forall cfg gid C p cap res k s hints fuel,
  good_chain (c_forb cfg) gid C -> cps_ok gid C (eff_cps cfg) -> sorted (eff_cps cfg) ->
  (1 <= cap)%nat -> (k <= length C)%nat -> Good gid C k s -> (length C - k + 1 <= fuel)%nat ->
  exists y1 t1 y2 t2,
    y_cmd (y_init cfg gid s [(p, node0 C cap res)] hints) (CConnect p) = (y1, t1) /\
    y_cmd y1 (CRun fuel) = (y2, t2) /\
    quiescent y2 = true /\
    (exists tip t, Inv2 (d_store (y_eng y2)) tip /\ ids (chain (d_store (y_eng y2)) tip) = rev (cids gid C) /\
                   tipB (d_store (y_eng y2)) = Some t /\ id t = last (cids gid C) gid) /\
    (exists ev es st, t1 = [(ev, es, st)] /\ entry_ok p (EHeaders p [], es, st) /\ es <> []) /\
    Forall (entry_ok p) t2 /\
    idle_ok cfg gid C p cap res y2.
Proof. exact catchup_linear. Qed.

Theorem C06_catchup_linear_enabled : forall cfg gid C p cap res k s hints fuel,
  c_disable cfg = false -> good_chain (c_forb cfg) gid C -> cps_ok gid C (c_cps cfg) -> sorted (c_cps cfg) ->
  (1 <= cap)%nat -> (k <= length C)%nat -> Good gid C k s -> (length C - k + 1 <= fuel)%nat ->
  exists y1 t1 y2 t2,
    y_cmd (y_init cfg gid s [(p, node0 C cap res)] hints) (CConnect p) = (y1, t1) /\
    y_cmd y1 (CRun fuel) = (y2, t2) /\ quiescent y2 = true /\
    (exists tip t, Inv2 (d_store (y_eng y2)) tip /\ ids (chain (d_store (y_eng y2)) tip) = rev (cids gid C) /\
                   tipB (d_store (y_eng y2)) = Some t /\ id t = last (cids gid C) gid) /\
    (exists ev es st, t1 = [(ev, es, st)] /\ entry_ok p (EHeaders p [], es, st) /\ es <> []) /\
    Forall (entry_ok p) t2 /\ idle_ok cfg gid C p cap res y2.
Proof. exact catchup_linear_enabled. Qed.

(* p2p.disable_checkpoints = true: no hypothesis about the configured checkpoint list *)
Theorem C06_catchup_linear_disabled : forall cfg gid C p cap res k s hints fuel,
  c_disable cfg = true -> good_chain (c_forb cfg) gid C ->
  (1 <= cap)%nat -> (k <= length C)%nat -> Good gid C k s -> (length C - k + 1 <= fuel)%nat ->
  exists y1 t1 y2 t2,
    y_cmd (y_init cfg gid s [(p, node0 C cap res)] hints) (CConnect p) = (y1, t1) /\
    y_cmd y1 (CRun fuel) = (y2, t2) /\ quiescent y2 = true /\
    (exists tip t, Inv2 (d_store (y_eng y2)) tip /\ ids (chain (d_store (y_eng y2)) tip) = rev (cids gid C) /\
                   tipB (d_store (y_eng y2)) = Some t /\ id t = last (cids gid C) gid) /\
    (exists ev es st, t1 = [(ev, es, st)] /\ entry_ok p (EHeaders p [], es, st) /\ es <> []) /\
    Forall (entry_ok p) t2 /\ idle_ok cfg gid C p cap res y2.
Proof. exact catchup_linear_disabled. Qed.

(* ---- announcements of the lone sync peer after the initial sync ---- *)
Theorem C06_announce_inv : forall cfg gid C new p cap rest,
  good_chain (c_forb cfg) gid (C ++ new) -> cps_ok gid C (eff_cps cfg) -> sorted (eff_cps cfg) ->
  (1 <= cap)%nat -> new <> [] -> (length new <= cap)%nat -> c_cps cfg <> [] ->
  forall y fuel, idle_ok cfg gid C p cap (new ++ rest) y ->
  (forall h, In h new -> by_hash (d_store (y_eng y)) (s_id h) = None) ->
  (length new + 1 <= fuel)%nat ->
  exists y1 y2 ev st1 loc t2,
    y_cmd y (CAnnounce p (length new) true) = (y1, []) /\
    y_cmd y1 (CRun (S fuel)) = (y2, (ev, [GetHeaders p loc (s_id (last new (ex_sub 0 0 0)))], st1) :: t2) /\
    ev = EInv p (map (fun h => (true, s_id h)) new) /\ hd_error loc = Some (tipid gid C (length C)) /\
    quiescent y2 = true /\
    Good gid (C ++ new) (length (C ++ new)) (d_store (y_eng y2)) /\ idle_ok cfg gid (C ++ new) p cap rest y2 /\ Forall (entry_ok p) t2.
Proof. exact announce_inv. Qed.

Theorem C06_announce_headers : forall cfg gid C new p cap rest,
  good_chain (c_forb cfg) gid (C ++ new) -> cps_ok gid C (eff_cps cfg) -> sorted (eff_cps cfg) ->
  (1 <= cap)%nat -> new <> [] -> (length new <= cap)%nat ->
  forall y fuel, idle_ok cfg gid C p cap (new ++ rest) y ->
  (forall h, In h new -> by_hash (d_store (y_eng y)) (s_id h) = None) ->
  (length new + 1 <= fuel)%nat ->
  exists y1 y2 t2,
    y_cmd y (CAnnounce p (length new) false) = (y1, []) /\
    y_cmd y1 (CRun fuel) = (y2, t2) /\ quiescent y2 = true /\
    Good gid (C ++ new) (length (C ++ new)) (d_store (y_eng y2)) /\ idle_ok cfg gid (C ++ new) p cap rest y2 /\ Forall (entry_ok p) t2.
Proof. exact announce_headers. Qed.

Theorem C06_catchup_linear_exp : forall cfg gid C p cap res k s fuel,
  good_chain (x_forb cfg) gid C -> cps_ok gid C (x_cps cfg) -> sorted (x_cps cfg) ->
  (1 <= cap)%nat -> (k <= length C)%nat -> Good gid C k s -> (length C - k + 1 <= fuel)%nat ->
  exists z1 t1 z2 t2,
    z_cmd (z_init cfg gid p s (node0 C cap res)) (CConnect p) = (z1, t1) /\
    z_cmd z1 (CRun fuel) = (z2, t2) /\
    xquiet z2 = true /\
    (exists tip t, Inv2 (e_store (z_eng z2)) tip /\ ids (chain (e_store (z_eng z2)) tip) = rev (cids gid C) /\
                   tipB (e_store (z_eng z2)) = Some t /\ id t = last (cids gid C) gid) /\
    (exists es st, t1 = [(None, es, st)] /\ xentry_ok C p (Some (XHeaders []), es, st) /\ es <> []) /\
    Forall (xentry_ok C p) t2.
Proof. exact catchup_linear_exp. Qed.


(* experimental engine: a headers announcement after its initial sync (that engine ignores inv: syncedCheckpoints is never set) *)
Theorem C06_announce_headers_exp : forall cfg gid C new p cap rest,
  good_chain (x_forb cfg) gid (C ++ new) -> cps_ok gid C (x_cps cfg) -> (1 <= cap)%nat -> new <> [] -> (length new <= cap)%nat ->
  forall z fuel, xidle_ok cfg gid C new p rest z ->
  (forall h, In h new -> by_hash (e_store (z_eng z)) (s_id h) = None) ->
  exists z1 z2 es st,
    z_cmd z (CAnnounce p (length new) false) = (z1, []) /\
    z_cmd z1 (CRun (S fuel)) = (z2, [(Some (XHeaders new), es, st)]) /\
    (es = [] \/ es = [SendHdrs p]) /\ xquiet z2 = true /\ e_shm (z_eng z2) = true /\
    Good gid (C ++ new) (length (C ++ new)) (e_store (z_eng z2)).
Proof. exact announce_headers_exp. Qed.

(* the sync peer's done event with one other (fresh, connected, not-behind) candidate: that peer becomes the sync peer and is sent
   exactly one getheaders: locator of the store, stop = next checkpoint's hash or zero; store / nextCheckpoint untouched *)
Theorem C06_resync_after_done_partial : forall cfg hint st p q c oq, q <> p ->
  d_sync st = Some p -> aget p (d_states st) = Some c -> adel p (d_states st) = [(q, true)] ->
  aget q (d_objs st) = Some oq -> po_conn oq = true -> po_ps oq = None ->
  tip_height (d_store st) <= po_last oq ->
  let stop := match d_next st with Some (H, cid) => if tip_height (d_store st) <? H then cid else 0%N | None => 0%N end in
  exists st' pre,
    on_done cfg hint st p = (st', pre ++ [GetHeaders q (locator (d_store st)) stop]) /\ (pre = [] \/ pre = [Disconnect p]) /\
    d_sync st' = Some q /\ d_states st' = [(q, true)] /\ d_store st' = d_store st /\ d_next st' = d_next st /\
    (d_hfm st = true -> d_hfm st' = true).
Proof. exact resync_after_done. Qed.

(* ---- several peers, stalls, disconnects, any schedule and any sync-peer choices: SAFETY only ---- *)
(* (S1) whatever is stored was pre-loaded or delivered in some headers message (i.e. is on some peer's offered tree) *)
Theorem C06_multi_stored_was_offered_partial : forall cfg evs st r, In r (d_store (d_run cfg st evs)) ->
  In (id r) (ids (d_store st)) \/ In (id r) (delivered evs).
Proof. exact stored_was_offered. Qed.

(* (S2) the store stays Valid and the cumulative work of the reported tip never decreases *)
Theorem C06_multi_tip_work_monotone_partial : forall cfg evs st,
  Valid (d_store st) -> Forall (fun x => pos_event (snd x)) evs ->
  Valid (d_store (d_run cfg st evs)) /\ tip_cum (d_store st) <= tip_cum (d_store (d_run cfg st evs)).
Proof. exact d_run_tip_mono. Qed.

(* (S3) the done event of the sync peer: it is replaced; a new sync peer is chosen whenever a candidate not behind the tip is known *)
Theorem C06_multi_done_selects_new_sync_peer_partial : forall cfg hint st p c,
  aget p (d_states st) = Some c -> d_sync st = Some p ->
  let st' := fst (on_done cfg hint st p) in
  d_sync st' <> Some p /\
  (forall q, q <> p -> aget q (d_states st) = Some true -> tip_height (d_store st) <= last_of st q -> d_sync st' <> None).
Proof. exact done_selects_new_sync_peer. Qed.


(* ---- competing branches ---- *)
(* after a reply the reported tip carries at least the work of every connected header stored - so a competing branch is
   adopted as soon as ONE reply brings a header that overtakes the tip (composition with C01: Valid stores) *)
Theorem C06_fork_one_reply : forall f cps next hs s rc fin s' rc' fin', Valid s -> pos_hdrs hs ->
  hloop f cps next s rc fin hs = HDone s' rc' fin' ->
  Valid s' /\ tip_cum s <= tip_cum s' /\ forall r, In r s' -> orph r = false -> cum r <= tip_cum s'.
Proof. exact fork_one_reply. Qed.

(* the statement's caveat: a reply without any longest-chain header ends the conversation *)
Theorem C06_stops_when_no_longest : forall cfg st p c hs s' rc,
  aget p (d_states st) = Some c -> d_hfm st = true ->
  hloop (c_forb cfg) (sm_cps cfg) (d_next st) (d_store st) false None hs = HDone s' rc None ->
  snd (on_headers cfg st p hs) = [] /\ d_next (fst (on_headers cfg st p hs)) = d_next st.
Proof. exact stops_when_no_longest. Qed.

Definition C06_multi_partial := (C06_multi_stored_was_offered_partial, C06_multi_tip_work_monotone_partial, C06_multi_done_selects_new_sync_peer_partial).

Theorem C06_prefix_store_good : forall f gid gpl C, good_chain f gid C -> forall k, (k <= length C)%nat ->
  Good gid C k (run_from f (init gid gpl) (firstn k C)).
Proof. exact good_prefix. Qed.

(* the hypotheses are satisfiable *)
Theorem C06_catchup_example :
  good_chain (c_forb exCfg) 1 exC /\ cps_ok 1 exC (eff_cps exCfg) /\ sorted (eff_cps exCfg) /\
  Good 1 exC 1 (run_from (c_forb exCfg) (init 1 (ex_pl 486604799)) (firstn 1 exC)).
Proof. exact ex_catchup_hyps. Qed.

(* the two repaired situations, on the model of the repaired code *)
Theorem C06_disabled_now_syncs_example :
  let cfg := {| c_cps := [(1, 77%N)]; c_disable := true; c_forb := []; c_now := 0 |} in
  let y0 := y_init cfg 1 (init 1 (ex_pl 486604799)) [(7%N, node0 exC 2 [])] [] in
  let '(y, ts) := y_run y0 [CConnect 7; CRun 20] in
  final_tip y = Some 6%N /\ ~ In (Disconnect 7) (all_effs ts) /\ quiescent y = true.
Proof. exact ex_disabled_now_syncs. Qed.

Theorem C06_announce_now_followed_example :
  let cfg := {| c_cps := [(2, 3%N)]; c_disable := false; c_forb := []; c_now := 1800000000 |} in
  let y0 := y_init cfg 1 (init 1 (ex_pl 486604799)) [(7%N, node0 (firstn 2 exNew) 2000 (skipn 2 exNew))] [] in
  let '(y, ts) := y_run y0 [CConnect 7; CRun 20; CAnnounce 7 1 true; CRun 20] in
  final_tip y = Some 4%N /\ quiescent y = true /\
  concat (map (fun x => snd (fst x)) (nth 3 ts [])) = [GetHeaders 7 [3; 2; 1]%N 4%N; GetHeaders 7 [4; 3; 2; 1]%N 0%N].
Proof. exact ex_announce_now_followed. Qed.

Theorem C06_lagging_sync_peer_refuted :
  let cfg := {| c_cps := [(1, 2%N)]; c_disable := false; c_forb := []; c_now := 1800000000 |} in
  let y0 := y_init cfg 1 (init 1 (ex_pl 486604799)) [(7%N, node0 (firstn 2 exC) 2000 []); (8%N, node0 exC 2000 [])] [] in
  let '(y, ts) := y_run y0 [CConnect 7; CRun 20; CConnect 8; CRun 20; CTick true; CRun 20] in
  final_tip y = Some 3%N /\ quiescent y = true /\ d_sync (y_eng y) = Some 7%N /\
  (exists n, aget 8%N (y_nodes y) = Some n /\ n_open n = true /\ length (n_chain n) = 5%nat).
Proof. exact lagging_sync_peer_refuted. Qed.

Print Assumptions C06_catchup_linear.
Print Assumptions C06_catchup_linear_exp.
Print Assumptions C06_multi_stored_was_offered_partial.
Print Assumptions C06_multi_tip_work_monotone_partial.
Print Assumptions C06_multi_done_selects_new_sync_peer_partial.
Print Assumptions C06_fork_one_reply.
Print Assumptions C06_stops_when_no_longest.
Print Assumptions C06_prefix_store_good.
Print Assumptions C06_catchup_example.
Print Assumptions C06_catchup_linear_enabled.
Print Assumptions C06_catchup_linear_disabled.
Print Assumptions C06_announce_inv.
Print Assumptions C06_announce_headers.
Print Assumptions C06_announce_headers_exp.
Print Assumptions C06_resync_after_done_partial.
Print Assumptions C06_disabled_now_syncs_example.
Print Assumptions C06_announce_now_followed_example.
Print Assumptions C06_lagging_sync_peer_refuted.
