(* C12 - Webhooks deactivate at max_tries consecutive failures, reset on success.
   This file contains only the property theorems, each closed by `exact`.

   Two variants of one model (theories/Webhook.v, `fixes` = which of the three proposed repairs are applied):
     faithful = /repo as it is         -> the statement is REFUTED three times (three recorded defects)
     fixed    = with build/proposed-fixes/C12-1..3.diff -> C12_main, the full statement, is proved.
   `table_after fx mt prod ops` is the webhooks table after ANY sequence of register(bearer|custom|none) /
   delete / notify(per-url outcome) / restart (keeping or changing max_tries) / rejected-request operations from the empty table; `prod` says whether the
   production HTTP client or an injected one performs the calls. *)
From Coq Require Import ZArith List Bool.
From BHS Require Import Webhook WebhookProofs WebhookOracleProofs.
Import ListNotations.
Open Scope Z_scope.

(* The full statement, for every max_tries >= 1 and every operation/outcome sequence (clauses: Webhook.v). *)
Theorem C12_main : forall (mt : Z) (prod : bool) (ops : list op), 1 <= mt -> Forall (limit_kept mt) ops ->
  let tb := table_after_fixed mt prod ops in
  table_ok mt tb /\ notify_clause fixed mt prod tb /\ register_clause fixed tb /\ delete_clause tb /\ get_clause fixed tb.
Proof. exact C12_statement_fixed. Qed.

(* The notify clause written out: one event from any reachable table. *)
Theorem C12_main_notify : forall (mt : Z) (prod : bool) (ops : list op), 1 <= mt -> Forall (limit_kept mt) ops ->
  forall (f : Z -> outcome) (now u : Z),
  let tb := table_after_fixed mt prod ops in
  let tb' := fst (notify_fixed mt prod f now tb) in
  let ps := snd (notify_fixed mt prod f now tb) in
  match find_row u tb with
  | Some r =>
    if r_active r then
      (* active: exactly one POST, with exactly the configured authorisation header *)
      posts_to u ps = [(u, auth_headers (r_hdr r) (r_tok r))] /\
      exists r', find_row u tb' = Some r' /\
        r_url r' = u /\ r_hdr r' = r_hdr r /\ r_tok r' = r_tok r /\
        r_lstatus r' = SOut (f u) /\ r_lts r' = now /\
        (* a 200 resets the count to zero *)
        (is_ok (f u) = true -> r_errors r' = 0 /\ r_active r' = true) /\
        (* anything else increments it; inactive exactly when the count reaches max_tries *)
        (is_ok (f u) = false -> r_errors r' = r_errors r + 1 /\ (r_active r' = false <-> r_errors r + 1 = mt))
    else (* inactive: not called, unchanged *) posts_to u ps = [] /\ find_row u tb' = Some r
  | None => (* deleted / never registered: not called *) posts_to u ps = [] /\ find_row u tb' = None
  end.
Proof. exact (fun mt prod ops H Hk => proj1 (proj2 (C12_statement_fixed mt prod ops H Hk))). Qed.

(* The count never exceeds max_tries and the flag is exactly "count below max_tries", in every reachable table. *)
Theorem C12_invariant : forall (mt : Z) (prod : bool) (ops : list op), 1 <= mt -> Forall (limit_kept mt) ops ->
  let tb := table_after_fixed mt prod ops in
  NoDup (map r_url tb) /\
  Forall (fun r => 0 <= r_errors r <= mt /\ (r_active r = false <-> r_errors r = mt)) tb.
Proof. exact table_ok_reachable. Qed.

(* Trace level: n consecutive failed deliveries (events one at a time) to an active webhook with count e. *)
Theorem C12_failing_streak : forall mt prod evs tb u r, 1 <= mt -> table_ok mt tb ->
  find_row u tb = Some r -> r_active r = true ->
  Forall (fun ev => is_ok (fst ev u) = false) evs ->
  let n := Z.of_nat (length evs) in
  exists r', find_row u (fst (notify_seq fixed mt prod evs tb)) = Some r' /\
    r_errors r' = Z.min (r_errors r + n) mt /\
    r_active r' = (r_errors r + n <? mt) /\
    r_hdr r' = r_hdr r /\ r_tok r' = r_tok r /\
    Z.of_nat (length (posts_to u (snd (notify_seq fixed mt prod evs tb)))) = Z.min n (mt - r_errors r).
Proof. exact failing_streak_fixed. Qed.

(* ---------- restarts that CHANGE webhook.max_tries (op OpRestartMt m) ----------
   C12_main above is about histories under one limit (limit_kept: restarts keep it).  The repaired model remembers no
   limit anywhere - it is an argument of each notify step - so for histories in which restarts change the limit the same
   clauses hold with the limit IN FORCE (the one of the last restart), for webhooks registered before or after it; what
   no longer holds is the invariant "count <= limit" (a lowered limit may lie below a count already reached), hence the
   deactivation condition reads "the new count is at or above the limit in force". *)
Theorem C12_main_any_limit : forall (mt : Z) (prod : bool) (ops : list op),
  let tb := table_after_fixed mt prod ops in
  NoDup (map r_url tb) /\ notify_clause_any fixed (limit_after mt ops) prod tb /\
  register_clause fixed tb /\ delete_clause tb /\ get_clause fixed tb.
Proof. exact C12_statement_any_fixed. Qed.

(* n consecutive failures under the limit mt, whatever the count e the webhook starts from:
   k = min(n, max(1, mt - e)) POSTs, count e + k, still active iff n = 0 or e + n < mt. *)
Theorem C12_failing_streak_any_limit : forall mt prod evs tb u r, NoDup (map r_url tb) ->
  find_row u tb = Some r -> r_active r = true ->
  Forall (fun ev => is_ok (fst ev u) = false) evs ->
  let n := Z.of_nat (length evs) in
  let k := Z.min n (Z.max 1 (mt - r_errors r)) in
  exists r', find_row u (fst (notify_seq fixed mt prod evs tb)) = Some r' /\
    r_errors r' = r_errors r + k /\
    (r_active r' = true <-> (n = 0 \/ r_errors r + n < mt)) /\
    r_hdr r' = r_hdr r /\ r_tok r' = r_tok r /\
    Z.of_nat (length (posts_to u (snd (notify_seq fixed mt prod evs tb)))) = k.
Proof. exact failing_streak_any. Qed.

(* a failing streak that straddles a restart changing the limit mt1 -> mt2 (n1 failures before, still active; n2 after):
   after the restart only mt2 counts for a webhook registered before it. *)
Theorem C12_failing_streak_across_restart : forall mt1 mt2 prod evs1 evs2 tb u r, NoDup (map r_url tb) ->
  find_row u tb = Some r -> r_active r = true ->
  Forall (fun ev => is_ok (fst ev u) = false) evs1 -> Forall (fun ev => is_ok (fst ev u) = false) evs2 ->
  let n1 := Z.of_nat (length evs1) in
  let n2 := Z.of_nat (length evs2) in
  let e := r_errors r in
  e + n1 < mt1 -> 0 <= e ->
  let tb1 := fst (notify_seq fixed mt1 prod evs1 tb) in
  let st2 := notify_seq fixed mt2 prod evs2 (fst (fst (step fixed mt1 prod 0 (OpRestartMt mt2) tb1))) in
  let k2 := Z.min n2 (Z.max 1 (mt2 - (e + n1))) in
  exists r', find_row u (fst st2) = Some r' /\
    r_errors r' = e + n1 + k2 /\
    (r_active r' = true <-> (n2 = 0 \/ e + n1 + n2 < mt2)) /\
    Z.of_nat (length (posts_to u (snd st2))) = k2.
Proof. exact failing_streak_across_restart. Qed.

(* The executable spec oracle that judges the implementation's observed behaviour step by step raises no alarm
   on any run of the repaired model, whatever the limit and however restarts change it (urls 0..3 = the ones the harness queries after every step). *)
Theorem C12_oracle_accepts_repaired : forall mt prod ops,
  Forall (fun o => match o with OpRegister u _ _ _ => In u universe | _ => True end) ops ->
  oracle mt prod ops (fst (run_fixed mt prod ops)) = [].
Proof. exact oracle_accepts_fixed. Qed.

(* The code as it is violates the statement - three independent witnesses (vm_compute). *)
(* max_tries = 3, register, one 503: inactive with count 1 (Webhook.MaxTries is 0 after the reload) *)
Theorem C12_maxtries_refuted : ~ C12_statement faithful.
Proof. exact faithful_refuted_maxtries. Qed.
(* register, one delivered event: the row has status/time of the attempt, GET reports "" / never *)
Theorem C12_lastemit_refuted : ~ C12_statement faithful.
Proof. exact faithful_refuted_lastemit. Qed.
(* production client, webhook without authorisation, one event: no POST at all *)
Theorem C12_noauth_refuted : ~ C12_statement faithful.
Proof. exact faithful_refuted_noauth. Qed.
(* the same defect at the client interface: the header map carries the pair ""="" *)
Theorem C12_noauth_scripted_refuted :
  ~ (forall ops, notify_clause faithful 3 false (table_after faithful 3 false ops)).
Proof. exact (noauth_refuted_scripted_gen false false). Qed.

(* Each repair is necessary: with the two others applied the statement is still false. *)
Theorem C12_each_repair_needed :
  ~ C12_statement (mkFixes false true true) /\ ~ C12_statement (mkFixes true false true) /\
  ~ C12_statement (mkFixes true true false).
Proof. exact (conj only_maxtries_missing_refuted (conj only_lastemit_missing_refuted only_skipempty_missing_refuted)). Qed.

Print Assumptions C12_main.
Print Assumptions C12_main_notify.
Print Assumptions C12_invariant.
Print Assumptions C12_failing_streak.
Print Assumptions C12_main_any_limit.
Print Assumptions C12_failing_streak_any_limit.
Print Assumptions C12_failing_streak_across_restart.
Print Assumptions C12_oracle_accepts_repaired.
Print Assumptions C12_maxtries_refuted.
Print Assumptions C12_lastemit_refuted.
Print Assumptions C12_noauth_refuted.
Print Assumptions C12_noauth_scripted_refuted.
Print Assumptions C12_each_repair_needed.
