(* C17 - stub, theorems follow *)
From BHS Require Import ExportImport.
