(* C17 - Export then import reproduces the longest chain; bad files are refused.
   This file contains only the property theorems, each closed by `exact`.

   Vocabulary (coq/theories/ExportImport.v): a table is the headers table in rowid order, a row with
   its header_state; a file is the list of its csv records (column line first); [hashf] is the
   header hash function (any function: the one that labelled the rows); [startup hashf bsz ckh ckhash
   genesis prepared table file] is database.Init: (started?, table afterwards); bsz is the import
   batch size (500 in the code), (ckh, ckhash) the newest checkpoint.

   Composition with the chain model: C17_roundtrip and C17_roundtrip_startup are stated for any list of
   rows with [chain_ok hashf rows] (heights 0,1,2,..; prev links; hash = hashf of the fields; work =
   calc_work bits; cumulated work = running sum) and [Forall fields_ok rows] (the value ranges of the Go
   field types); C17_export_selects_longest says that the export of a table is [export rows] as soon as
   [rows] is the height-ordered list of its LONGEST_CHAIN rows.  The three hypotheses (plus NoDup of the
   hashes: the hash is the primary key) are to be discharged from Valid/reachable stores by the chain model.

   History: before service commit 6243e75 a refused import left its rows behind and the next start
   served them (model startup_old, witnesses in coq/theories/ExportImportHistory.v, not used here). *)
From Coq Require Import ZArith NArith List String.
From BHS Require Import Work ExportImport ExportImportProofs.
From BHS Require Store Chain ChainInv ChainMain ChainExport.
Import ListNotations.
Open Scope Z_scope.

(* Exporting a chain and importing the produced file yields exactly the exported rows: same hashes
   at the same heights, same fields, same work and cumulated work. *)
Theorem C17_roundtrip : forall (hashf : src -> N) (rows : list xrow),
  chain_ok hashf rows -> Forall fields_ok rows -> import hashf (export rows) = Ok rows.
Proof. exact roundtrip. Qed.

(* ... and through the whole start-up path (batches, ON CONFLICT DO NOTHING, consistency validation):
   an empty database started on the exported file holds exactly the exported chain, every row on
   the longest chain. *)
Theorem C17_roundtrip_startup : forall (hashf : src -> N) (bsz : nat) (ckh : Z) (ckhash : N) (genesis : xrow),
  (0 < bsz)%nat -> forall (rows : list xrow) (r : xrow),
  chain_ok hashf rows -> Forall fields_ok rows -> NoDup (map x_hash rows) ->
  0 <= ckh -> nth_error rows (Z.to_nat ckh) = Some r -> x_hash r = ckhash ->
  startup hashf bsz ckh ckhash genesis true [] (Some (export rows)) = (true, map (fun x => (x, st_longest)) rows).
Proof. exact roundtrip_startup. Qed.

(* What is exported from a table is its longest-chain rows in height order: stale and orphan headers
   are left out, the order in which the rows reached the table does not matter. *)
Theorem C17_export_selects_longest : forall (t : table) (rows : list xrow),
  Permutation.Permutation (map fst (filter (fun p => N.eqb (snd p) st_longest) t)) rows ->
  heights_from 0 rows -> export_db t = export rows.
Proof. exact export_db_longest. Qed.

(* The exported file depends on nothing but the longest-chain rows of the table being exported - in
   particular not on earlier exports (the model's export has no other input; the correspondence check
   exports after failed and successful earlier exports in the same temporary directory). *)
Theorem C17_export_depends_on_store_only : forall t1 t2 : table,
  filter (fun p => N.eqb (snd p) st_longest) t1 = filter (fun p => N.eqb (snd p) st_longest) t2 ->
  export_db t1 = export_db t2.
Proof. exact export_store_only. Qed.

(* Bad files make start-up fail, and nothing of them stays in the database.
   (1) A record with a wrong number of fields or a field that does not parse (strconv range checks:
   int32 version, uint32 nonce and bits, int64 timestamp, <= 64 hex digits). *)
Theorem C17_import_refuses_malformed : forall (hashf : src -> N) (bsz : nat) (ckh : Z) (ckhash : N) (genesis : xrow),
  (0 < bsz)%nat -> forall (hdr : record) (recs : list record),
  Exists (fun rec => good_record (List.length hdr) rec = false) recs ->
  startup hashf bsz ckh ckhash genesis true [] (Some (hdr :: recs)) = (false, []).
Proof. exact refuses_malformed_row. Qed.

(* ... whatever the index of the bad row - the first row of an import batch (index k * bsz, where the
   failing batch has read nothing yet) included *)
Theorem C17_import_refuses_bad_row_any_index : forall (hashf : src -> N) (bsz : nat) (ckh : Z) (ckhash : N) (genesis : xrow),
  (0 < bsz)%nat -> forall (hdr : record) (recs : list record) (i : nat) (bad : record),
  nth_error recs i = Some bad -> good_record (List.length hdr) bad = false ->
  startup hashf bsz ckh ckhash genesis true [] (Some (hdr :: recs)) = (false, []).
Proof. exact refuses_bad_row_any_index. Qed.

(* (2) no readable file, or a file without even the column line *)
Theorem C17_import_refuses_missing : forall (hashf : src -> N) (bsz : nat) (ckh : Z) (ckhash : N) (genesis : xrow),
  startup hashf bsz ckh ckhash genesis true [] None = (false, []) /\
  startup hashf bsz ckh ckhash genesis true [] (Some []) = (false, []).
Proof. exact refuses_missing_file. Qed.

(* (3) inconsistent count / heights: no rows at all, or a row lost to a hash conflict *)
Theorem C17_import_refuses_no_rows : forall (hashf : src -> N) (bsz : nat) (ckh : Z) (ckhash : N) (genesis : xrow),
  (0 < bsz)%nat -> forall f, import hashf f = Ok [] ->
  startup hashf bsz ckh ckhash genesis true [] (Some f) = (false, []).
Proof. exact refuses_no_rows. Qed.

Theorem C17_import_refuses_wrong_count : forall (hashf : src -> N) (bsz : nat) (ckh : Z) (ckhash : N) (genesis : xrow),
  (0 < bsz)%nat -> forall f rows, import hashf f = Ok rows ->
  List.length (db_insert_all [] rows) <> List.length rows ->
  startup hashf bsz ckh ckhash genesis true [] (Some f) = (false, []).
Proof. exact refuses_wrong_count. Qed.

(* (4) the block at the newest checkpoint height is missing or has a different hash *)
Theorem C17_import_refuses_checkpoint : forall (hashf : src -> N) (bsz : nat) (ckh : Z) (ckhash : N) (genesis : xrow),
  (0 < bsz)%nat -> forall f rows, import hashf f = Ok rows ->
  ~ (exists r, 0 <= ckh /\ nth_error rows (Z.to_nat ckh) = Some r /\ x_hash r = ckhash) ->
  startup hashf bsz ckh ckhash genesis true [] (Some f) = (false, []).
Proof. exact refuses_checkpoint. Qed.

(* All refusals at once: whatever a start on an empty database accepts is a complete import of the
   file: one longest-chain row per record, at least one, with the checkpoint hash at the checkpoint height. *)
Theorem C17_import_refuses : forall (hashf : src -> N) (bsz : nat) (ckh : Z) (ckhash : N) (genesis : xrow),
  (0 < bsz)%nat -> forall f t,
  startup hashf bsz ckh ckhash genesis true [] f = (true, t) ->
  exists f' rows, f = Some f' /\ import hashf f' = Ok rows /\ t = map (fun x => (x, st_longest)) rows /\ rows <> [] /\
    exists r, 0 <= ckh /\ nth_error rows (Z.to_nat ckh) = Some r /\ x_hash r = ckhash.
Proof. exact accepted_is_import. Qed.

(* A later start on the same database does not silently accept what the failed import left behind:
   a refused import leaves nothing behind, ... *)
Theorem C17_refused_import_leaves_nothing : forall (hashf : src -> N) (bsz : nat) (ckh : Z) (ckhash : N) (genesis : xrow),
  forall f t, startup hashf bsz ckh ckhash genesis true [] f = (false, t) -> t = [].
Proof. exact refused_leaves_nothing. Qed.

(* ... so the later start skips neither the import nor the validation: it behaves exactly as a start
   on a fresh database with the file it is given, ... *)
Theorem C17_second_start_revalidates : forall (hashf : src -> N) (bsz : nat) (ckh : Z) (ckhash : N) (genesis : xrow),
  forall f1 t1, startup hashf bsz ckh ckhash genesis true [] f1 = (false, t1) ->
  forall f2, startup hashf bsz ckh ckhash genesis true t1 f2 = startup hashf bsz ckh ckhash genesis true [] f2.
Proof. exact second_start_revalidates. Qed.

(* ... and whatever it accepts is what a clean import of that file produces. *)
Theorem C17_second_start : forall (hashf : src -> N) (bsz : nat) (ckh : Z) (ckhash : N) (genesis : xrow),
  second_start_sound (startup hashf bsz ckh ckhash genesis).
Proof. exact second_start. Qed.

(* A database that already holds headers is never overwritten by an import. *)
Theorem C17_nonempty_db_untouched : forall (hashf : src -> N) (bsz : nat) (ckh : Z) (ckhash : N) (genesis : xrow),
  forall (t : table) (f : option file), t <> [] ->
  startup hashf bsz ckh ckhash genesis true t f = (true, t).
Proof. exact nonempty_untouched. Qed.


(* Composition with the chain model (ChainExport.v): for EVERY ingestion history (fields within the ranges of the
   Go types, hashes given by hashf), the longest chain of the resulting store satisfies chain_ok and fields_ok, so
   exporting it and importing the file reproduces exactly that chain - stale and orphan headers left out. *)
Theorem C17_over_histories : forall (hashf : src -> N) f gid gpl hs, gid <> 0%N -> ChainMain.nonzero_ids hs ->
  ChainExport.payload_in_range gpl -> (forall h, In h hs -> ChainExport.payload_in_range (Store.s_pl h)) ->
  ChainExport.labelled hashf (Chain.run f gid gpl hs) ->
  exists tip, ChainInv.Inv (Chain.run f gid gpl hs) tip /\
    import hashf (export (ChainExport.longest_rows (Chain.run f gid gpl hs) tip)) = Ok (ChainExport.longest_rows (Chain.run f gid gpl hs) tip).
Proof. exact ChainExport.C17_over_histories. Qed.

Print Assumptions C17_roundtrip.
Print Assumptions C17_roundtrip_startup.
Print Assumptions C17_export_selects_longest.
Print Assumptions C17_export_depends_on_store_only.
Print Assumptions C17_import_refuses_malformed.
Print Assumptions C17_import_refuses_bad_row_any_index.
Print Assumptions C17_import_refuses_missing.
Print Assumptions C17_import_refuses_no_rows.
Print Assumptions C17_import_refuses_wrong_count.
Print Assumptions C17_import_refuses_checkpoint.
Print Assumptions C17_import_refuses.
Print Assumptions C17_refused_import_leaves_nothing.
Print Assumptions C17_second_start_revalidates.
Print Assumptions C17_second_start.
Print Assumptions C17_nonempty_db_untouched.
Print Assumptions C17_over_histories.
