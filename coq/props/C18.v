(* C18 - placeholder while the pipeline is assembled *)
From Coq Require Import ZArith List.
From BHS Require Import Peers ConnMgr.
Open Scope Z_scope.
Theorem C18_stub : Peers.total Peers.init = 0.
Proof. reflexivity. Qed.
Print Assumptions C18_stub.
