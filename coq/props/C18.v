(* C18 - Peer management: outbound target kept; bans, per-host and total limits hold.
   Only the property theorems, each closed by `exact`.  Models: theories/Peers.v (admission
   bookkeeping of transports/p2p/server.go) and theories/ConnMgr.v (transports/p2p/connmgr).

   Every theorem quantifies over ALL finite event histories from the initial state (and over all
   values of the limits).  Admission theorems that speak about the counters carry [wf evs]: each peer
   object is delivered to Add at most once and a pid names one object - what the server can produce
   (AddPeer is called once per peer, from OnVersion; ids come from an atomic counter).  Persistent
   peers are exempt from the per-host count by design of the code.
   The models mirror /repo after the fix: commits 7026b86 (connmgr) and 1a05aed (server). *)
From Coq Require Import ZArith List.
From BHS Require Import Peers PeersProofs ConnMgr ConnMgrProofs AddrSearch AddrSearchProofs.
From BHS Require AddrBook AddrBookProofs.
Import ListNotations.
Open Scope Z_scope.

(* ---- admission ---- *)

(* the set of admitted peers never exceeds the total peer limit *)
Theorem C18_count_le_max : forall c evs,
  0 <= max_peers c -> total (run c init evs) <= max_peers c.
Proof. exact count_le_max. Qed.

(* ... or the per-host limit *)
Theorem C18_per_host_le_max : forall c evs h,
  0 <= max_per_ip c -> wf evs -> counted_of_host (run c init evs) h <= max_per_ip c.
Proof. exact per_host_le_max. Qed.

(* the per-host counter IS the number of currently admitted counted peers of that host *)
Theorem C18_conn_count_exact : forall c evs h,
  wf evs -> cget (ccount (run c init evs)) h = counted_of_host (run c init evs) h.
Proof. exact conn_count_exact. Qed.

(* the per-group counter IS the number of currently admitted outbound peers of that group *)
Theorem C18_group_count_exact : forall c evs g,
  wf evs -> cget (groups (run c init evs)) g = outbound_of_group (run c init evs) g.
Proof. exact group_count_exact. Qed.

(* counters return to zero when the corresponding peers have left: every counted peer of the host
   that was handed to Add has also been handed to Done - in WHICHEVER order the two were processed.
   [proto]: a Done is only delivered for a peer object that is already disconnected (peerDoneHandler
   waits for WaitForDisconnect).
   History: before fix 1a05aed (handleAddPeerMsg ignores peers that are no longer connected) this held
   only when the Done was processed after the Add; a Done processed first left the dead peer admitted
   for good (the lemma C18_done_before_add_leaks of that time refuted the full statement). *)
Theorem C18_host_counter_returns_to_zero : forall c evs h,
  wf evs -> proto c init evs ->
  (forall p, In p (added evs) -> host p = h -> pkind p <> Persistent -> In (Done p) evs) ->
  cget (ccount (run c init evs)) h = 0.
Proof. exact host_counter_returns_to_zero. Qed.

Theorem C18_group_counter_returns_to_zero : forall c evs g,
  wf evs -> proto c init evs ->
  (forall p, In p (added evs) -> group p = g -> pkind p <> Inbound -> In (Done p) evs) ->
  cget (groups (run c init evs)) g = 0.
Proof. exact group_counter_returns_to_zero. Qed.

(* a peer object that has disconnected is ignored by Add: nothing changes *)
Theorem C18_gone_peer_not_admitted : forall c s p now,
  Peers.zmem (pid p) (gone s) = true -> step c s (Add p now) = (s, false).
Proof. exact gone_peer_not_admitted. Qed.

(* no peer from a banned host is admitted before the ban duration has elapsed: whatever came before
   the ban and whatever happens between the ban and the attempt (clock not running backwards); the
   admission bookkeeping is left untouched (the refused peer is disconnected) *)
Theorem C18_banned_not_admitted_before_expiry : forall c evs1 evs2 h t0 p now,
  host p = h -> now < t0 + ban_dur c ->
  time_mono t0 (evs2 ++ [Add p now]) ->
  let s := run c init (evs1 ++ Ban h t0 :: evs2) in
  snd (step c s (Add p now)) = false /\ books (fst (step c s (Add p now))) = books s.
Proof. exact banned_not_admitted_before_expiry. Qed.

(* ... while it is admitted again afterwards; and admission never wedges: with every ban of the host
   run out, fewer than max_per_ip counted peers of the host really admitted and fewer than max_peers
   in total, a new peer that is still connected IS admitted *)
Theorem C18_admitted_after_expiry : forall c evs p now,
  wf (evs ++ [Add p now]) ->
  (forall q, In (Disc q) evs -> pid q <> pid p) ->
  (forall t0, In (Ban (host p) t0) evs -> t0 + ban_dur c <= now) ->
  counted_of_host (run c init evs) (host p) < max_per_ip c ->
  total (run c init evs) < max_peers c ->
  snd (step c (run c init evs) (Add p now)) = true /\
  admitted (fst (step c (run c init evs) (Add p now))) p.
Proof. exact admitted_after_expiry. Qed.

(* ---- connection manager ---- *)

(* never holds more than the target *)
Theorem C18_conns_le_target : forall T mf hb evs,
  0 <= T -> ConnMgr.zlen (conns (crun (cinit T mf hb) evs)) <= T.
Proof. exact conns_le_target. Qed.

(* every slot is a connection, a request in flight, an armed retry timer, or was given up on behalf of
   a caller of the public API ([canceled]: request canceled in flight by Disconnect/Remove, connection
   removed by Remove).
   History: before fix 7026b86 the sum also contained the number of address bans - at the 25th failure
   of an address registerFailedConnectionTo banned it and returned without a successor request, and
   C18_ban_loses_slot refuted "quiescent => target established". *)
Theorem C18_slot_conservation : forall T mf hb evs,
  0 <= T ->
  let s := crun (cinit T mf hb) evs in
  ConnMgr.zlen (conns s) + ConnMgr.zlen (tasks s) + timers s + canceled s = T.
Proof. exact slot_conservation. Qed.

(* on the server's alphabet (Disconnect only for ids learnt through OnConnection, never for a request
   in flight; no Remove) nothing is ever given up *)
Theorem C18_no_cancel : forall T mf hb evs,
  server_alphabet (cinit T mf hb) evs -> canceled (crun (cinit T mf hb) evs) = 0.
Proof. exact no_cancel. Qed.

(* keeps asking for addresses and dialling until the target is established: when nothing is in
   flight any more the target IS established ... *)
Theorem C18_quiescent_full : forall T mf hb evs,
  0 <= T -> server_alphabet (cinit T mf hb) evs ->
  let s := crun (cinit T mf hb) evs in
  quiescent s -> ConnMgr.zlen (conns s) = T.
Proof. exact quiescent_full. Qed.

(* ... and below the target a request is in flight or a retry timer is armed *)
Theorem C18_still_trying : forall T mf hb evs,
  0 <= T -> server_alphabet (cinit T mf hb) evs ->
  let s := crun (cinit T mf hb) evs in
  ConnMgr.zlen (conns s) < T -> tasks s <> [] \/ 0 < timers s.
Proof. exact still_trying. Qed.

(* for arbitrary callers of the public Disconnect / Remove: exactly the slots given up on their behalf
   (requests canceled in flight, connections removed without retry) are missing *)
Theorem C18_quiescent_full_any : forall T mf hb evs,
  0 <= T ->
  let s := crun (cinit T mf hb) evs in
  quiescent s -> ConnMgr.zlen (conns s) = T - canceled s.
Proof. exact quiescent_full_any. Qed.

(* a request in flight is never stuck: the event of its stage moves it on, up to a connection *)
Theorem C18_request_progress : forall s id,
  (task_stage (tasks s) id = Some Created ->
     task_stage (tasks (cstep s (Registered id))) id = Some WaitAddr /\ ConnMgr.zmem id (pend (cstep s (Registered id))) = true) /\
  (forall a, task_stage (tasks s) id = Some WaitAddr -> ConnMgr.zmem id (pend s) = true ->
     task_stage (tasks (cstep s (AddrOk id a))) id = Some (Dialing a)) /\
  (forall a, task_stage (tasks s) id = Some (Dialing a) -> ConnMgr.zmem id (pend s) = true ->
     conns (cstep s (DialOk id)) = conns s ++ [(id, a)]).
Proof. exact request_progress. Qed.

(* replaces an outbound connection that closes - always (also when its address gets banned); hasban =
   a BanAddress callback is configured, as in the server *)
Theorem C18_replaces_closed : forall T mf hb evs id a,
  0 <= T ->
  let s := crun (cinit T mf hb) evs in
  hasban s = true ->
  conn_addr (conns s) id = Some a ->
  let s' := cstep s (Disconnect id) in
  ConnMgr.zlen (conns s') = ConnMgr.zlen (conns s) - 1 /\
  tasks s' = tasks s ++ [(next s + 1, Created)].
Proof. exact replaces_closed. Qed.

(* in any configuration the closed connection is replaced by a request or - when the global failure
   counter is at its threshold and no BanAddress callback is configured - by an armed retry timer *)
Theorem C18_replaces_closed_any : forall T mf hb evs id a,
  0 <= T ->
  let s := crun (cinit T mf hb) evs in
  conn_addr (conns s) id = Some a ->
  let s' := cstep s (Disconnect id) in
  ConnMgr.zlen (conns s') = ConnMgr.zlen (conns s) - 1 /\
  ConnMgr.zlen (tasks s') + timers s' = ConnMgr.zlen (tasks s) + timers s + 1.
Proof. exact replaces_closed_any. Qed.

(* the states visited by the correspondence check's script layer are states of this model *)
Theorem C18_script_states_reachable : forall T mf hb sevs,
  exists evs, core (fold_left (fun x e => fst (sstep x e)) sevs (sinit T mf hb)) = crun (cinit T mf hb) evs.
Proof. exact script_states_reachable. Qed.

Print Assumptions C18_count_le_max.
Print Assumptions C18_per_host_le_max.
Print Assumptions C18_conn_count_exact.
Print Assumptions C18_group_count_exact.
Print Assumptions C18_host_counter_returns_to_zero.
Print Assumptions C18_group_counter_returns_to_zero.
Print Assumptions C18_gone_peer_not_admitted.
Print Assumptions C18_banned_not_admitted_before_expiry.
Print Assumptions C18_admitted_after_expiry.
Print Assumptions C18_conns_le_target.
Print Assumptions C18_slot_conservation.
Print Assumptions C18_no_cancel.
Print Assumptions C18_quiescent_full.
Print Assumptions C18_still_trying.
Print Assumptions C18_quiescent_full_any.
Print Assumptions C18_request_progress.
Print Assumptions C18_replaces_closed.
Print Assumptions C18_replaces_closed_any.
Print Assumptions C18_script_states_reachable.

(* ---- the outbound address selection (p2putil.NewAddressFunc, the connection manager's GetNewAddress) ----
   The draws of the address manager are the environment: [picks] is the sequence it offers. *)

(* what is returned was offered within 100 draws, is of a group no outbound peer is connected to, was not attempted
   recently unless 30 draws were turned down, and listens on the default port unless 50 were *)
Theorem C18_new_address_sound : forall picks used i c,
  new_address picks used = Some (i, c) ->
  (i < max_tries)%nat /\ nth_error picks i = Some (Some c) /\ used (c_group c) = false /\
  (c_recent c = true -> (30 <= i)%nat) /\ (c_default_port c = false -> (50 <= i)%nat).
Proof. exact new_address_sound. Qed.

(* the filters relax: a candidate of a free group offered at a position where its filters no longer apply ends the
   search with an address - so the outbound target stays reachable when every known address listens on another
   port or was attempted a moment ago *)
Theorem C18_new_address_relaxes : forall picks used k c,
  (k < max_tries)%nat ->
  nth_error picks k = Some (Some c) ->
  (forall j, (j < k)%nat -> exists d, nth_error picks j = Some (Some d)) ->
  used (c_group c) = false ->
  (c_recent c = true -> (30 <= k)%nat) ->
  (c_default_port c = false -> (50 <= k)%nat) ->
  exists i d, new_address picks used = Some (i, d) /\ (i <= k)%nat.
Proof. exact new_address_relaxes. Qed.

(* ... and the group filter never does (by design) *)
Theorem C18_new_address_group_never_relaxes : forall picks used,
  (forall c, In (Some c) picks -> used (c_group c) = true) -> new_address picks used = None.
Proof. exact new_address_group_never_relaxes. Qed.

Print Assumptions C18_new_address_sound.
Print Assumptions C18_new_address_relaxes.
Print Assumptions C18_new_address_group_never_relaxes.

(* ---- the address manager's bookkeeping (addrmgr: updateAddress, Good, BanAddress) ----
   The bucket a hash selects and the outcome of updateAddress's lottery are the environment (arguments of the
   operations); eviction from a full bucket is not modelled.  The model mirrors /repo after fix dec9d30. *)

(* after EVERY history of add / good / ban operations the counters are exact: nTried is the number of addresses the
   tried table holds, nNew the number of addresses held by new buckets, and the index holds exactly those *)
Theorem C18_addrmgr_counters_exact : forall ops,
  let s := AddrBook.run ops in
  AddrBook.n_tried s = AddrBook.in_tried s /\ AddrBook.n_new s = AddrBook.in_new s /\
  Z.of_nat (length (AddrBook.index s)) = AddrBook.n_new s + AddrBook.n_tried s.
Proof. exact AddrBookProofs.counters_exact. Qed.

(* GetAddress looks for a non-empty bucket in the table its counter sends it to, holding the manager's mutex: after
   every history that table holds an address (so the search ends), and with both counters 0 nothing is known *)
Theorem C18_addrmgr_get_address_has_candidate : forall ops,
  let s := AddrBook.run ops in
  (0 < AddrBook.n_tried s -> exists e b, In e (AddrBook.index s) /\ AddrBook.e_tried_in e = Some b) /\
  (0 < AddrBook.n_new s -> exists e b, In e (AddrBook.index s) /\ In b (AddrBook.e_buckets e)) /\
  (AddrBook.n_tried s + AddrBook.n_new s = 0 -> AddrBook.index s = []).
Proof. exact AddrBookProofs.get_address_has_candidate. Qed.

(* a banned address is forgotten (index and tables) and stays ignored while the ban is recorded *)
Theorem C18_addrmgr_ban_forgets : forall ops k,
  let s := AddrBook.step (AddrBook.run ops) (AddrBook.OpBan k) in
  AddrBook.find k (AddrBook.index s) = None /\ In k (AddrBook.banned s).
Proof. exact AddrBookProofs.ban_forgets. Qed.

(* the code as it was before dec9d30 fails the first of these: add, connect (Good), ban leaves nTried = 1 with an
   empty tried table - the state in which GetAddress never returns (history, kept as a refutation of the old code) *)
Theorem C18_addrmgr_old_ban_refuted :
  let s := AddrBook.run_old [AddrBook.OpAdd 7 3 true; AddrBook.OpGood 7 9; AddrBook.OpBan 7] in
  AddrBook.n_tried s = 1 /\ AddrBook.in_tried s = 0 /\ AddrBook.refs_of s 7 = -1.
Proof. exact AddrBookProofs.old_ban_of_tried_address_refuted. Qed.

Print Assumptions C18_addrmgr_counters_exact.
Print Assumptions C18_addrmgr_get_address_has_candidate.
Print Assumptions C18_addrmgr_ban_forgets.
Print Assumptions C18_addrmgr_old_ban_refuted.
