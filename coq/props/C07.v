(* C07 - Forbidden headers and checkpoint-violating peers are contained.
   Only the property theorems; each is closed by `exact`.

   Models: BHS.Chain (chainService.Add: the Forbidden outcome plans no write), BHS.SyncDefault (SyncManager:
   handleHeadersMsg / verifyCheckpointHeight / findNextHeaderCheckpoint + the peer's request filter),
   BHS.SyncExp (experimental peer: handleHeadersMsg + checkpoint.VerifyAndAdvance), BHS.SyncNode (cursors).
   Spec oracles applied to the implementation's outputs: BHS.SyncSpec.

   Statement parts and where they are:
     "never stored or served"            C07_forbidden_never_stored (histories), .._default / .._exp (all event
                                         sequences of the engines), C07_forbidden_never_read (every read returns store rows)
     "refused every time"                C07_forbidden_always_refused, C07_forbidden_every_time (histories containing the same hash any
                                         number of times), C07_rejected_peer_dropped_every_time (after any engine event sequence)
     "descendants only ever orphans"     C07_descendants_orphan (descendants at ANY depth, every history, ANY work values, parents arriving
                                         in any order), C07_descendants_orphan_forever / C07_orphans_stay_orphans (whatever arrives later);
                                         the older positive-work, children-only statements are kept as _partial
     "sender disconnected (and banned)"  C07_rejected_peer_dropped_default / _exp: exactly [Ban p; Disconnect p] / [Disconnect p],
                                         store = the store before the forbidden header (rest of the batch not ingested), no request
     "checkpoint mismatch"               C07_checkpoint_contradiction_any_checkpoint_default / _exp (ANY checkpoint of the list, any batch,
                                         stale or longest; _reachable_default: in every reachable state), C07_checkpoint_mismatch_default /
                                         _exp (the cursor's checkpoint): exactly [Disconnect p], no request
                                         (both engines compare AFTER Chains.Add: the contradicting header is stored)
     "matching header advances"          C07_checkpoint_match_advances_default(_least) / _exp, C07_no_checkpoint_left_zero_stop
     "both cursors = least checkpoint above h"   C07_cursor_spec (sorted lists of 0..n checkpoints)
     "still converges afterwards"        C07_contained_then_converges_partial (composition with C06 catchup_linear) *)
From Coq Require Import ZArith NArith List Bool.
From BHS Require Import Work Store Chain ChainSpec ChainInv ChainAdd ChainMain SyncNode SyncDefault SyncExp SyncSys SyncSpec SyncC07Proofs SyncC06Proofs ChainFields ChainForbidden.
Import ListNotations.
Open Scope Z_scope.

(* ---- never stored ---- *)
Theorem C07_forbidden_never_stored : forall f gid gpl hs i,
  memN gid f = false -> memN i f = true -> by_hash (run f gid gpl hs) i = None.
Proof. exact forbidden_never_stored. Qed.

Theorem C07_forbidden_never_stored_default : forall cfg s evs i,
  no_forb (c_forb cfg) s -> memN i (c_forb cfg) = true -> by_hash (d_store (d_run cfg (d_init cfg s) evs)) i = None.
Proof. exact forbidden_never_stored_default. Qed.

Theorem C07_forbidden_never_stored_exp : forall cfg p lb s evs i,
  no_forb (x_forb cfg) s -> memN i (x_forb cfg) = true -> by_hash (e_store (e_run cfg p (fst (e_start cfg p lb s)) evs)) i = None.
Proof. exact forbidden_never_stored_exp. Qed.

Theorem C07_forbidden_never_read : forall f s, no_forb f s ->
  (forall t, tipB s = Some t -> memN (id t) f = false) /\
  (forall h r, l_at s h = Some r -> memN (id r) f = false) /\
  (forall t r, In r (chain s t) -> memN (id r) f = false) /\
  (forall i, In i (locator s) -> memN i f = false).
Proof. exact forbidden_never_read. Qed.

Theorem C07_oracle_forbidden_absent : forall f s, no_forb f s -> spec_forbidden_absent f (rows_of s) = true.
Proof. exact rows_of_forbidden_absent. Qed.


(* ---- a forbidden hash is refused EVERY time: in any history, however often the same hash was submitted before ---- *)
Theorem C07_forbidden_always_refused : forall f gid gpl hs h, memN gid f = false -> memN (s_id h) f = true ->
  plan f (run f gid gpl hs) h = (Forbidden, []) /\ add f (run f gid gpl hs) h = (run f gid gpl hs, Forbidden).
Proof. exact forbidden_always_refused. Qed.

Theorem C07_forbidden_every_time : forall f gid gpl pre h post, memN gid f = false -> memN (s_id h) f = true ->
  nth (length pre) (outcomes f (init gid gpl) (pre ++ h :: post)) ErrNoTip = Forbidden.
Proof. exact forbidden_every_time. Qed.

(* ... and after ANY sequence of engine events the sender of a forbidden header is dropped (second, third .. delivery alike) *)
Theorem C07_rejected_peer_dropped_every_time : forall cfg s0 evs p c o pre h post s1 rc1 fin1,
  no_forb (c_forb cfg) s0 ->
  let st := d_run cfg (d_init cfg s0) evs in
  aget p (d_states st) = Some c -> d_hfm st = true -> aget p (d_objs st) = Some o -> po_conn o = true ->
  hloop (c_forb cfg) (sm_cps cfg) (d_next st) (d_store st) false None pre = HDone s1 rc1 fin1 ->
  memN (s_id h) (c_forb cfg) = true ->
  exists st', on_headers cfg st p (pre ++ h :: post) = (st', [Ban p; Disconnect p]) /\ d_store st' = s1.
Proof. exact rejected_peer_dropped_every_time. Qed.

(* ---- descendants ---- *)
Theorem C07_descendants_orphan_partial : forall f gid gpl hs,
  gid <> 0%N -> positive_work hs -> nonzero_ids hs -> memN gid f = false -> memN 0%N f = false ->
  forall r, In r (run f gid gpl hs) -> memN (prev r) f = true -> st r = Orphan /\ orph r = true.
Proof. exact descendants_of_forbidden_orphan. Qed.

(* the full statement: [desc_forb f s r] = r is linked through stored rows (any number of them) to a row whose previous
   hash is forbidden.  Every history, any work values (zero-work headers included), any arrival order. *)
Theorem C07_descendants_orphan : forall f gid gpl hs,
  gid <> 0%N -> nonzero_ids hs -> memN gid f = false -> memN 0%N f = false ->
  forall r, desc_forb f (run f gid gpl hs) r -> st r = Orphan.
Proof. exact descendants_of_forbidden_orphan_all. Qed.

(* "can only EVER be": whatever is submitted afterwards *)
Theorem C07_descendants_orphan_forever : forall f gid gpl hs hs' r,
  gid <> 0%N -> nonzero_ids (hs ++ hs') -> memN gid f = false -> memN 0%N f = false ->
  desc_forb f (run f gid gpl hs) r ->
  exists r', by_hash (run f gid gpl (hs ++ hs')) (id r) = Some r' /\ st r' = Orphan.
Proof. exact descendants_of_forbidden_orphan_forever. Qed.

Theorem C07_orphans_stay_orphans : forall f gid gpl hs hs' i r, gid <> 0%N -> nonzero_ids (hs ++ hs') ->
  by_hash (run f gid gpl hs) i = Some r -> st r = Orphan ->
  exists r', by_hash (run f gid gpl (hs ++ hs')) i = Some r' /\ st r' = Orphan /\ dummy r' = dummy r.
Proof. exact orphans_stay_orphans_all. Qed.

(* the oracle applied to the implementation's table (descendants closed under the parent relation, all ORPHAN)
   accepts every store satisfying the structural invariant: it raises no alarm on a correct implementation *)
Theorem C07_oracle_desc_orphan_all : forall f s tip, Inv s tip -> no_forb f s -> memN 0%N f = false ->
  spec_desc_orphan_all f (rows_of s) = true.
Proof. exact desc_orphan_all_inv. Qed.

(* ... and accepts ONLY tables in which every descendant at any depth is an ORPHAN: the oracle decides the clause *)
Theorem C07_oracle_desc_orphan_all_complete : forall f s, NoDup (ids s) ->
  spec_desc_orphan_all f (rows_of s) = true -> forall r, desc_forb f s r -> st r = Orphan.
Proof. exact desc_orphan_all_complete. Qed.

Theorem C07_oracle_desc_orphan : forall f s, Valid s -> no_forb f s -> memN 0%N f = false -> spec_desc_orphan f (rows_of s) = true.
Proof. exact descendants_orphan_valid. Qed.

Theorem C07_orphans_stay_orphans_partial : forall f s tip h r,
  Inv2 s tip -> 0 < calc_work (p_bits (s_pl h)) -> s_id h <> 0%N ->
  In r s -> st r = Orphan -> exists r', In r' (fst (add f s h)) /\ id r' = id r /\ st r' = Orphan.
Proof. exact orphans_stay_orphans. Qed.

(* ---- the sender of a forbidden header ---- *)
Theorem C07_rejected_peer_dropped_default : forall cfg st p c o pre h post s1 rc1 fin1,
  no_forb (c_forb cfg) (d_store st) ->
  aget p (d_states st) = Some c -> d_hfm st = true -> aget p (d_objs st) = Some o -> po_conn o = true ->
  hloop (c_forb cfg) (sm_cps cfg) (d_next st) (d_store st) false None pre = HDone s1 rc1 fin1 ->
  memN (s_id h) (c_forb cfg) = true ->
  exists st', on_headers cfg st p (pre ++ h :: post) = (st', [Ban p; Disconnect p]) /\
    d_store st' = s1 /\ d_next st' = d_next st /\ d_hfm st' = d_hfm st /\ d_sync st' = d_sync st /\ d_states st' = d_states st.
Proof. exact rejected_peer_dropped_default'. Qed.

Theorem C07_rejected_peer_dropped_exp : forall cfg p st pre h post s1 cur1 n1 l1,
  e_conn st = true ->
  eloop cfg (e_store st) (e_cur st) O 0 pre = EDoneL s1 cur1 n1 l1 ->
  by_hash s1 (s_id h) = None -> memN (s_id h) (x_forb cfg) = true ->
  exists st', e_on_headers cfg p st (pre ++ h :: post) = (st', [Disconnect p]) /\
    e_store st' = s1 /\ e_conn st' = false /\ e_cur st' = cur1 /\ e_shm st' = e_shm st.
Proof. exact rejected_peer_dropped_exp. Qed.

(* ---- a header contradicting the expected checkpoint ---- *)
Theorem C07_checkpoint_mismatch_default : forall cfg st p c o pre h post s1 rc1 fin1 H cid s2 x,
  aget p (d_states st) = Some c -> d_hfm st = true -> aget p (d_objs st) = Some o -> po_conn o = true ->
  hloop (c_forb cfg) (sm_cps cfg) (d_next st) (d_store st) false None pre = HDone s1 rc1 fin1 ->
  d_next st = Some (H, cid) ->
  add (c_forb cfg) s1 h = (s2, Stored x) -> height (create_header s1 h) = H -> s_id h <> cid ->
  exists st', on_headers cfg st p (pre ++ h :: post) = (st', [Disconnect p]) /\
    d_store st' = s2 /\ d_next st' = d_next st /\ d_hfm st' = d_hfm st /\ d_sync st' = d_sync st /\ d_states st' = d_states st.
Proof. exact checkpoint_mismatch_default. Qed.

Theorem C07_checkpoint_mismatch_exp : forall cfg p st pre h post s1 i H cid n1 l1 s2,
  e_conn st = true ->
  eloop cfg (e_store st) (e_cur st) O 0 pre = EDoneL s1 (Some (i, (H, cid))) n1 l1 ->
  add (x_forb cfg) s1 h = (s2, Stored Longest) -> height (create_header s1 h) = H -> s_id h <> cid ->
  exists st', e_on_headers cfg p st (pre ++ h :: post) = (st', [Disconnect p]) /\ e_store st' = s2 /\ e_conn st' = false.
Proof. exact checkpoint_mismatch_exp. Qed.


(* ---- ANY checkpoint of the list, not only the cursor's (models of /repo after fc399a8 and a26f54a) ----
   History: before fc399a8 the default engine compared only the checkpoint its cursor pointed at: a branch contradicting an
   already passed checkpoint that overtook the tip was adopted, its sender kept and asked for more
   (C07_passed_checkpoint_fork_adopted_refuted, known finding C07-passed-checkpoint-fork-adopted, now fixed); before a26f54a the
   experimental engine compared only longest-chain headers, so a stale contradicting header kept its sender. *)
Theorem C07_checkpoint_contradiction_any_checkpoint_default : forall cfg st p c o pre h post s1 rc1 fin1 s2 x cp0,
  cps_functional (sm_cps cfg) -> cursor_in cfg st ->
  aget p (d_states st) = Some c -> d_hfm st = true -> aget p (d_objs st) = Some o -> po_conn o = true ->
  hloop (c_forb cfg) (sm_cps cfg) (d_next st) (d_store st) false None pre = HDone s1 rc1 fin1 ->
  add (c_forb cfg) s1 h = (s2, Stored x) -> x <> Orphan ->
  In cp0 (sm_cps cfg) -> fst cp0 = height (create_header s1 h) -> snd cp0 <> s_id h ->
  exists st', on_headers cfg st p (pre ++ h :: post) = (st', [Disconnect p]) /\
    d_store st' = s2 /\ d_next st' = d_next st /\ d_hfm st' = d_hfm st /\ d_sync st' = d_sync st /\ d_states st' = d_states st.
Proof. exact checkpoint_contradiction_any_checkpoint_default. Qed.

(* cursor_in (the cursor is an entry of the manager's list) holds in EVERY reachable state: any event sequence, any peers, any
   sync-peer choices, from SyncManager.New on any store *)
Theorem C07_cursor_in_reachable : forall cfg s evs, cursor_in cfg (d_run cfg (d_init cfg s) evs).
Proof. exact cursor_in_reachable. Qed.

(* ... hence, in any reachable state of the default engine and any batch: *)
Theorem C07_checkpoint_contradiction_reachable_default : forall cfg s0 evs p c o pre h post s1 rc1 fin1 s2 x cp0,
  cps_functional (sm_cps cfg) ->
  let st := d_run cfg (d_init cfg s0) evs in
  aget p (d_states st) = Some c -> d_hfm st = true -> aget p (d_objs st) = Some o -> po_conn o = true ->
  hloop (c_forb cfg) (sm_cps cfg) (d_next st) (d_store st) false None pre = HDone s1 rc1 fin1 ->
  add (c_forb cfg) s1 h = (s2, Stored x) -> x <> Orphan ->
  In cp0 (sm_cps cfg) -> fst cp0 = height (create_header s1 h) -> snd cp0 <> s_id h ->
  exists st', on_headers cfg st p (pre ++ h :: post) = (st', [Disconnect p]) /\ d_store st' = s2 /\ d_next st' = d_next st.
Proof. exact checkpoint_contradiction_reachable_default. Qed.

(* experimental engine: ANY state of a connected peer (no reachability premise is needed: the comparison does not involve the
   tracker), ANY batch, stale or longest alike *)
Theorem C07_checkpoint_contradiction_any_checkpoint_exp : forall cfg p st pre h post s1 cur1 n1 l1 s2 x cp0,
  e_conn st = true ->
  eloop cfg (e_store st) (e_cur st) O 0 pre = EDoneL s1 cur1 n1 l1 ->
  add (x_forb cfg) s1 h = (s2, Stored x) -> x <> Orphan ->
  In cp0 (x_cps cfg) -> fst cp0 = height (create_header s1 h) -> snd cp0 <> s_id h ->
  exists st', e_on_headers cfg p st (pre ++ h :: post) = (st', [Disconnect p]) /\ e_store st' = s2 /\ e_conn st' = false /\ e_cur st' = cur1.
Proof. exact checkpoint_contradiction_any_checkpoint_exp. Qed.

Theorem C07_sorted_lists_are_functional : forall cps, sorted cps -> cps_functional cps.
Proof. exact sorted_functional. Qed.

(* the hypotheses are satisfiable, and the old witness now ends with the sender dropped: peer 7 brings 20 <- 21 <- 22
   (checkpoint: height 3 = 22), afterwards peer 8 delivers 2 <- 3 <- 4 <- 5 <- 6: header 4 (stale, height 3) contradicts the
   PASSED checkpoint *)
Definition exA : list src := [ex_sub 20 1 545259519; ex_sub 21 20 545259519; ex_sub 22 21 545259519].
Definition exB : list src := map (fun i => ex_sub i (i - 1) 545259519) [2; 3; 4; 5; 6]%N.
Example ex_passed_checkpoint_now_enforced :
  let cfg := {| c_cps := [(3, 22%N)]; c_disable := false; c_forb := []; c_now := 0 |} in
  let st0 := fst (on_new_peer cfg 0 (d_init cfg (init 1 (ex_pl 486604799))) 7 true 3) in
  let st1 := fst (on_headers cfg st0 7 exA) in
  let st2 := fst (on_new_peer cfg 0 st1 8 true 5) in
  let '(st3, es) := on_headers cfg st2 8 exB in
  d_next st1 = None /\ es = [Disconnect 8] /\ option_map id (tipB (d_store st3)) = Some 22%N /\ ids (d_store st3) = [4; 3; 2; 22; 21; 20; 1]%N /\
  cps_functional (sm_cps cfg).
Proof. vm_compute. repeat split; try reflexivity. intros c1 c2 [<-|[]] [<-|[]] _. reflexivity. Qed.

(* the header matching the cursor's checkpoint counts whatever its state on arrival: peer 7 delivers 30 (height 1, contradicts
   checkpoint 1 = 20) which is stored as the tip and gets it dropped; peer 8 then delivers 20 <- 21: 20 arrives STALE (equal
   work) and joins the longest chain through its child's reorganisation; the cursor moves on to checkpoint 3 and the follow-up
   request stops at its hash *)
Example ex_stale_matching_header_advances :
  let cfg := {| c_cps := [(1, 20%N); (3, 22%N)]; c_disable := false; c_forb := []; c_now := 0 |} in
  let st0 := fst (on_new_peer cfg 0 (d_init cfg (init 1 (ex_pl 486604799))) 7 true 1) in
  let '(st1, e1) := on_headers cfg st0 7 [ex_sub 30 1 545259519] in
  let st2 := fst (on_done cfg 0 st1 7) in
  let st3 := fst (on_new_peer cfg 0 st2 8 true 3) in
  let '(st4, e4) := on_headers cfg st3 8 [ex_sub 20 1 545259519; ex_sub 21 20 545259519] in
  e1 = [Disconnect 7] /\ option_map id (tipB (d_store st1)) = Some 30%N /\ d_next st1 = Some (1, 20%N) /\
  option_map id (tipB (d_store st4)) = Some 21%N /\ d_next st4 = Some (3, 22%N) /\
  exists loc, e4 = [GetHeaders 8 loc 22%N].
Proof. vm_compute. repeat split; try reflexivity. eexists; reflexivity. Qed.

Example ex_exp_stale_contradiction_dropped :
  let cfg := {| x_cps := [(1, 20%N)]; x_forb := [] |} in
  let s := run_from [] (init 1 (ex_pl 486604799)) exA in                         (* another peer has passed the checkpoint *)
  let est := fst (e_start cfg 8 5 s) in
  snd (e_on_headers cfg 8 est exB) = [Disconnect 8] /\ ids (e_store (fst (e_on_headers cfg 8 est exB))) = [2; 22; 21; 20; 1]%N /\
  map st (e_store (fst (e_on_headers cfg 8 est exB))) = [Stale; Longest; Longest; Longest; Longest].
Proof. vm_compute. repeat split; reflexivity. Qed.

(* ---- a matching header advances the cursor ---- *)
Theorem C07_checkpoint_match_advances_default : forall cfg st p c hs s' fh H cid,
  aget p (d_states st) = Some c -> d_hfm st = true -> hs <> [] ->
  d_next st = Some (H, cid) ->
  hloop (c_forb cfg) (sm_cps cfg) (d_next st) (d_store st) false None hs = HDone s' true (Some fh) ->
  on_headers cfg st p hs =
  match find_next_d (c_cps cfg) H with
  | Some (H', c') => send_gh (with_next (with_store st s') (Some (H', c'))) p [cid] c'
  | None => send_gh (with_next (with_store st s') None) p (locator s') 0%N
  end.
Proof. exact checkpoint_match_advances_default. Qed.

Theorem C07_checkpoint_match_advances_default_least : forall cfg st p c hs s' fh H cid,
  sorted (c_cps cfg) ->
  aget p (d_states st) = Some c -> d_hfm st = true -> hs <> [] ->
  d_next st = Some (H, cid) ->
  hloop (c_forb cfg) (sm_cps cfg) (d_next st) (d_store st) false None hs = HDone s' true (Some fh) ->
  d_next (fst (on_headers cfg st p hs)) = least_above (c_cps cfg) H.
Proof. exact checkpoint_match_advances_default_least. Qed.

Theorem C07_no_checkpoint_left_zero_stop : forall cfg st p c hs s' rc fh,
  aget p (d_states st) = Some c -> d_hfm st = true -> hs <> [] -> d_next st = None ->
  hloop (c_forb cfg) (sm_cps cfg) None (d_store st) false None hs = HDone s' rc (Some fh) ->
  on_headers cfg st p hs = send_gh (with_store st s') p (locator s') 0%N.
Proof. exact no_checkpoint_left_zero_stop. Qed.

Theorem C07_checkpoint_match_advances_exp : forall cps i H cid, sorted cps -> nth_error cps i = Some (H, cid) ->
  exists cur', verify_advance cps (Some (i, (H, cid))) H cid = VOk cur' /\
               option_map snd cur' = least_above cps H /\ cur_ok cps cur'.
Proof. exact checkpoint_match_advances_exp. Qed.

Theorem C07_request_stop_exp : forall p cur s, exists loc,
  e_request p cur s = [GetHeaders p loc (match cur with Some (_, (_, cid)) => cid | None => 0%N end)].
Proof. exact request_stop_exp. Qed.

(* ---- both cursors compute "the least checkpoint with height > h" on every sorted list of 0..n checkpoints ---- *)
Theorem C07_cursor_spec : forall cps, sorted cps ->
  (forall h, find_next_d cps h = least_above cps h) /\
  (forall h, option_map snd (new_cursor cps h) = least_above cps h) /\
  (forall i c, nth_error cps i = Some c -> option_map snd (next_e cps (Some (i, c)) (fst c)) = least_above cps (fst c)) /\
  (forall cur h, cur_ok cps cur -> (match cur with Some (_, c) => h = fst c | None => True end) -> cur_ok cps (next_e cps cur h)).
Proof. exact cursor_spec. Qed.


(* ---- afterwards the service still converges (composition with C06): the store after the event is the store from before the
   forbidden header; whenever that is a prefix store of an honest chain C, a manager on it catches up with an honest peer.
   _partial: proved for a manager started on that store (C06_catchup_linear, checkpoints enabled or disabled); for the RUNNING
   manager the invariant of catchup_linear (exactly one peer object and one peerStates entry, request filter state tied to
   the tip) does not hold after a ban - the dropped peer's object and possibly other peers remain - so convergence there is
   C06's unproved multi-peer part (the correspondence check exercises it: families forb+honest, cpbad+honest) ---- *)
Theorem C07_contained_then_converges_partial : forall cfg st p c o pre h post s1 rc1 fin1 gid C q cap res k hints fuel,
  no_forb (c_forb cfg) (d_store st) ->
  aget p (d_states st) = Some c -> d_hfm st = true -> aget p (d_objs st) = Some o -> po_conn o = true ->
  hloop (c_forb cfg) (sm_cps cfg) (d_next st) (d_store st) false None pre = HDone s1 rc1 fin1 ->
  memN (s_id h) (c_forb cfg) = true ->
  good_chain (c_forb cfg) gid C -> cps_ok gid C (eff_cps cfg) -> sorted (eff_cps cfg) ->
  (1 <= cap)%nat -> (k <= length C)%nat -> Good gid C k s1 -> (length C - k + 1 <= fuel)%nat ->
  exists st', on_headers cfg st p (pre ++ h :: post) = (st', [Ban p; Disconnect p]) /\
  exists y1 t1 y2 t2,
    y_cmd (y_init cfg gid (d_store st') [(q, node0 C cap res)] hints) (CConnect q) = (y1, t1) /\
    y_cmd y1 (CRun fuel) = (y2, t2) /\ quiescent y2 = true /\
    (exists tip t, Inv2 (d_store (y_eng y2)) tip /\ ids (chain (d_store (y_eng y2)) tip) = rev (cids gid C) /\
                   tipB (d_store (y_eng y2)) = Some t /\ id t = last (cids gid C) gid).
Proof. exact contained_then_converges. Qed.

(* ---- the hypotheses are satisfiable: a peer (id 7) connected to a fresh node, chain 2 <- 3 <- 4 <- 5 on genesis 1 ---- *)
Definition ex_g := ex_pl 486604799.
Definition ex_h (i : N) := ex_sub i (i - 1) 545259519.
Definition ex_state (cfg : dcfg) : dstate := fst (on_new_peer cfg 0 (d_init cfg (init 1 ex_g)) 7 true 4).
Definition ex_cfg (cps : list cp) (f : list N) : dcfg := {| c_cps := cps; c_disable := false; c_forb := f; c_now := 0 |}.

Example ex_forbidden_in_batch :
  let cfg := ex_cfg [] [4%N] in
  snd (on_headers cfg (ex_state cfg) 7 [ex_h 2; ex_h 3; ex_h 4; ex_h 5]) = [Ban 7; Disconnect 7] /\
  ids (d_store (fst (on_headers cfg (ex_state cfg) 7 [ex_h 2; ex_h 3; ex_h 4; ex_h 5]))) = [3; 2; 1]%N /\
  hloop (c_forb cfg) (sm_cps cfg) (d_next (ex_state cfg)) (d_store (ex_state cfg)) false None [ex_h 2; ex_h 3] <> HBan [] /\
  d_hfm (ex_state cfg) = true.
Proof. vm_compute. repeat split; try reflexivity. discriminate. Qed.

Example ex_checkpoint_mismatch :
  let cfg := ex_cfg [(2, 9%N)] [] in
  snd (on_headers cfg (ex_state cfg) 7 [ex_h 2; ex_h 3; ex_h 4]) = [Disconnect 7] /\
  ids (d_store (fst (on_headers cfg (ex_state cfg) 7 [ex_h 2; ex_h 3; ex_h 4]))) = [3; 2; 1]%N /\
  d_next (ex_state cfg) = Some (2, 9%N).
Proof. vm_compute. repeat split; reflexivity. Qed.

Example ex_checkpoint_match :
  let cfg := ex_cfg [(2, 3%N); (4, 5%N)] [] in
  snd (on_headers cfg (ex_state cfg) 7 [ex_h 2; ex_h 3]) = [GetHeaders 7 [3%N] 5%N] /\
  d_next (fst (on_headers cfg (ex_state cfg) 7 [ex_h 2; ex_h 3])) = Some (4, 5%N) /\
  sorted (c_cps cfg) /\
  (let st1 := fst (on_headers cfg (ex_state cfg) 7 [ex_h 2; ex_h 3]) in
   snd (on_headers cfg st1 7 [ex_h 4; ex_h 5]) = [GetHeaders 7 [5; 4; 3; 2; 1]%N 0%N]).
Proof. vm_compute. repeat split; try reflexivity; intros d Hd; repeat (destruct Hd as [<-|Hd]; [reflexivity|]); destruct Hd. Qed.

Example ex_exp_forbidden :
  let cfg := {| x_cps := [(2, 3%N)]; x_forb := [4%N] |} in
  let st := fst (e_start cfg 7 4 (init 1 ex_g)) in
  snd (e_start cfg 7 4 (init 1 ex_g)) = [GetHeaders 7 [1%N] 3%N] /\
  snd (e_on_headers cfg 7 st [ex_h 2; ex_h 3; ex_h 4; ex_h 5]) = [Disconnect 7] /\
  e_cur (fst (e_on_headers cfg 7 st [ex_h 2; ex_h 3; ex_h 4; ex_h 5])) = None /\
  ids (e_store (fst (e_on_headers cfg 7 st [ex_h 2; ex_h 3; ex_h 4; ex_h 5]))) = [3; 2; 1]%N.
Proof. vm_compute. repeat split; reflexivity. Qed.

Print Assumptions C07_forbidden_never_stored.
Print Assumptions C07_forbidden_never_stored_default.
Print Assumptions C07_forbidden_never_stored_exp.
Print Assumptions C07_forbidden_never_read.
Print Assumptions C07_forbidden_always_refused.
Print Assumptions C07_forbidden_every_time.
Print Assumptions C07_rejected_peer_dropped_every_time.
Print Assumptions C07_oracle_forbidden_absent.
Print Assumptions C07_descendants_orphan_partial.
Print Assumptions C07_descendants_orphan.
Print Assumptions C07_descendants_orphan_forever.
Print Assumptions C07_orphans_stay_orphans.
Print Assumptions C07_oracle_desc_orphan_all.
Print Assumptions C07_oracle_desc_orphan_all_complete.
Print Assumptions C07_oracle_desc_orphan.
Print Assumptions C07_orphans_stay_orphans_partial.
Print Assumptions C07_rejected_peer_dropped_default.
Print Assumptions C07_rejected_peer_dropped_exp.
Print Assumptions C07_checkpoint_mismatch_default.
Print Assumptions C07_checkpoint_mismatch_exp.
Print Assumptions C07_checkpoint_contradiction_any_checkpoint_default.
Print Assumptions C07_cursor_in_reachable.
Print Assumptions C07_checkpoint_contradiction_reachable_default.
Print Assumptions C07_checkpoint_contradiction_any_checkpoint_exp.
Print Assumptions C07_sorted_lists_are_functional.
Print Assumptions C07_checkpoint_match_advances_default.
Print Assumptions C07_checkpoint_match_advances_default_least.
Print Assumptions C07_no_checkpoint_left_zero_stop.
Print Assumptions C07_checkpoint_match_advances_exp.
Print Assumptions C07_request_stop_exp.
Print Assumptions C07_cursor_spec.
Print Assumptions C07_contained_then_converges_partial.
