(* C01 - Longest chain = greatest cumulative work (first seen wins ties), any history.
   Only the property theorems; each is closed by `exact`.

   Model: BHS.Chain (chainService.Add as plan + exec over the SQL-query model BHS.Store).
   Spec : BHS.ChainSpec - computed from the history alone: duplicates/forbidden ignored; orphan iff the
          parent was not stored or was an orphan on arrival; height and cumulative work from the parent on
          arrival; best = greatest cumulative work among non-orphans, earliest stored among equals (best_spec);
          LONGEST_CHAIN = ancestors-or-self of best, ORPHAN = orphans, STALE = the rest; tip = best.

   Full statement (all histories, also zero-work headers) is FALSE for the code as it is:
   C01_zero_work_refuted (known finding C01-zero-work-child-of-tip).  The theorems below are the statement
   for histories of positive-work headers - the `_partial` of the design. *)
From Coq Require Import ZArith NArith List.
From BHS Require Import Work Store Chain ChainSpec ChainAdd ChainMain ChainGeneral.
Import ListNotations.
Open Scope Z_scope.

(* after ANY sequence of submissions the stored table - rows, derived fields, labels - is exactly the one
   the specification prescribes *)
Theorem C01_main_partial : forall f gid gpl hs, gid <> 0%N -> positive_work hs -> nonzero_ids hs ->
  run f gid gpl hs = spec_store (spec_run_from f (init gid gpl) hs).
Proof. exact C01_store_is_spec. Qed.

(* the reported tip is the specification's best header *)
Theorem C01_tip_partial : forall f gid gpl hs, gid <> 0%N -> positive_work hs -> nonzero_ids hs ->
  option_map id (tipB (run f gid gpl hs)) = Some (spec_tip (spec_run_from f (init gid gpl) hs)).
Proof. exact C01_tip_is_best. Qed.

(* what "best" means *)
Theorem C01_best_meaning : forall s b, best s = Some b ->
  orph b = false /\
  exists newer older, s = newer ++ b :: older /\
    (forall r, In r newer -> orph r = false -> cum r <= cum b) /\
    (forall r, In r older -> orph r = false -> cum r < cum b).
Proof. exact best_spec. Qed.

(* every submission is answered (stored / duplicate / forbidden), never an internal error *)
Theorem C01_answered_partial : forall f hs s tip, Inv2 s tip -> positive_work hs -> nonzero_ids hs ->
  Forall (fun o => o <> ErrNoTip) (outcomes f s hs).
Proof. exact C01_outcomes. Qed.

(* re-submitting a known header changes nothing *)
Theorem C01_resubmit_noop : forall f s h x, by_hash s (s_id h) = Some x -> add f s h = (s, Duplicate).
Proof. exact resubmit_noop. Qed.

(* For EVERY history - any work values, zero-work headers included - the stored table is the arrival records
   labelled from the tip that the code's own rule produces (ChainAdd.tip_rule: an orphan never moves the tip, a child
   of the tip always becomes the tip, any other connected header becomes the tip iff its cumulative work is strictly
   greater), and the repository reports that tip. *)
Theorem C01_every_history : forall f gid gpl hs, gid <> 0%N -> nonzero_ids hs ->
  run f gid gpl hs = rule_store (spec_run_from f (map dummy (init gid gpl)) hs) /\
  option_map id (tipB (run f gid gpl hs)) = Some (tip_after (spec_run_from f (map dummy (init gid gpl)) hs)).
Proof. exact C01_general. Qed.

(* ... and for positive-work histories that tip is the specification's best header *)
Theorem C01_rule_tip_is_best : forall f gid gpl hs, gid <> 0%N -> positive_work hs -> nonzero_ids hs ->
  tip_after (spec_run_from f (map dummy (init gid gpl)) hs) = spec_tip (spec_run_from f (init gid gpl) hs).
Proof. exact tip_after_is_best. Qed.

(* the unrestricted statement is refuted by a two-header history with a zero-work header on the tip *)
Theorem C01_full_refuted :
  nonzero_ids zw_hist /\ run [] 1 (ex_pl 486604799) zw_hist <> spec_store (spec_run_from [] (init 1 (ex_pl 486604799)) zw_hist).
Proof. exact C01_zero_work_refuted. Qed.

Print Assumptions C01_main_partial.
Print Assumptions C01_tip_partial.
Print Assumptions C01_best_meaning.
Print Assumptions C01_answered_partial.
Print Assumptions C01_resubmit_noop.
Print Assumptions C01_every_history.
Print Assumptions C01_rule_tip_is_best.
Print Assumptions C01_full_refuted.
