(* C13 - Block locators and getheaders answers describe the longest chain correctly.
   Only the property theorems; each is closed by `exact`.

   Model: BHS.Locator (latest_locator = HeaderService.LatestHeaderLocator, locate = locateHeadersGetHeaders,
          answer = what LocateHeaders / handleGetHeadersMsg send) over the SQL-query model of BHS.Store.
   Spec : BHS.Locator.spec_locator / spec_locate - computed from parent links and cumulative work only
          (main_chain = ancestors-or-self of ChainSpec.best, genesis first), never from header_state labels.
   Valid s (ChainMain): the invariant of every store reachable by ingestion of positive-work headers
          (ChainMain.reachable_valid), so each theorem below composes to "for all histories".

   The full statement is proved (C13_locate: for ALL locators and stop hashes).
   History: up to /repo 1a05aed the code departed from the statement in two corner cases - stop hash = genesis
   was treated as "no stop" and an empty locator was refused - which were proved as `_refuted` lemmas here and
   recorded as known findings; they were repaired by the fix: commits 1ef8815 and 744966c, the model follows the
   repaired code, and the witnesses stay in corpus/C13 (findings/C13.json: status fixed). *)
From Coq Require Import ZArith NArith List.
From BHS Require Import Store ChainSpec ChainInv ChainMain Locator LocatorProofs.
From BHSGen Require Import Params.
Import ListNotations.
Open Scope Z_scope.

(* the cap is the regenerated wire.MaxCFHeadersPerMsg *)
Theorem C13_cap : cap = 2000.
Proof. exact cap_is_2000. Qed.

(* the locator the service sends is exactly the specified one; the loop ends within its fuel *)
Theorem C13_locator_is_spec : forall s, Valid s -> latest_locator s = Some (spec_locator s).
Proof. exact latest_locator_spec. Qed.

(* starts at the tip, ends at genesis, only longest-chain hashes, strictly descending heights,
   gap 1 while at most 10 hashes precede (shape / gap_one), doubling afterwards (gap_double), clamped at 0 *)
Theorem C13_locator_shape : forall s, Valid s ->
  exists t hs,
    tipB s = Some t /\
    latest_locator s = Some (map (at_height s) hs) /\
    hd 0%N (map (at_height s) hs) = id t /\ hd 0 hs = height t /\
    last (map (at_height s) hs) 0%N = genesis_id s /\ last hs 0 = 0 /\
    shape Datatypes.O hs /\
    (forall pre a b post, hs = pre ++ a :: b :: post -> b < a) /\
    (forall h, In h hs -> exists r, In r s /\ st r = Longest /\ height r = h /\ id r = at_height s h).
Proof. exact locator_shape_thm. Qed.

Theorem C13_gap_one : forall i, (i <= 10)%nat -> gap i = 1.
Proof. exact gap_one. Qed.
Theorem C13_gap_double : forall i, (10 <= i)%nat -> gap (S i) = 2 * gap i.
Proof. exact gap_double. Qed.

(* the uint8 capacity hint maxEntries (uint8(height)+1, or 12 + FastLog2Floor(height-10)) is exactly the number
   of entries appended (uses C19's log2_spec): no wrap-around for int32 heights, at most 43 entries *)
Theorem C13_locator_length : forall s t, Valid s -> tipB s = Some t -> height t < 2 ^ 31 ->
  exists l, latest_locator s = Some l /\ Z.of_nat (length l) = max_entries (height t) /\ max_entries (height t) <= 43.
Proof. exact locator_length_thm. Qed.

(* which headers: for every locator (also empty) of at most sql_max_vars = 32766 hashes (SQLite's bind-variable
   limit; a getheaders message carries at most wire.MaxBlockLocatorsPerMsg = 500: C13_locate_wire) and every stop
   hash (also the genesis hash) the answer is the
   specification's: the main-chain headers immediately following the highest locator entry on the main chain -
   from height 1 if none is - up to the stop hash when it lies ahead, at most cap; nothing when the stop is at or
   below the start (C13_spec_meaning spells the specification out) *)
Theorem C13_locate : forall s locs stop, Valid s -> Z.of_nat (length locs) <= sql_max_vars ->
  answer (locate s locs stop) = spec_locate s locs stop.
Proof. exact locate_matches_spec. Qed.

(* every locator that fits into a getheaders message (wire.MaxBlockLocatorsPerMsg, regenerated every run) *)
Theorem C13_wire_within_limit : max_block_locators_per_msg = 500 /\ max_block_locators_per_msg <= sql_max_vars.
Proof. exact wire_locators_within_sql_limit. Qed.
Theorem C13_locate_wire : forall s locs stop, Valid s -> Z.of_nat (length locs) <= max_block_locators_per_msg ->
  answer (locate s locs stop) = spec_locate s locs stop.
Proof. exact locate_wire. Qed.

(* a longer locator makes the IN (...) statement fail ("too many SQL variables"): the request is refused, nothing is
   sent - in particular never headers from a start below the locator's (C13_locate_safe covers this case too) *)
Theorem C13_locate_too_long : forall s locs stop, sql_max_vars < Z.of_nat (length locs) ->
  locate s locs stop = LErr ELocatorLookup /\ answer (locate s locs stop) = [].
Proof. exact locate_too_long. Qed.

(* for ALL locators and stop hashes: at most cap headers, ascending and parent-linked, only LONGEST_CHAIN rows
   (never stale or orphan), all above the start, contiguous from start+1 *)
Theorem C13_locate_safe : forall s locs stop, Valid s ->
  let l := answer (locate s locs stop) in
  (length l <= Z.to_nat cap)%nat /\ linked l /\
  (forall r, In r l -> In r s /\ st r = Longest /\ anchor s locs < height r) /\
  l = seg (main_chain s) (anchor s locs + 1) (length l).
Proof. exact locate_safe_thm. Qed.

(* what the specification says: start = highest locator entry on the main chain (0 if none); a contiguous,
   parent-linked run from start+1; ends at the stop hash when it lies ahead within cap; nothing when the stop is
   at or below the start; cap headers when the stop is further ahead; min cap (tip - start) without a stop *)
Theorem C13_spec_meaning : forall s locs stop, Valid s ->
  let a := anchor s locs in let l := spec_locate s locs stop in
  is_anchor (main_chain s) (fun r => memN (id r) locs) a /\
  l = seg (main_chain s) (a + 1) (length l) /\ (length l <= Z.to_nat cap)%nat /\ linked l /\
  (forall r, In r l -> In r s /\ st r = Longest) /\
  (forall x, In x (main_chain s) -> id x = stop ->
     (height x <= a -> l = []) /\
     (a < height x <= a + cap -> last l x = x) /\
     (a + cap < height x -> length l = Z.to_nat cap)) /\
  ((forall x, In x (main_chain s) -> id x <> stop) ->
     Z.of_nat (length l) = Z.min cap (tip_height s - a)).
Proof. exact spec_locate_meaning. Qed.

(* the hypotheses are satisfiable on non-trivial stores (forks, stale, orphans; a chain long enough to double) *)
Theorem C13_example_locator :
  Valid (lin_store 30) /\
  latest_locator (lin_store 30) = Some [31; 30; 29; 28; 27; 26; 25; 24; 23; 22; 21; 20; 18; 14; 6; 1]%N.
Proof. exact locator_example_doubling. Qed.
Theorem C13_example_locate :
  Valid ex_store /\
  map id (answer (locate ex_store [3%N; 2%N; 99%N] 7%N)) = [7%N] /\
  map id (answer (locate ex_store [4%N; 5%N] 0%N)) = [2%N; 7%N] /\
  locate ex_store [7%N] 2%N = LErr EStopLow /\
  locate ex_store [1%N] (genesis_id ex_store) = LErr EStopLow /\
  map id (answer (locate ex_store [] 0%N)) = [2%N; 7%N].
Proof. exact locate_example. Qed.

(* ================= every history, zero-work headers included =================
   The theorems above assume Valid s, which ChainMain.reachable_valid delivers for positive-work histories.
   ChainFields.reachable_inv delivers `exists tip, Inv s tip` for EVERY history of nonzero ids.  Under it the same
   facts hold with "the longest chain" read as tip_chain s = the ancestors of the header the repository reports as
   tip = exactly the rows labelled LONGEST_CHAIN (C13_tip_chain_any_work); under Valid that is main_chain s
   (C13_tip_chain_valid), so the two families coincide there. *)
Theorem C13_tip_chain_any_work : forall s, (exists tip, Inv s tip) ->
  tip_chain s = filter isL (orev s) /\
  exists t, tipB s = Some t /\ tip_chain s = rev (chain s (id t)) /\ asc_from 0 (tip_chain s) /\ linked (tip_chain s).
Proof. exact tip_chain_any_work. Qed.

Theorem C13_tip_chain_valid : forall s, Valid s -> tip_chain s = main_chain s.
Proof. exact tip_chain_valid. Qed.

Theorem C13_locator_is_spec_any_work : forall s, (exists tip, Inv s tip) ->
  latest_locator s = Some (spec_locator_mc (tip_chain s)).
Proof. exact latest_locator_any_work. Qed.

Theorem C13_locator_shape_any_work : forall s, (exists tip, Inv s tip) ->
  exists t hs,
    tipB s = Some t /\
    latest_locator s = Some (map (at_height_mc (tip_chain s)) hs) /\
    hd 0%N (map (at_height_mc (tip_chain s)) hs) = id t /\ hd 0 hs = height t /\
    last (map (at_height_mc (tip_chain s)) hs) 0%N = genesis_id s /\ last hs 0 = 0 /\
    shape Datatypes.O hs /\
    (forall pre a b post, hs = pre ++ a :: b :: post -> b < a) /\
    (forall h, In h hs -> exists r, In r s /\ st r = Longest /\ height r = h /\ id r = at_height_mc (tip_chain s) h).
Proof. exact locator_shape_any_work. Qed.

Theorem C13_locator_length_any_work : forall s t, (exists tip, Inv s tip) -> tipB s = Some t -> height t < 2 ^ 31 ->
  exists l, latest_locator s = Some l /\ Z.of_nat (length l) = max_entries (height t) /\ max_entries (height t) <= 43.
Proof. exact locator_length_any_work. Qed.

Theorem C13_locate_any_work : forall s locs stop, (exists tip, Inv s tip) -> Z.of_nat (length locs) <= sql_max_vars ->
  answer (locate s locs stop) = spec_locate_mc (tip_chain s) locs stop.
Proof. exact locate_any_work. Qed.

Theorem C13_locate_safe_any_work : forall s locs stop, (exists tip, Inv s tip) ->
  let l := answer (locate s locs stop) in
  (length l <= Z.to_nat cap)%nat /\ linked l /\
  (forall r, In r l -> In r s /\ st r = Longest /\ anchor_mc (tip_chain s) locs < height r) /\
  l = seg (tip_chain s) (anchor_mc (tip_chain s) locs + 1) (length l).
Proof. exact locate_safe_any_work. Qed.

Theorem C13_spec_meaning_any_work : forall s locs stop, (exists tip, Inv s tip) ->
  let mc := tip_chain s in let a := anchor_mc mc locs in let l := spec_locate_mc mc locs stop in
  is_anchor mc (fun r => memN (id r) locs) a /\
  l = seg mc (a + 1) (length l) /\ (length l <= Z.to_nat cap)%nat /\ linked l /\
  (forall r, In r l -> In r s /\ st r = Longest) /\
  (forall x, In x mc -> id x = stop ->
     (height x <= a -> l = []) /\
     (a < height x <= a + cap -> last l x = x) /\
     (a + cap < height x -> length l = Z.to_nat cap)) /\
  ((forall x, In x mc -> id x <> stop) ->
     Z.of_nat (length l) = Z.min cap (Z.of_nat (length mc) - 1 - a)).
Proof. exact spec_locate_meaning_any_work. Qed.

(* satisfiable on a store reached through a zero-work header (G, A, zero-work Z on A: Z is the reported tip) *)
Theorem C13_example_any_work :
  (exists tip, Inv zw_store tip) /\
  map id (tip_chain zw_store) = [1%N; 2%N; 3%N] /\
  latest_locator zw_store = Some [3%N; 2%N; 1%N] /\
  map id (answer (locate zw_store [2%N] 0%N)) = [3%N] /\
  map id (answer (locate zw_store [] 3%N)) = [2%N; 3%N] /\
  answer (locate zw_store [3%N] 1%N) = [].
Proof. exact any_work_example. Qed.

Print Assumptions C13_cap.
Print Assumptions C13_locator_is_spec.
Print Assumptions C13_locator_shape.
Print Assumptions C13_gap_one.
Print Assumptions C13_gap_double.
Print Assumptions C13_locator_length.
Print Assumptions C13_locate.
Print Assumptions C13_wire_within_limit.
Print Assumptions C13_locate_wire.
Print Assumptions C13_locate_too_long.
Print Assumptions C13_locate_safe.
Print Assumptions C13_spec_meaning.
Print Assumptions C13_example_locator.
Print Assumptions C13_example_locate.
Print Assumptions C13_tip_chain_any_work.
Print Assumptions C13_tip_chain_valid.
Print Assumptions C13_locator_is_spec_any_work.
Print Assumptions C13_locator_shape_any_work.
Print Assumptions C13_locator_length_any_work.
Print Assumptions C13_locate_any_work.
Print Assumptions C13_locate_safe_any_work.
Print Assumptions C13_spec_meaning_any_work.
Print Assumptions C13_example_any_work.
