(* C02 - Merkle-root verification verdicts are exact and follow reorganisations.
   Only the property theorems; each is closed by `exact`.

   Model: BHS.Merkle - tip_height (sqlTipOfChainHeight), verify_hash (sqlVerifyHash, first row), verify1
          (getMerkleRootConfirmation + dto.ToMerkleRootConfirmation; since fix 54e9bff the distance to the tip is
          computed and compared with the configured excess in int64, which on int32 heights is exact integer
          arithmetic), overall (convertState fold of mapToMerkleRootsConfirmationsResponses), verify (the whole
          POST /chain/merkleroot/verify answer; the "item dropped when its lookup fails" branch is the explicit
          [verify_faulty], not taken on a healthy store).
   State: any store satisfying [Valid] (BHS.ChainMain) - by [reachable_valid] every store reachable by ingestion of
          positive-work headers: any tree shape, stale siblings sharing a height with longest blocks, orphans, reorganisations.
   Ranges: request heights are int32 (JSON binding) and the tip height is an int32; under that assumption the model's Z
          arithmetic is the code's int64 arithmetic.  The theorems themselves hold for every height and EVERY configured
          excess in Z; a negative excess makes the UNABLE_TO_VERIFY window empty (C02_negative_excess).

   History: until 54e9bff the code compared in int32 with int32(maxBlockHeightExcess); the statement was refuted for a
   configured excess >= 2^31 (C02_all_excess_refuted, finding C02-excess-int32-wrap) and three theorems were `_partial`
   (0 <= excess < 2^31).  The refutation was about code that no longer exists and is gone; the witnesses stay in
   corpus/C02 and C02_huge_excess_exact states the repaired behaviour on them. *)
From Coq Require Import ZArith NArith List.
From BHS Require Import Work Store Chain ChainSpec ChainInv ChainMain Merkle MerkleProofs.
Import ListNotations.
Open Scope Z_scope.

(* the height the code compares against is the height of the tip *)
Theorem C02_tip_height_is_tip : forall s, Valid s -> exists t, tipB s = Some t /\ tip_height s = Some (height t).
Proof. exact valid_tip_height. Qed.

(* there is exactly one longest-chain header per height ("THE longest-chain header at that height") *)
Theorem C02_longest_unique_per_height : forall s, Valid s -> forall a b, In a s -> In b s ->
  st a = Longest -> st b = Longest -> height a = height b -> a = b.
Proof. exact valid_longest_unique. Qed.

(* CONFIRMED x  iff  the longest-chain header at that height carries that root, and x is its hash *)
Theorem C02_verdict_confirmed_iff : forall s tipH excess rt h x, Valid s ->
  (verify1 s tipH excess (rt, h) = Confirmed x <->
   exists r, In r s /\ st r = Longest /\ height r = h /\ root r = rt /\ id r = x).
Proof. exact valid_confirmed_iff. Qed.

(* UNABLE_TO_VERIFY  iff  the height lies above the tip by at most the configured excess *)
Theorem C02_verdict_unable_iff : forall s tipH excess rt h, Valid s -> tip_height s = Some tipH ->
  (verify1 s tipH excess (rt, h) = UnableToVerify <-> tipH < h <= tipH + excess).
Proof. exact valid_unable_iff. Qed.

(* INVALID otherwise *)
Theorem C02_invalid_otherwise : forall s tipH excess rt h, Valid s -> tip_height s = Some tipH ->
  (verify1 s tipH excess (rt, h) = Invalid <->
   ~ (exists r, In r s /\ st r = Longest /\ height r = h /\ root r = rt) /\ ~ (tipH < h <= tipH + excess)).
Proof. exact valid_invalid_otherwise. Qed.

(* a negative configured excess: nothing is ever UNABLE_TO_VERIFY *)
Theorem C02_negative_excess : forall s tipH excess rt h, Valid s -> tip_height s = Some tipH ->
  excess < 0 -> verify1 s tipH excess (rt, h) <> UnableToVerify.
Proof. exact valid_negative_excess. Qed.

(* a non-empty request is always answered 200 with [answers] = one verdict per item ... *)
Theorem C02_response : forall s excess items, Valid s -> items <> [] ->
  exists tipH, tip_height s = Some tipH /\
               verify s excess items = VOk (overall (answers s tipH excess items)) (answers s tipH excess items).
Proof. exact valid_verify_total. Qed.

(* ... in request order (roots and heights echoed; hence also the same length) *)
Theorem C02_length_and_order : forall s tipH excess items,
  map (fun a : answer => (fst (fst a), snd (fst a))) (answers s tipH excess items) = items.
Proof. exact length_and_order. Qed.

(* the overall verdict is the worst individual one (INVALID > UNABLE_TO_VERIFY > CONFIRMED) *)
Theorem C02_overall_is_max : forall l : list answer,
  (forall a, In a l -> severity (snd a) <= overall_sev (overall l)) /\
  (overall_sev (overall l) = 0 \/ exists a, In a l /\ severity (snd a) = overall_sev (overall l)).
Proof. exact overall_is_max. Qed.

(* verdicts track the chain: after ANY history of positive-work submissions (duplicates, forbidden hashes, orphans,
   reorganisations) CONFIRMED x holds exactly for the root of the specification's best-path header at that height -
   so roots of reorganised-away blocks stop being CONFIRMED and roots of the newly longest blocks start *)
Theorem C02_tracks_chain : forall f gid gpl hs excess rt h x, gid <> 0%N -> positive_work hs -> nonzero_ids hs ->
  let s := run f gid gpl hs in
  let ss := spec_run_from f (init gid gpl) hs in
  exists tipH, tip_height s = Some tipH /\
    (verify1 s tipH excess (rt, h) = Confirmed x <->
     exists r, In r (chain ss (spec_tip ss)) /\ height r = h /\ root r = rt /\ id r = x).
Proof. exact MerkleProofs.C02_tracks_chain. Qed.

(* all three verdicts at once: the code's verdict is the declarative verdict on the specification's label-free store *)
Theorem C02_verdict_is_spec : forall f gid gpl hs excess it, gid <> 0%N -> positive_work hs -> nonzero_ids hs ->
  let s := run f gid gpl hs in
  let ss := spec_run_from f (init gid gpl) hs in
  exists tipH, tip_height s = Some tipH /\
               verify1 s tipH excess it = spec_verify1 ss (spec_tip ss) excess it.
Proof. exact MerkleProofs.C02_verdict_is_spec. Qed.

(* hypotheses are satisfiable and the verdicts do change across a reorganisation (concrete history) *)
Theorem C02_example_valid : Valid (run [] 1 ex_gpl ex_pre) /\ Valid (run [] 1 ex_gpl ex_post).
Proof. exact (conj ex_pre_valid ex_post_valid). Qed.

Theorem C02_example_reorg :
  verify (run [] 1 ex_gpl ex_pre) 6 ex_items =
    VOk OInvalid [(102%N, 1, Confirmed 2); (103%N, 1, Invalid); (104%N, 2, UnableToVerify); (105%N, 1, Invalid);
                  (1%N, 0, Confirmed 1); (9%N, 3, UnableToVerify); (9%N, 9, Invalid); (102%N, 1, Confirmed 2)] /\
  verify (run [] 1 ex_gpl ex_post) 6 ex_items =
    VOk OInvalid [(102%N, 1, Invalid); (103%N, 1, Confirmed 3); (104%N, 2, Confirmed 4); (105%N, 1, Invalid);
                  (1%N, 0, Confirmed 1); (9%N, 3, UnableToVerify); (9%N, 9, Invalid); (102%N, 1, Invalid)] /\
  verify (run [] 1 ex_gpl ex_post) 0 [(104%N, 2); (1%N, 0)] = VOk OConfirmed [(104%N, 2, Confirmed 4); (1%N, 0, Confirmed 1)] /\
  verify (run [] 1 ex_gpl ex_post) 6 [(104%N, 2); (9%N, 8)] = VOk OUnable [(104%N, 2, Confirmed 4); (9%N, 8, UnableToVerify)].
Proof. exact ex_verdicts_follow_reorg. Qed.

(* the former witnesses of the int32 wrap (excess 2^31, 2^32+1) and a negative excess, on the repaired code *)
Theorem C02_huge_excess_exact :
  let s := run [] 1 ex_gpl ex_post in
  Valid s /\ tip_height s = Some 2 /\
  verify1 s 2 2147483648 (9%N, 3) = UnableToVerify /\
  verify1 s 2 2147483648 (9%N, 2147483647) = UnableToVerify /\
  verify1 s 2 4294967297 (9%N, 4) = UnableToVerify /\
  verify1 s 2 (-1) (9%N, 3) = Invalid.
Proof. exact huge_excess_exact. Qed.

(* ------------------------------------------------------------------------------------------------------------
   ANY WORK VALUES.  The theorems above are stated under [Valid] (reachable_valid: positive-work histories).  Their proofs
   only use that the LONGEST_CHAIN rows are exactly [chain s tip] for a connected tip, i.e.
       Structural s := exists tip, Inv s tip        (BHS.MerkleProofs)
   which ChainFields.reachable_inv proves for EVERY history, zero-work headers included (C02_reachable_structural).
   So the verdict theorems hold on every reachable store.  What genuinely needs [best] / Inv2 - that the tip is the
   greatest-cumulative-work header, i.e. that "the longest chain" is the specification's best path - are
   C02_tracks_chain and C02_verdict_is_spec only; they stay positive-work (C01's zero-work finding lives there).
   ------------------------------------------------------------------------------------------------------------ *)
Theorem C02_reachable_structural : forall f gid gpl hs, gid <> 0%N -> nonzero_ids hs -> Structural (run f gid gpl hs).
Proof. exact reachable_structural. Qed.

Theorem C02_tip_height_is_tip_any_work : forall s, Structural s -> exists t, tipB s = Some t /\ tip_height s = Some (height t).
Proof. exact structural_tip_height. Qed.

Theorem C02_longest_unique_per_height_any_work : forall s, Structural s -> forall a b, In a s -> In b s ->
  st a = Longest -> st b = Longest -> height a = height b -> a = b.
Proof. exact structural_longest_unique. Qed.

Theorem C02_verdict_confirmed_iff_any_work : forall s tipH excess rt h x, Structural s ->
  (verify1 s tipH excess (rt, h) = Confirmed x <->
   exists r, In r s /\ st r = Longest /\ height r = h /\ root r = rt /\ id r = x).
Proof. exact structural_confirmed_iff. Qed.

Theorem C02_verdict_unable_iff_any_work : forall s tipH excess rt h, Structural s -> tip_height s = Some tipH ->
  (verify1 s tipH excess (rt, h) = UnableToVerify <-> tipH < h <= tipH + excess).
Proof. exact structural_unable_iff. Qed.

Theorem C02_invalid_otherwise_any_work : forall s tipH excess rt h, Structural s -> tip_height s = Some tipH ->
  (verify1 s tipH excess (rt, h) = Invalid <->
   ~ (exists r, In r s /\ st r = Longest /\ height r = h /\ root r = rt) /\ ~ (tipH < h <= tipH + excess)).
Proof. exact structural_invalid_otherwise. Qed.

Theorem C02_negative_excess_any_work : forall s tipH excess rt h, Structural s -> tip_height s = Some tipH ->
  excess < 0 -> verify1 s tipH excess (rt, h) <> UnableToVerify.
Proof. exact structural_negative_excess. Qed.

Theorem C02_response_any_work : forall s excess items, Structural s -> items <> [] ->
  exists tipH, tip_height s = Some tipH /\
               verify s excess items = VOk (overall (answers s tipH excess items)) (answers s tipH excess items).
Proof. exact structural_verify_total. Qed.

(* C02_length_and_order and C02_overall_is_max above hold for ANY store already (no hypothesis on s). *)

(* satisfiable on a zero-work history (the zero-work child 3 of the tip is the tip, C01's finding): *)
Theorem C02_example_zero_work :
  Structural (run [] 1 ex_gpl ex_zero) /\
  verify (run [] 1 ex_gpl ex_zero) 1 [(103%N, 2); (104%N, 1); (102%N, 1); (9%N, 3); (9%N, 4)] =
    VOk OInvalid [(103%N, 2, Confirmed 3); (104%N, 1, Invalid); (102%N, 1, Confirmed 2); (9%N, 3, UnableToVerify); (9%N, 4, Invalid)].
Proof. exact ex_zero_structural. Qed.

Print Assumptions C02_tip_height_is_tip.
Print Assumptions C02_longest_unique_per_height.
Print Assumptions C02_verdict_confirmed_iff.
Print Assumptions C02_verdict_unable_iff.
Print Assumptions C02_invalid_otherwise.
Print Assumptions C02_negative_excess.
Print Assumptions C02_response.
Print Assumptions C02_length_and_order.
Print Assumptions C02_overall_is_max.
Print Assumptions C02_tracks_chain.
Print Assumptions C02_verdict_is_spec.
Print Assumptions C02_example_valid.
Print Assumptions C02_example_reorg.
Print Assumptions C02_huge_excess_exact.
Print Assumptions C02_reachable_structural.
Print Assumptions C02_tip_height_is_tip_any_work.
Print Assumptions C02_longest_unique_per_height_any_work.
Print Assumptions C02_verdict_confirmed_iff_any_work.
Print Assumptions C02_verdict_unable_iff_any_work.
Print Assumptions C02_invalid_otherwise_any_work.
Print Assumptions C02_negative_excess_any_work.
Print Assumptions C02_response_any_work.
Print Assumptions C02_example_zero_work.
