(* C08 - Merkle-root listing pages cover the longest chain exactly once, in order.
   Only the property theorems; each is closed by `exact`.

   Model: BHS.Merkle - single_merkleroot (sqlGetSingleMerkleroot: no ORDER BY, no state filter; first row in
          (merkleroot, header_state, hash) index order, the hash-text order [hlt] being a parameter),
          last_eval_height (getLastEvaluatedMerklerootHeight), merkle_from_height (sqlMerkleRootsFromHeight:
          filter, stable sort by height, LIMIT), page (HeaderRepository.GetMerkleRoots with the end-of-data rule
          "last key empty iff the page is empty or its last root equals the tip's root"; totalElements = tip height),
          page_http (batchSize parsing), walk_from / walk_pages (the client's walk, [fuel] = max number of requests).
   State: any store satisfying [Valid] (every store reachable by ingestion of positive-work headers: forks at every
          height, stale siblings, orphans, reorganisations) whose longest-chain roots are carried by no other row:
          roots_unique s := forall r x, In r s -> In x s -> st r = Longest -> root x = root r -> x = r
          (implied by "all stored merkle roots pairwise distinct", roots_unique_dec).
   asc_chain s tip = the longest chain oldest first; spec_listing = its (root, height) pairs.
   batch = 0 is excluded from completeness as in the statement (C08_batch_zero says what it does). *)
From Coq Require Import ZArith NArith List.
From BHS Require Import Work Store Chain ChainSpec ChainInv ChainMain Merkle MerkleProofs MerklePageProofs.
Import ListNotations.
Open Scope Z_scope.

(* what is listed: exactly the LONGEST_CHAIN rows, each once, heights 0, 1, 2, ... *)
Theorem C08_listing_meaning : forall s tip, Inv s tip ->
  (forall r, In r (asc_chain s tip) <-> In r s /\ st r = Longest) /\
  asc_from 0 (asc_chain s tip) /\ NoDup (asc_chain s tip).
Proof. exact listing_meaning. Qed.

(* walking from the empty key, passing each page's last key on: the concatenated pages ARE the longest chain in
   ascending height order, and no request is answered with an error *)
Theorem C08_walk_complete : forall hlt s batch fuel, Valid s -> roots_unique s -> (1 <= batch)%nat ->
  exists tip, Inv s tip /\
    ((length (asc_chain s tip) <= fuel * batch)%nat ->
     contents (walk_pages fuel hlt s batch) = spec_listing s tip /\
     Forall (fun p => is_ok p = true) (walk_pages fuel hlt s batch)).
Proof. exact valid_walk_lists_chain. Qed.

(* at most [batch] entries per page; every page but the last is full *)
Theorem C08_walk_pages_bounded : forall hlt s batch fuel, Valid s -> roots_unique s -> (1 <= batch)%nat ->
  exists tip, Inv s tip /\
    ((length (asc_chain s tip) <= fuel * batch)%nat ->
     Forall (fun p => (length (content_of p) <= batch)%nat) (walk_pages fuel hlt s batch) /\
     Forall (fun p => length (content_of p) = batch) (removelast (walk_pages fuel hlt s batch))).
Proof. exact valid_walk_pages_bounded. Qed.

(* the key comes back empty after at most n/batch + 1 requests (n = chain length); more fuel changes nothing *)
Theorem C08_walk_terminates : forall hlt s batch, Valid s -> roots_unique s -> (1 <= batch)%nat ->
  exists tip, Inv s tip /\
    let n := length (asc_chain s tip) in
    forall fuel, (S (n / batch) <= fuel)%nat ->
      (length (walk_pages fuel hlt s batch) <= S (n / batch))%nat /\
      key_of (last (walk_pages fuel hlt s batch) PErrNoTip) = None /\
      walk_pages fuel hlt s batch = walk_pages (S (n / batch)) hlt s batch.
Proof. exact valid_walk_terminates. Qed.

(* stale and orphan blocks never appear - on ANY store, whatever the key and the page size *)
Theorem C08_no_stale_no_orphan : forall hlt s batch key c k tot, page hlt s batch key = POk c k tot ->
  forall e, In e c -> exists r, In r s /\ st r = Longest /\ e = rh r.
Proof. exact no_stale_no_orphan. Qed.

(* a key that matches no block: not found (any store) *)
Theorem C08_key_unknown : forall hlt s batch k, (forall x, In x s -> root x <> k) -> page hlt s batch (Some k) = PErrNotFound.
Proof. exact key_unknown. Qed.

(* a key carried (only) by blocks off the longest chain: conflict (any store) *)
Theorem C08_key_not_longest : forall hlt s batch k r, In r s -> root r = k ->
  (forall x, In x s -> root x = k -> st x <> Longest) -> page hlt s batch (Some k) = PErrConflict.
Proof. exact key_not_longest. Qed.

(* never a silently wrong page: for EVERY key and page size the answer is the declarative page (not found / conflict /
   the next [batch] longest-chain entries above the key's block, empty last key iff nothing is left) *)
Theorem C08_page_is_spec : forall hlt s batch key, Valid s -> roots_unique s ->
  exists tip, Inv s tip /\ page hlt s batch key = spec_page s tip batch key.
Proof. exact valid_page_is_spec. Qed.

(* huge page sizes (anything above the number of stored rows, up to 2^63-1): the page evaluated by the handler model
   with the capped count IS the page for the requested count - a huge batchSize behaves as "everything that is left" *)
Theorem C08_page_http_cap : forall hlt s z key, 0 <= z -> page hlt s (cap s z) key = page hlt s (Z.to_nat z) key.
Proof. exact page_http_cap. Qed.

(* batchSize = 0: empty page, empty key *)
Theorem C08_batch_zero : forall hlt s tip t key i, Inv s tip -> by_hash s tip = Some t -> roots_unique s ->
  key_pos (asc_chain s tip) key i -> page hlt s 0 key = POk [] None (height t).
Proof. exact batch_zero. Qed.

(* extending the tip between two pages only appends: a walk interrupted on s after f1 requests (last key k) and
   resumed with k on a store whose longest chain is the old one plus new blocks lists the new chain exactly once *)
Theorem C08_walk_with_appends : forall hlt s tip t s' tip' t' batch f1 f2 ext k,
  Inv s tip -> by_hash s tip = Some t -> roots_unique s ->
  Inv s' tip' -> by_hash s' tip' = Some t' -> roots_unique s' ->
  (1 <= batch)%nat -> (1 <= f1)%nat ->
  asc_chain s' tip' = asc_chain s tip ++ ext ->
  key_of (last (walk_from f1 hlt s batch None) PErrNoTip) = Some k ->
  (length (asc_chain s' tip') <= f2 * batch)%nat ->
  let W1 := walk_from f1 hlt s batch None in
  let W2 := walk_from f2 hlt s' batch (Some k) in
  contents W1 ++ contents W2 = spec_listing s' tip' /\
  Forall (fun p => is_ok p = true) (W1 ++ W2) /\
  key_of (last W2 PErrNoTip) = None.
Proof. exact walk_with_appends. Qed.

(* ... which is the situation after a header is stored on top of the tip *)
Theorem C08_extend_tip : forall s tip r, prev r = tip -> asc_chain (r :: s) (id r) = asc_chain s tip ++ [r].
Proof. exact extend_tip_asc. Qed.

(* the walk follows the history: after ANY history of positive-work submissions (duplicates, forbidden hashes, orphans,
   reorganisations) whose store has unique longest-chain roots, the concatenated pages are the (root, height) pairs of
   the specification's best path, oldest first *)
Theorem C08_walk_tracks_chain : forall f gid gpl hs hlt batch fuel, gid <> 0%N -> positive_work hs -> nonzero_ids hs ->
  let s := run f gid gpl hs in
  let ss := spec_run_from f (init gid gpl) hs in
  roots_unique s -> (1 <= batch)%nat -> (length (chain ss (spec_tip ss)) <= fuel * batch)%nat ->
  contents (walk_pages fuel hlt s batch) = map rh (rev (chain ss (spec_tip ss))) /\
  Forall (fun p => is_ok p = true) (walk_pages fuel hlt s batch) /\
  key_of (last (walk_pages fuel hlt s batch) PErrNoTip) = None.
Proof. exact walk_tracks_chain. Qed.

(* the hypotheses of C08_walk_with_appends are satisfiable (one page of 2 on ex_post, two blocks appended, resumed) *)
Theorem C08_example_appends :
  let s := run [] 1 ex_gpl ex_post in
  let s' := run [] 1 ex_gpl ex_long in
  exists t t',
    Inv s 4 /\ by_hash s 4 = Some t /\ roots_unique s /\
    Inv s' 7 /\ by_hash s' 7 = Some t' /\ roots_unique s' /\
    (exists ext, asc_chain s' 7 = asc_chain s 4 ++ ext /\ length ext = 2%nat) /\
    key_of (last (walk_from 1 lt_id s 2 None) PErrNoTip) = Some 103%N /\
    contents (walk_from 1 lt_id s 2 None) ++ contents (walk_from 5 lt_id s' 2 (Some 103%N)) = spec_listing s' 7.
Proof. exact ex_appends. Qed.

(* hypotheses are satisfiable: a reachable store with a stale sibling, a reorganisation and an orphan *)
Theorem C08_example_valid : Valid (run [] 1 ex_gpl ex_long) /\ roots_unique (run [] 1 ex_gpl ex_long).
Proof. exact ex_long_valid. Qed.

Theorem C08_example_walks :
  map content_of (walk_pages 10 lt_id (run [] 1 ex_gpl ex_long) 2) =
    [[(1%N, 0); (103%N, 1)]; [(104%N, 2); (106%N, 3)]; [(107%N, 4)]] /\
  map key_of (walk_pages 10 lt_id (run [] 1 ex_gpl ex_long) 2) = [Some 103%N; Some 106%N; None] /\
  map content_of (walk_pages 10 lt_id (run [] 1 ex_gpl ex_long) 5) = [[(1%N, 0); (103%N, 1); (104%N, 2); (106%N, 3); (107%N, 4)]] /\
  page lt_id (run [] 1 ex_gpl ex_long) 2 (Some 102%N) = PErrConflict /\
  page lt_id (run [] 1 ex_gpl ex_long) 2 (Some 105%N) = PErrConflict /\
  page lt_id (run [] 1 ex_gpl ex_long) 2 (Some 999%N) = PErrNotFound /\
  page lt_id (run [] 1 ex_gpl ex_long) 0 None = POk [] None 4.
Proof. exact ex_long_walks. Qed.

(* across a reorganisation the resumed key may legitimately be answered with a conflict *)
Theorem C08_example_conflict_after_reorg :
  map key_of (walk_from 1 lt_id (run [] 1 ex_gpl ex_pre) 2 None) = [None] /\
  key_of (page lt_id (run [] 1 ex_gpl [mk_sub 2 1 545259519 102; mk_sub 8 2 545259519 108]) 2 None) = Some 102%N /\
  page lt_id (run [] 1 ex_gpl ex_post) 2 (Some 102%N) = PErrConflict.
Proof. exact ex_key_conflict_after_reorg. Qed.

(* why the statement requires pairwise distinct roots: with the tip's root repeated lower in the chain the walk
   stops early without any error (outside the property's quantifier; recorded, not a finding) *)
Theorem C08_shared_root_walk_stops_early :
  map content_of (walk_pages 10 lt_id (run [] 1 ex_gpl ex_shared) 2) = [[(1%N, 0); (102%N, 1)]] /\
  map key_of (walk_pages 10 lt_id (run [] 1 ex_gpl ex_shared) 2) = [None] /\
  spec_listing (run [] 1 ex_gpl ex_shared) 4 = [(1%N, 0); (102%N, 1); (103%N, 2); (102%N, 3)].
Proof. exact shared_root_walk_stops_early. Qed.

(* ------------------------------------------------------------------------------------------------------------
   ANY WORK VALUES.  The walk theorems above are stated under [Valid] (positive-work histories).  Their proofs only use
   Structural s := exists tip, Inv s tip (BHS.MerkleProofs; LONGEST_CHAIN rows = chain s tip), which
   ChainFields.reachable_inv proves for EVERY history, zero-work headers included (C08_reachable_structural).
   C08_listing_meaning, C08_batch_zero, C08_walk_with_appends, C08_extend_tip are stated under Inv and
   C08_no_stale_no_orphan, C08_key_unknown, C08_key_not_longest, C08_page_http_cap for ANY store: they hold for any work
   values as they stand.  Only C08_walk_tracks_chain genuinely needs [best] / Inv2 (that the listed chain is the
   specification's best path) and stays positive-work.
   ------------------------------------------------------------------------------------------------------------ *)
Theorem C08_reachable_structural : forall f gid gpl hs, gid <> 0%N -> nonzero_ids hs -> Structural (run f gid gpl hs).
Proof. exact reachable_structural. Qed.

Theorem C08_walk_complete_any_work : forall hlt s batch fuel, Structural s -> roots_unique s -> (1 <= batch)%nat ->
  exists tip, Inv s tip /\
    ((length (asc_chain s tip) <= fuel * batch)%nat ->
     contents (walk_pages fuel hlt s batch) = spec_listing s tip /\
     Forall (fun p => is_ok p = true) (walk_pages fuel hlt s batch)).
Proof. exact structural_walk_complete. Qed.

Theorem C08_walk_pages_bounded_any_work : forall hlt s batch fuel, Structural s -> roots_unique s -> (1 <= batch)%nat ->
  exists tip, Inv s tip /\
    ((length (asc_chain s tip) <= fuel * batch)%nat ->
     Forall (fun p => (length (content_of p) <= batch)%nat) (walk_pages fuel hlt s batch) /\
     Forall (fun p => length (content_of p) = batch) (removelast (walk_pages fuel hlt s batch))).
Proof. exact structural_walk_pages_bounded. Qed.

(* n/batch + 1 requests suffice and the last key is then empty *)
Theorem C08_walk_terminates_any_work : forall hlt s batch, Structural s -> roots_unique s -> (1 <= batch)%nat ->
  exists tip, Inv s tip /\
    let n := length (asc_chain s tip) in
    (n <= S (n / batch) * batch)%nat /\
    (length (walk_pages (S (n / batch)) hlt s batch) <= S (n / batch))%nat /\
    key_of (last (walk_pages (S (n / batch)) hlt s batch) PErrNoTip) = None.
Proof. exact structural_walk_terminates. Qed.

Theorem C08_page_is_spec_any_work : forall hlt s batch key, Structural s -> roots_unique s ->
  exists tip, Inv s tip /\ page hlt s batch key = spec_page s tip batch key.
Proof. exact structural_page_is_spec. Qed.

(* satisfiable on a zero-work history (the zero-work child 3 of the tip is the tip; 4 is a stale sibling) *)
Theorem C08_example_zero_work :
  Structural (run [] 1 ex_gpl ex_zero) /\ roots_unique (run [] 1 ex_gpl ex_zero) /\
  map content_of (walk_pages 5 lt_id (run [] 1 ex_gpl ex_zero) 2) = [[(1%N, 0); (102%N, 1)]; [(103%N, 2)]] /\
  page lt_id (run [] 1 ex_gpl ex_zero) 2 (Some 104%N) = PErrConflict.
Proof. exact ex_zero_walk. Qed.

Print Assumptions C08_listing_meaning.
Print Assumptions C08_walk_complete.
Print Assumptions C08_walk_pages_bounded.
Print Assumptions C08_walk_terminates.
Print Assumptions C08_no_stale_no_orphan.
Print Assumptions C08_key_unknown.
Print Assumptions C08_key_not_longest.
Print Assumptions C08_page_is_spec.
Print Assumptions C08_page_http_cap.
Print Assumptions C08_batch_zero.
Print Assumptions C08_walk_with_appends.
Print Assumptions C08_extend_tip.
Print Assumptions C08_walk_tracks_chain.
Print Assumptions C08_example_appends.
Print Assumptions C08_example_valid.
Print Assumptions C08_example_walks.
Print Assumptions C08_example_conflict_after_reorg.
Print Assumptions C08_shared_root_walk_stops_early.
Print Assumptions C08_reachable_structural.
Print Assumptions C08_walk_complete_any_work.
Print Assumptions C08_walk_pages_bounded_any_work.
Print Assumptions C08_walk_terminates_any_work.
Print Assumptions C08_page_is_spec_any_work.
Print Assumptions C08_example_zero_work.
