(* C10 - Issued tokens authenticate from creation until revocation, and never after.
   This file contains only the property theorems, each closed by `exact`.
   Model: BHS.Tokens (the tokens table of database/sql/tokens.go, TokenService.GetToken, the auth
   middleware / RequireAdmin decisions and the websocket connect check).  Every statement quantifies
   over every admin token value, every token value and every operation sequence
   (create / revoke with any credential, authenticate over HTTP or websocket, restart, create / revoke whose
   COMMIT fails, an authentication overlapping a revocation). *)
From Coq Require Import String List.
From BHS Require Import Tokens TokensProofs.
Import ListNotations.
Open Scope list_scope.

(* after ANY history, t authenticates iff it is the admin token or there is an earlier creation of t
   with no revocation of t in between (creations/revocations count only when made with the admin token) *)
Theorem C10_main : forall admin ops t,
  authenticated (get_token admin (run admin [] ops) t) = true <-> t = admin \/ issued admin ops t.
Proof. exact auth_iff_issued. Qed.

(* ... and it authenticates as a non-admin *)
Theorem C10_issued_is_user : forall admin ops t,
  get_token admin (run admin [] ops) t = User <-> t <> admin /\ issued admin ops t.
Proof. exact user_iff_issued. Qed.

(* the same at every position of every sequence: the answer of the operation at position |pre| is the one
   the declarative reading of the history pre dictates, and the validity of every token after it is the
   declarative one for pre ++ [o] *)
Theorem C10_every_position : forall admin ops pre o post,
  ops = pre ++ o :: post ->
  exists st', nth_error (trace admin [] ops) (length pre) = Some (spec_outcome admin pre o, st') /\
              forall t, get_token admin st' t = spec_role admin (pre ++ [o]) t.
Proof. exact every_position. Qed.

Theorem C10_trace_is_spec_trace : forall admin rest pre,
  map fst (trace admin (run admin [] pre) rest) = spec_trace admin pre rest.
Proof. exact trace_is_spec_trace. Qed.

(* the executable reading used by the oracle is the declarative one *)
Theorem C10_issuedb_iff : forall admin ops t, issuedb admin ops t = true <-> issued admin ops t.
Proof. exact issuedb_iff. Qed.

(* creating or revoking one token never changes the validity of any other *)
Theorem C10_others_unaffected : forall admin st o t',
  target o <> Some t' ->
  get_token admin (step admin st o) t' = get_token admin st t'.
Proof. exact others_unaffected. Qed.

(* create / revoke attempted without the admin token, authentications and restarts change nothing *)
Theorem C10_non_admin_ops_change_nothing : forall admin st o,
  (forall t, o <> Create admin t /\ o <> Revoke admin t /\ o <> Race t) -> step admin st o = st.
Proof. exact non_admin_ops_change_nothing. Qed.

(* the configured admin token always authenticates as admin ... *)
Theorem C10_admin_always_admin : forall admin st ops, get_token admin (run admin st ops) admin = Admin.
Proof. exact admin_always_admin. Qed.

(* ... nothing else ever does ... *)
Theorem C10_only_admin_is_admin : forall admin st t, get_token admin st t = Admin <-> t = admin.
Proof. exact only_admin_is_admin. Qed.

(* ... and it cannot be disabled through the API *)
Theorem C10_admin_not_revocable : forall admin pre c post,
  let st := run admin [] (pre ++ Revoke c admin :: post) in
  outcome_of admin st (AuthHttp admin) = ORole Admin /\ outcome_of admin st (AuthWs admin) = OWs true.
Proof. exact admin_not_revocable. Qed.

(* the HTTP API and the websocket connect handshake accept exactly the same tokens *)
Theorem C10_http_ws_agree : forall admin st t ok r,
  outcome_of admin st (AuthWs t) = OWs ok -> outcome_of admin st (AuthHttp t) = ORole r ->
  (ok = true <-> r <> NoTok).
Proof. exact http_ws_agree. Qed.

(* refinement to the set machine (Create adds, Revoke removes) *)
Theorem C10_refines_set_machine : forall admin ops st x,
  abs (run admin st ops) x <-> spec_run admin (abs st) ops x.
Proof. exact refinement_run. Qed.

(* with fresh draws the table is exactly created \ revoked, and issued tokens are pairwise distinct *)
Theorem C10_created_minus_revoked : forall admin ops t, fresh admin ops ->
  (In t (run admin [] ops) <-> In t (created admin ops) /\ ~ In t (revoked admin ops)).
Proof. exact set_spec. Qed.

Theorem C10_fresh_distinct : forall admin ops, fresh admin ops -> NoDup (created admin ops).
Proof. exact fresh_created_distinct. Qed.

Theorem C10_table_nodup : forall admin ops st, NoDup st -> NoDup (run admin st ops).
Proof. exact table_nodup. Qed.

(* ---- storage failures: a create / revoke whose COMMIT fails changes nothing, does not answer success, and
   every later answer is the one of the history without the failed operations ---- *)
Theorem C10_failed_op_changes_nothing : forall admin st o, is_failed o = true -> step admin st o = st.
Proof. exact failed_op_changes_nothing. Qed.

Theorem C10_failed_op_not_success : forall admin st o, is_failed o = true ->
  outcome_of admin st o = OFailed \/ outcome_of admin st o = ODenied.
Proof. exact failed_op_not_success. Qed.

Theorem C10_failed_ops_erasable : forall admin ops st,
  run admin st ops = run admin st (filter (fun o => negb (is_failed o)) ops).
Proof. exact failed_ops_erasable. Qed.

(* ---- overlapping operations (linearisation reading: a sequence lists the operations in the order of their
   single shared-table access, which lies between invocation and response; an operation invoked after the
   response of another one is later in the sequence).  Once a revocation of t has taken effect, every
   authentication of t that takes effect later - in particular every one that starts after the revocation
   answered - is refused on both transports, until t is created again; the authentication that overlaps the
   revocation ([Race t]) may answer either way. ---- *)
Theorem C10_after_revoke_refused : forall admin pre o mid t,
  t <> admin -> revokes admin o t -> ~ In (Create admin t) mid ->
  let st := run admin [] (pre ++ o :: mid) in
  outcome_of admin st (AuthHttp t) = ORole NoTok /\ outcome_of admin st (AuthWs t) = OWs false.
Proof. exact after_revoke_refused. Qed.

Theorem C10_race_inflight_allowed : forall admin pre t r,
  outcome_of admin (run admin [] pre) (Race t) = ORace r -> race_allowed admin pre t r.
Proof. exact race_inflight_allowed. Qed.

Theorem C10_race_allowed_cases : forall admin pre t r, race_allowed admin pre t r ->
  r = spec_role admin pre t \/ (t <> admin /\ r = NoTok) \/ (t = admin /\ r = Admin).
Proof. exact race_allowed_cases. Qed.

(* an authentication's verdict is a function of (admin token, table, its own token): the other authentications
   that overlap or precede it - of whatever tokens, valid or not, on either transport - do not influence it *)
Theorem C10_auths_do_not_interfere : forall admin others st,
  forallb is_auth others = true -> run admin st others = st.
Proof. exact auths_do_not_interfere. Qed.

Theorem C10_verdict_depends_on_own_token_only : forall admin others st o,
  forallb is_auth others = true -> is_auth o = true ->
  outcome_of admin (run admin st others) o = outcome_of admin st o.
Proof. exact verdict_depends_on_own_token_only. Qed.

Print Assumptions C10_auths_do_not_interfere.
Print Assumptions C10_verdict_depends_on_own_token_only.
Print Assumptions C10_failed_op_changes_nothing.
Print Assumptions C10_failed_op_not_success.
Print Assumptions C10_failed_ops_erasable.
Print Assumptions C10_after_revoke_refused.
Print Assumptions C10_race_inflight_allowed.
Print Assumptions C10_race_allowed_cases.
Print Assumptions C10_main.
Print Assumptions C10_issued_is_user.
Print Assumptions C10_every_position.
Print Assumptions C10_trace_is_spec_trace.
Print Assumptions C10_issuedb_iff.
Print Assumptions C10_others_unaffected.
Print Assumptions C10_non_admin_ops_change_nothing.
Print Assumptions C10_admin_always_admin.
Print Assumptions C10_only_admin_is_admin.
Print Assumptions C10_admin_not_revocable.
Print Assumptions C10_http_ws_agree.
Print Assumptions C10_refines_set_machine.
Print Assumptions C10_created_minus_revoked.
Print Assumptions C10_fresh_distinct.
Print Assumptions C10_table_nodup.
