(* C04 - Chain query endpoints answer as pure functions of the stored header tree.
   Only the property theorems; each is closed by `exact`.

   Model: BHS.Query - one Gallina function per SQL statement / service method / handler branch of the read
          endpoints (sqlHeader, sqlHeaderByHeightRange, sqlSelectTips, sqlSelectTip, sqlSelectAncestorOnHeight,
          sqlChainBetweenTwoHashes, sqlSelectPreviousBlock; GetHeaderAncestorsByHash, GetCommonAncestor; the handlers'
          defaults and error mapping), over the store model BHS.Store of C01.
   Purity: every read is a FUNCTION  store -> answer  and returns no store, so "reads never modify the store" holds
          for the model by typing; for the implementation it is checked on every run (TableDigest("headers") before and
          after every batch of reads must be equal, class read-modified-store).
   Hypotheses: [Valid s] - the invariant of every store reachable by ingestion of positive-work headers
          (ChainMain.reachable_valid); [regular s t] - every parent link below t is height-consistent, which holds for
          EVERY connected (non-orphan) header (C04_connected_regular) and for orphan chains whose parents were stored
          first; it fails exactly below an orphan whose parent arrived later.

   Any work: the `_any_work` theorems at the end restate everything except "tip = C01's best header" under
          [InvSome s := exists tip, Inv s tip], the invariant of EVERY reachable store, zero-work headers included
          (C04_reachable_any_work, from ChainFields.reachable_inv); C04_tip_longest (tip = greatest cumulative work) stays
          positive-work because C01's best-header statement is refuted for zero-work histories.

   Full statement and where the code departs from it:
   * ancestors: "exactly the parent-linked path when b is an ancestor-or-self of a, a same-chain error otherwise":
     C04_ancestors / C04_ancestors_iff / C04_path_unique - the full statement for the code as it is.
     History: before the fix ed2f6a2 of /repo (= build/proposed-fixes/C04-1.diff) two DIFFERENT headers of equal height gave
     200 [] ; that model (Query.ancestors_before_fix) was refuted (formerly C04_ancestors_equal_height_refuted) and satisfied
     the statement only for the other arguments (formerly C04_ancestors_partial); finding C04-ancestors-equal-height-empty
     is now "fixed", its witness stays in corpus/C04; QueryAncProofs.ancestors_before_fix_differs states the exact difference.
   * orphans whose parent arrived later keep height 1: a genuine ancestor is refused (C04_ancestors_late_parent_refuted,
     C04_common_ancestor_late_parent_refuted; known findings) - the statements are therefore proved for regular arguments.
   * common ancestor of an empty list / of a list containing genesis: answered 500 before the fixes 5ab472d / 5c09f8d of /repo,
     now 400 (C04_common_ancestor_endpoint_status). *)
From Coq Require Import ZArith NArith List.
From BHS Require Import Store Chain ChainSpec StoreProofs ChainInv ChainMain ChainFields Query QueryProofs QueryAncProofs QueryCaProofs QueryAnyWork QueryExamples.
Import ListNotations.
Open Scope Z_scope.

(* header / state by hash: that header; absent iff the hash is not stored (404) *)
Theorem C04_lookup : forall s t, Valid s ->
  (forall r, get_by_hash s t = Some r <-> In r s /\ id r = t) /\ (get_by_hash s t = None <-> ~ In t (ids s)).
Proof. exact lookup_spec. Qed.

(* tip/longest: the Longest row above every other Longest row = the greatest-cumulative-work header of C01 *)
Theorem C04_tip_longest : forall s, Valid s ->
  exists t, tip_longest s = Some t /\ In t s /\ st t = Longest /\ best s = Some t /\
            (forall r, In r s -> st r = Longest -> r = t \/ height r < height t).
Proof. exact tip_longest_spec. Qed.

(* by height, for ALL heights and counts (count defaults to 1): only stored rows of the window [h, h+count-1], and all Longest
   rows in it (stored heights fit 64 bits - they are int32).  History: before the fix 76f1492 of /repo (= proposed-fixes/C04-2.diff)
   the end height+count-1 wrapped in Go int arithmetic; that function (Query.by_height_range_before_fix) satisfied the
   statement only when the sum fits a 64-bit int and was refuted otherwise (QueryExamples.by_height_overflow_refuted_before_fix,
   formerly C04_by_height_overflow_refuted; finding C04-by-height-int64-overflow, now "fixed"). *)
Theorem C04_by_height : forall s h c,
  (forall r, In r (by_height_range s h c) -> In r s /\ h <= height r <= h + count_of c - 1) /\
  (forall r, In r s -> height r < two63 -> st r = Longest -> h <= height r <= h + count_of c - 1 -> In r (by_height_range s h c)).
Proof. exact by_height_spec. Qed.

(* tips: the Longest tip plus every leaf (row without a stored child) of a Stale or Orphan branch *)
Theorem C04_tips : forall s, Valid s ->
  exists t, tipB s = Some t /\ st t = Longest /\ best s = Some t /\
    forall r, In r (tips s) <-> r = t \/ (In r s /\ st r <> Longest /\ ~ has_child s r).
Proof. exact tips_spec. Qed.

(* every connected header is height-consistent *)
Theorem C04_connected_regular : forall s t x, wf s -> by_hash s t = Some x -> orph x = false -> regular s t.
Proof. exact connected_regular. Qed.

(* ancestors: the full statement (see ancestors_answer_ok) *)
Theorem C04_ancestors : forall s a b, Valid s -> regular s a -> ancestors_answer_ok s a b (ancestors s a b).
Proof. exact ancestors_spec. Qed.

Theorem C04_ancestors_iff : forall s a b, Valid s -> regular s a ->
  ((exists p, ancestors s a b = AOk p) <-> exists rb, by_hash s b = Some rb /\ reach s a rb).
Proof. exact ancestors_iff. Qed.

(* "exactly THE path": on a height-consistent walk the parent-linked path between two headers is unique *)
Theorem C04_path_unique : forall s a b p, path s a b p -> regular s a -> forall q, path s a b q -> p = q.
Proof. exact path_unique. Qed.

(* without height-consistency (an orphan whose parent was stored after it) the statement fails *)
Theorem C04_ancestors_late_parent_refuted :
  exists s a b rb, Valid s /\ by_hash s b = Some rb /\ reach s a rb /\
    ancestors s a b = AErr EHigher /\ ~ ancestors_answer_ok s a b (ancestors s a b).
Proof. exact ancestors_late_parent_refuted. Qed.

(* common ancestor: an ancestor of all, strictly below the lowest given height, and no higher such header exists;
   every other answer means that no such header exists *)
Theorem C04_common_ancestor : forall s l hs, Valid s -> l <> [] -> (forall t, In t l -> regular s t) ->
  Forall2 (fun t r => by_hash s t = Some r) l hs ->
  common_answer_ok s l (min_height hs max_int32) (common_ancestor s l).
Proof. exact common_ancestor_spec. Qed.

(* for connected headers above genesis the answer always exists *)
Theorem C04_common_ancestor_connected : forall s l hs, Valid s -> l <> [] ->
  Forall2 (fun t r => by_hash s t = Some r /\ orph r = false) l hs -> 1 <= min_height hs max_int32 ->
  exists r, common_ancestor s l = COk r.
Proof. exact common_ancestor_connected. Qed.

Theorem C04_common_ancestor_unknown : forall s l t, In t l -> by_hash s t = None -> common_ancestor s l = CErrNotFound.
Proof. exact common_ancestor_unknown. Qed.

(* the endpoint (handler + service) answers 200, 400 or 404 - never 500 - on every store and list *)
Theorem C04_common_ancestor_endpoint_status : forall s l, In (cres_status (common_ancestor_endpoint s l)) [200; 400; 404].
Proof. exact common_ancestor_endpoint_status. Qed.

Theorem C04_common_ancestor_late_parent_refuted :
  exists s l hs, Valid s /\ l <> [] /\ Forall2 (fun t r => by_hash s t = Some r) l hs /\
    common_ancestor s l = CErrNotFound /\ ~ common_answer_ok s l (min_height hs max_int32) (common_ancestor s l).
Proof. exact common_ancestor_late_parent_refuted. Qed.

(* ================================================================== any work (zero-work headers included) *)
(* every store reachable by ingestion satisfies the any-work invariant *)
Theorem C04_reachable_any_work : forall f gid gpl hs, gid <> 0%N -> nonzero_ids hs -> InvSome (run f gid gpl hs).
Proof. exact reachable_invsome. Qed.

Theorem C04_lookup_any_work : forall s t, InvSome s ->
  (forall r, get_by_hash s t = Some r <-> In r s /\ id r = t) /\ (get_by_hash s t = None <-> ~ In t (ids s)).
Proof. exact lookup_any_work. Qed.

(* tip/longest reports the tip of the invariant (the row all Longest labels derive from): Longest, above every other Longest row *)
Theorem C04_tip_longest_any_work : forall s tip, Inv s tip ->
  exists t, tip_longest s = Some t /\ by_hash s tip = Some t /\ In t s /\ st t = Longest /\
            (forall r, In r s -> st r = Longest -> r = t \/ height r < height t).
Proof. exact tip_longest_inv. Qed.

(* by height needs no invariant at all *)
Theorem C04_by_height_any_work : forall s h c, InvSome s ->
  (forall r, In r (by_height_range s h c) -> In r s /\ h <= height r <= h + count_of c - 1) /\
  (forall r, In r s -> height r < two63 -> st r = Longest -> h <= height r <= h + count_of c - 1 -> In r (by_height_range s h c)).
Proof. exact by_height_any_work. Qed.

Theorem C04_tips_any_work : forall s tip, Inv s tip ->
  exists t, tipB s = Some t /\ by_hash s tip = Some t /\ st t = Longest /\
    forall r, In r (tips s) <-> r = t \/ (In r s /\ st r <> Longest /\ ~ has_child s r).
Proof. exact tips_spec_inv. Qed.

Theorem C04_connected_regular_any_work : forall s t x, InvSome s -> by_hash s t = Some x -> orph x = false -> regular s t.
Proof. exact connected_regular_any_work. Qed.

Theorem C04_ancestors_any_work : forall s a b, InvSome s -> regular s a -> ancestors_answer_ok s a b (ancestors s a b).
Proof. exact ancestors_any_work. Qed.

Theorem C04_ancestors_iff_any_work : forall s a b, InvSome s -> regular s a ->
  ((exists p, ancestors s a b = AOk p) <-> exists rb, by_hash s b = Some rb /\ reach s a rb).
Proof. exact ancestors_iff_any_work. Qed.

Theorem C04_common_ancestor_any_work : forall s l hs, InvSome s -> l <> [] -> (forall t, In t l -> regular s t) ->
  Forall2 (fun t r => by_hash s t = Some r) l hs ->
  common_answer_ok s l (min_height hs max_int32) (common_ancestor s l).
Proof. exact common_ancestor_any_work. Qed.

Theorem C04_common_ancestor_connected_any_work : forall s l hs, InvSome s -> l <> [] ->
  Forall2 (fun t r => by_hash s t = Some r /\ orph r = false) l hs -> 1 <= min_height hs max_int32 ->
  exists r, common_ancestor s l = COk r.
Proof. exact common_ancestor_connected_any_work. Qed.

Print Assumptions C04_lookup.
Print Assumptions C04_tip_longest.
Print Assumptions C04_by_height.
Print Assumptions C04_tips.
Print Assumptions C04_connected_regular.
Print Assumptions C04_ancestors.
Print Assumptions C04_ancestors_iff.
Print Assumptions C04_path_unique.
Print Assumptions C04_ancestors_late_parent_refuted.
Print Assumptions C04_common_ancestor.
Print Assumptions C04_common_ancestor_connected.
Print Assumptions C04_common_ancestor_unknown.
Print Assumptions C04_common_ancestor_endpoint_status.
Print Assumptions C04_common_ancestor_late_parent_refuted.
Print Assumptions C04_reachable_any_work.
Print Assumptions C04_lookup_any_work.
Print Assumptions C04_tip_longest_any_work.
Print Assumptions C04_by_height_any_work.
Print Assumptions C04_tips_any_work.
Print Assumptions C04_ancestors_any_work.
Print Assumptions C04_ancestors_iff_any_work.
Print Assumptions C04_common_ancestor_any_work.
Print Assumptions C04_common_ancestor_connected_any_work.
Print Assumptions C04_connected_regular_any_work.
