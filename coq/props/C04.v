(* C04 - placeholder while the pipeline is brought up; replaced by the real theorems *)
From Coq Require Import ZArith NArith List.
From BHS Require Import Store Query.
Import ListNotations.

Theorem C04_stub : forall s t r, get_by_hash s t = Some r -> by_hash s t = Some r.
Proof. intros s t r H. exact H. Qed.
Print Assumptions C04_stub.
