(* C11 - Exactly one ADD event per stored header on every notification channel.
   Only the property theorems; each is closed by `exact`.

   Model: BHS.Notify on top of BHS.Chain/BHS.Store.
     add_f f s h x        chainService.Add with an optional failing write x (the k-th planned write fails before /
                          after it happened); returns the store, the answer (Done outcome | WriteFailed write) and
                          what is handed to Notifier.Notify (line 109 is reached iff every write succeeded).
     event_of_row         domains.HeaderAdded (operation ADD; hash, previous hash, height, cumulated work, state,
                          version, merkle root, nonce, timestamp).
     notifier chs ev      Notifier.Notify: one delivery task per registered channel, appended to the pool.
     step / run_sched     small-step system; a schedule is ANY list of actions
                          Ingest | Complete i (finish the i-th pending delivery) | Release c (a held slow channel
                          lets its deliveries finish); channel behaviours BOk | BErr | BSlow.
     stored_rows f s hs   SPEC side: for every submission answered "stored", the row found under its hash in the
                          store right after its Add returned.
   Quantification: all initial stores s, all histories hs (with duplicates, forbidden hashes, failing writes),
   all channel sets (registered once each: NoDup), all behaviours, all schedules.

   Residual (not expressible in this model, see checks/C11.json "strength"): that `go ch.Notify(event)` really
   returns without waiting and that a panicking channel kills the process are facts of the Go runtime. *)
From Coq Require Import ZArith NArith List Permutation.
From BHS Require Import Work Store Chain Notify NotifyProofs.
Import ListNotations.
Open Scope Z_scope.

(* MAIN: once the history is ingested and no delivery is in flight, every registered channel has been handed
   exactly the multiset of the events of the rows reported stored - one per stored header, nothing else *)
Theorem C11_one_event_per_stored : forall c s hs sch ch,
  NoDup (c_chans c) -> In ch (c_chans c) ->
  let y := run_sched c (init_sys s hs) sch in
  sy_todo y = [] -> sy_pool y = [] ->
  Permutation (log_evs ch y) (map event_of_row (stored_rows (c_forbidden c) s hs)).
Proof. exact one_event_per_stored. Qed.

(* ... and at every moment of every schedule: delivered + in flight + still to come = that multiset
   (never a second event, never one too early) *)
Theorem C11_accounted_at_all_times : forall c s hs sch ch,
  NoDup (c_chans c) -> In ch (c_chans c) ->
  let y := run_sched c (init_sys s hs) sch in
  Permutation (log_evs ch y ++ pool_evs ch (sy_pool y)
               ++ map event_of_row (stored_rows (c_forbidden c) (sy_store y) (sy_todo y)))
              (map event_of_row (stored_rows (c_forbidden c) s hs)).
Proof. exact accounted_at_all_times. Qed.

(* such a final state exists for every history and configuration (the hypotheses above are satisfiable) *)
Theorem C11_complete_schedule_exists : forall c s hs,
  exists sch, let y := run_sched c (init_sys s hs) sch in sy_todo y = [] /\ sy_pool y = [].
Proof. exact complete_schedule_exists. Qed.

(* counted per header of the final table (histories whose failing writes did not happen): every header that was
   not there initially has exactly one event on every channel, the initial ones none *)
Theorem C11_exactly_one_per_new_row : forall c s hs sch ch i,
  NoDup (c_chans c) -> In ch (c_chans c) -> NoDup (ids s) -> no_fail_after hs ->
  let y := run_sched c (init_sys s hs) sch in
  sy_todo y = [] -> sy_pool y = [] -> In i (ids (sy_store y)) ->
  count_id i (log_evs ch y) = if memN i (ids s) then 0%nat else 1%nat.
Proof. exact exactly_one_event_per_new_row. Qed.

(* the event's fields are the stored row's at insertion time, and that row is the submission *)
Theorem C11_event_fields_equal_row : forall f s h x s' o evs,
  add_f f s h x = (s', Done (Stored o), evs) ->
  exists r, by_hash s' (s_id h) = Some r /\ evs = [event_of_row r] /\
            id r = s_id h /\ st r = o /\ prev r = s_prev h /\ pl r = s_pl h /\
            by_hash s (s_id h) = None /\ memN (s_id h) f = false.
Proof. exact event_fields_equal_row. Qed.

(* duplicates, forbidden hashes, internal errors and failed writes hand nothing to the notifier *)
Theorem C11_no_event_otherwise : forall f s h x s' r evs,
  add_f f s h x = (s', r, evs) -> is_stored r = false -> evs = [].
Proof. exact no_event_otherwise. Qed.

Theorem C11_duplicate_no_event : forall f s h x w,
  by_hash s (s_id h) = Some w -> add_f f s h x = (s, Done Duplicate, []).
Proof. exact add_f_duplicate. Qed.

Theorem C11_forbidden_no_event : forall f s h x,
  by_hash s (s_id h) = None -> memN (s_id h) f = true -> add_f f s h x = (s, Done Forbidden, []).
Proof. exact add_f_forbidden. Qed.

Theorem C11_failed_write_no_event : forall f s h x w done,
  fault_point x (snd (plan f s h)) = Some (w, done) ->
  add_f f s h x = (exec s (snd (plan f s h)) done, WriteFailed w, []).
Proof. exact add_f_failed. Qed.

(* a channel that is not registered is never handed anything *)
Theorem C11_unregistered_silent : forall c s hs sch ch,
  NoDup (c_chans c) -> ~ In ch (c_chans c) -> log_evs ch (run_sched c (init_sys s hs) sch) = [].
Proof. exact unregistered_channel_silent. Qed.

(* ingestion does not depend on the channels, their behaviours or the schedule: the store, the rest of the
   history and the answers are those of the sequential fold over the submissions ingested so far *)
Theorem C11_ingestion_is_sequential : forall c s hs sch,
  let n := ingests sch in
  let y := run_sched c (init_sys s hs) sch in
  sy_store y = run_f (c_forbidden c) s (firstn n hs) /\
  sy_todo y = skipn n hs /\
  rev (sy_results y) = results_f (c_forbidden c) s (firstn n hs).
Proof. exact ingestion_is_sequential. Qed.

Theorem C11_ingestion_independent_of_channels : forall c1 c2 s hs sch1 sch2,
  c_forbidden c1 = c_forbidden c2 -> ingests sch1 = ingests sch2 ->
  let y1 := run_sched c1 (init_sys s hs) sch1 in
  let y2 := run_sched c2 (init_sys s hs) sch2 in
  sy_store y1 = sy_store y2 /\ sy_todo y1 = sy_todo y2 /\ sy_results y1 = sy_results y2.
Proof. exact ingestion_independent_of_channels. Qed.

(* the next submission is processed whatever is pending or held *)
Theorem C11_ingest_never_blocked : forall c y h x t, sy_todo y = (h, x) :: t ->
  sy_todo (step c y Ingest) = t /\
  sy_store (step c y Ingest) = fst (fst (add_f (c_forbidden c) (sy_store y) h x)).
Proof. exact ingest_never_blocked. Qed.

(* a held (slow, never released) or failing channel does not suppress delivery on the others *)
Theorem C11_held_channel_does_not_suppress_others : forall c s hs sch ch,
  NoDup (c_chans c) -> In ch (c_chans c) ->
  let y := run_sched c (init_sys s hs) sch in
  sy_todo y = [] ->
  blocked (c_beh c) (sy_released y) ch = false ->
  let y' := run_sched c y (sweep (length (sy_pool y))) in
  Permutation (log_evs ch y') (map event_of_row (stored_rows (c_forbidden c) s hs)).
Proof. exact held_channel_does_not_suppress_others. Qed.

Theorem C11_ok_channel_deliveries_succeed : forall c s hs sch d,
  In d (sy_log (run_sched c (init_sys s hs) sch)) -> c_beh c (d_ch d) <> BErr -> d_ok d = true.
Proof. exact ok_channel_deliveries_succeed. Qed.

(* without failing writes the model is Chain.add (C01's theorems apply to the stores it builds) *)
Theorem C11_nofault_is_chain_add : forall f s h,
  fst (add_f f s h NoFault) = (fst (add f s h), Done (snd (add f s h))).
Proof. exact add_f_nofault. Qed.

(* the executable oracle applied to the implementation's observations decides multiset equality *)
Theorem C11_oracle_exact : forall rows got,
  check_channel rows got = VOk <-> Permutation got (map event_of_row rows).
Proof. exact check_channel_ok. Qed.

(* satisfiability of the hypotheses on a non-trivial run (reorganisation, failing write + retry, duplicate,
   forbidden hash; ok / slow / failing channel; interleaved schedule) *)
Theorem C11_example_hypotheses :
  NoDup (c_chans ex_cfg) /\ NoDup (ids ex_s0) /\ sy_todo ex_y = [] /\ sy_pool ex_y = [] /\
  no_fail_after (firstn 5 ex_hs).
Proof. exact ex_hypotheses. Qed.

Print Assumptions C11_one_event_per_stored.
Print Assumptions C11_accounted_at_all_times.
Print Assumptions C11_complete_schedule_exists.
Print Assumptions C11_exactly_one_per_new_row.
Print Assumptions C11_event_fields_equal_row.
Print Assumptions C11_no_event_otherwise.
Print Assumptions C11_duplicate_no_event.
Print Assumptions C11_forbidden_no_event.
Print Assumptions C11_failed_write_no_event.
Print Assumptions C11_unregistered_silent.
Print Assumptions C11_ingestion_is_sequential.
Print Assumptions C11_ingestion_independent_of_channels.
Print Assumptions C11_ingest_never_blocked.
Print Assumptions C11_held_channel_does_not_suppress_others.
Print Assumptions C11_ok_channel_deliveries_succeed.
Print Assumptions C11_nofault_is_chain_add.
Print Assumptions C11_oracle_exact.
Print Assumptions C11_example_hypotheses.
