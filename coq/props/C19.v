(* C19 - Compact bits -> target -> work arithmetic is exact on the whole 32-bit domain.
   This file contains only the property theorems, each closed by `exact`. *)
From Coq Require Import ZArith.
From BHS Require Import Work WorkProofs.
Open Scope Z_scope.

(* decoded target = sign x mantissa x 256^(exponent-3), truncating below exponent 3 *)
Theorem C19_target : forall c, 0 <= c < 2^32 -> compact_to_big c = target_spec c.
Proof. exact compact_spec. Qed.

(* work = floor(2^256/(target+1)), or zero when the target is not positive *)
Theorem C19_work : forall c, 0 <= c < 2^32 -> calc_work c = work_of_target (target_spec c).
Proof. exact work_spec. Qed.

(* work is non-increasing in the target *)
Theorem C19_work_antitone : forall t1 t2, t1 <= t2 -> 0 < t1 -> work_of_target t2 <= work_of_target t1.
Proof. exact work_antitone. Qed.

Theorem C19_work_nonneg : forall t, 0 <= work_of_target t.
Proof. exact work_nonneg. Qed.

(* the integer logarithm equals floor(log2 n) for every 32-bit n >= 1 *)
Theorem C19_log2 : forall n, 1 <= n < 2^32 -> fast_log2 n = Z.log2 n.
Proof. exact log2_spec. Qed.

Print Assumptions C19_target.
Print Assumptions C19_work.
Print Assumptions C19_work_antitone.
Print Assumptions C19_work_nonneg.
Print Assumptions C19_log2.
